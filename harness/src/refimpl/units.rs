//! Unit database oracle: /repo/unit-gen/units.txt (the Fantom database the library's table was
//! generated from), parsed here independently of the library.

use std::collections::BTreeMap;
use std::sync::OnceLock;

#[derive(Clone, Debug)]
pub struct DbUnit {
    pub quantity: String,
    pub ids: Vec<String>,
    /// kg, m, sec, K, A, mol, cd
    pub dim: [i8; 7],
    pub scale: f64,
    pub offset: f64,
}

impl DbUnit {
    pub fn dimensionless(&self) -> bool {
        self.dim == [0; 7]
    }
}

fn parse_dim(s: &str) -> [i8; 7] {
    let mut d = [0i8; 7];
    for part in s.split('*') {
        let part = part.trim();
        if part.is_empty() {
            continue;
        }
        let split = part.find(|c: char| c == '-' || c.is_ascii_digit()).unwrap_or(part.len());
        let (name, exp) = part.split_at(split);
        let e: i8 = if exp.is_empty() { 1 } else { exp.parse().unwrap_or(1) };
        let i = match name {
            "kg" => 0,
            "m" => 1,
            "sec" => 2,
            "K" => 3,
            "A" => 4,
            "mol" => 5,
            "cd" => 6,
            _ => continue,
        };
        d[i] = e;
    }
    d
}

pub fn db() -> &'static Vec<DbUnit> {
    static D: OnceLock<Vec<DbUnit>> = OnceLock::new();
    D.get_or_init(|| {
        let text = std::fs::read_to_string("/repo/unit-gen/units.txt").expect("units.txt");
        let mut out = vec![];
        let mut quantity = String::new();
        for line in text.lines() {
            let line = line.trim();
            if line.is_empty() || line.starts_with("//") {
                continue;
            }
            if let Some(rest) = line.strip_prefix("--") {
                let rest = rest.trim();
                quantity = match rest.rfind('(') {
                    Some(i) => rest[..i].trim().to_string(),
                    None => rest.to_string(),
                };
                continue;
            }
            let parts: Vec<&str> = line.split(';').collect();
            let ids: Vec<String> = parts[0].split(',').map(|s| s.trim().to_string()).filter(|s| !s.is_empty()).collect();
            if ids.is_empty() {
                continue;
            }
            let dim = parts.get(1).map(|s| parse_dim(s)).unwrap_or([0; 7]);
            let scale = parts.get(2).and_then(|s| s.trim().parse::<f64>().ok()).unwrap_or(1.0);
            let offset = parts.get(3).and_then(|s| s.trim().parse::<f64>().ok()).unwrap_or(0.0);
            out.push(DbUnit {
                quantity: quantity.clone(),
                ids,
                dim,
                scale,
                offset,
            });
        }
        out
    })
}

/// identifier -> units carrying it (more than one entry means the database itself is ambiguous there)
pub fn by_id() -> &'static BTreeMap<String, Vec<usize>> {
    static M: OnceLock<BTreeMap<String, Vec<usize>>> = OnceLock::new();
    M.get_or_init(|| {
        let mut m: BTreeMap<String, Vec<usize>> = BTreeMap::new();
        for (i, u) in db().iter().enumerate() {
            for id in &u.ids {
                let e = m.entry(id.clone()).or_default();
                if !e.contains(&i) {
                    e.push(i);
                }
            }
        }
        m
    })
}

/// Another database unit with the same quantity, dimension, scale and offset (EUR for USD, per_second for hertz,
/// millibar for hectopascal): a different unit that nothing but its identifiers tells apart. None if there is none
/// (or the library's table has no unit of those identifiers).
pub fn sibling_of(ids: &[String]) -> Option<Vec<String>> {
    let me = db().iter().find(|u| u.ids == ids)?;
    db().iter()
        .find(|u| u.ids != me.ids && u.quantity == me.quantity && u.dim == me.dim && u.scale == me.scale && u.offset == me.offset && crate::rval::unit_by_ids(&u.ids).is_some())
        .map(|u| u.ids.clone())
}

pub fn lookup(id: &str) -> Option<&'static DbUnit> {
    by_id().get(id).and_then(|v| v.first()).map(|i| &db()[*i])
}

/// Can this identifier be spelled as the unit suffix of a Zinc number?
pub fn zinc_spellable(id: &str) -> bool {
    !id.is_empty() && id.chars().all(|c| c.is_ascii_alphabetic() || "%_/$".contains(c) || (c as u32) > 0x80)
}
