pub mod zones;
