pub mod zones;
pub mod units;
pub mod zinc;
pub mod hayson;
