//! Reference Hayson writer and reader (DESIGN.md appendix B) over a small JSON AST of its own,
//! so that member order and number spelling are under the generator's control and the reader
//! does not depend on serde_json.

use super::units;
use super::zinc::{civil, days_from_civil, write_number_text, Ch};
use super::zones;
use crate::rval::*;

#[derive(Clone, Debug, PartialEq)]
pub enum JV {
    Null,
    Bool(bool),
    /// number as spelled
    Num(String),
    Str(String),
    Arr(Vec<JV>),
    Obj(Vec<(String, JV)>),
}

// ---------------------------------------------------------------------------------------------
// JSON text

fn esc(s: &str, out: &mut String) {
    out.push('"');
    for c in s.chars() {
        match c {
            '"' => out.push_str("\\\""),
            '\\' => out.push_str("\\\\"),
            '\n' => out.push_str("\\n"),
            '\r' => out.push_str("\\r"),
            '\t' => out.push_str("\\t"),
            c if (c as u32) < 0x20 => out.push_str(&format!("\\u{:04x}", c as u32)),
            c => out.push(c),
        }
    }
    out.push('"');
}

/// JSON-level spelling freedom: any character of any string (member names included) may be written as a
/// \uXXXX escape (astral ones as a surrogate pair, hex digits in either case, '/' as `\/`), and blanks may
/// surround every token. Driven by one salt (0 = canonical text) through a small LCG, so a case stays a pure
/// function of its choice bytes.
struct Spell(u32);
impl Spell {
    fn next(&mut self, n: u32) -> u32 {
        if self.0 == 0 {
            return 0;
        }
        self.0 = self.0.wrapping_mul(1_664_525).wrapping_add(1_013_904_223) | 1;
        (self.0 >> 8) % n
    }
    fn ws(&mut self, out: &mut String) {
        match self.next(12) {
            1 => out.push(' '),
            2 => out.push('\n'),
            3 => out.push_str(" \t"),
            4 => out.push_str("\r\n"),
            _ => {}
        }
    }
    fn esc(&mut self, s: &str, out: &mut String) {
        out.push('"');
        for c in s.chars() {
            let hexcase = |v: u32, upper: bool| if upper { format!("\\u{v:04X}") } else { format!("\\u{v:04x}") };
            if self.next(10) == 3 {
                let upper = self.next(2) == 1;
                let cp = c as u32;
                if cp >= 0x10000 {
                    let v = cp - 0x10000;
                    out.push_str(&hexcase(0xd800 + (v >> 10), upper));
                    out.push_str(&hexcase(0xdc00 + (v & 0x3ff), upper));
                } else {
                    out.push_str(&hexcase(cp, upper));
                }
                continue;
            }
            match c {
                '"' => out.push_str("\\\""),
                '\\' => out.push_str("\\\\"),
                '\n' => out.push_str("\\n"),
                '\r' => out.push_str("\\r"),
                '\t' => out.push_str("\\t"),
                '/' if self.next(3) == 1 => out.push_str("\\/"),
                '\u{8}' if self.next(2) == 1 => out.push_str("\\b"),
                '\u{c}' if self.next(2) == 1 => out.push_str("\\f"),
                c if (c as u32) < 0x20 => out.push_str(&format!("\\u{:04x}", c as u32)),
                c => out.push(c),
            }
        }
        out.push('"');
    }
    fn text(&mut self, j: &JV, out: &mut String) {
        self.ws(out);
        match j {
            JV::Null => out.push_str("null"),
            JV::Bool(b) => out.push_str(if *b { "true" } else { "false" }),
            JV::Num(t) => out.push_str(t),
            JV::Str(s) => self.esc(s, out),
            JV::Arr(a) => {
                out.push('[');
                for (i, e) in a.iter().enumerate() {
                    if i > 0 {
                        out.push(',');
                    }
                    self.text(e, out);
                }
                self.ws(out);
                out.push(']');
            }
            JV::Obj(o) => {
                out.push('{');
                for (i, (k, v)) in o.iter().enumerate() {
                    if i > 0 {
                        out.push(',');
                    }
                    self.ws(out);
                    self.esc(k, out);
                    self.ws(out);
                    out.push(':');
                    self.text(v, out);
                }
                self.ws(out);
                out.push('}');
            }
        }
        self.ws(out);
    }
}

pub fn to_text_spelled(j: &JV, salt: u32, out: &mut String) {
    if salt == 0 {
        to_text(j, out)
    } else {
        Spell(salt | 1).text(j, out)
    }
}

pub fn to_text(j: &JV, out: &mut String) {
    match j {
        JV::Null => out.push_str("null"),
        JV::Bool(b) => out.push_str(if *b { "true" } else { "false" }),
        JV::Num(t) => out.push_str(t),
        JV::Str(s) => esc(s, out),
        JV::Arr(a) => {
            out.push('[');
            for (i, e) in a.iter().enumerate() {
                if i > 0 {
                    out.push(',');
                }
                to_text(e, out);
            }
            out.push(']');
        }
        JV::Obj(o) => {
            out.push('{');
            for (i, (k, v)) in o.iter().enumerate() {
                if i > 0 {
                    out.push(',');
                }
                esc(k, out);
                out.push(':');
                to_text(v, out);
            }
            out.push('}');
        }
    }
}

struct P<'a> {
    s: &'a [char],
    i: usize,
}

impl<'a> P<'a> {
    fn ws(&mut self) {
        while matches!(self.s.get(self.i), Some(' ') | Some('\t') | Some('\n') | Some('\r')) {
            self.i += 1;
        }
    }
    fn err<T>(&self, m: &str) -> Result<T, String> {
        Err(format!("JSON: {m} at {}", self.i))
    }
    fn lit(&mut self, w: &str) -> Result<(), String> {
        for c in w.chars() {
            if self.s.get(self.i) != Some(&c) {
                return self.err("bad literal");
            }
            self.i += 1;
        }
        Ok(())
    }
    fn string(&mut self) -> Result<String, String> {
        self.i += 1;
        let mut out = String::new();
        loop {
            match self.s.get(self.i).copied() {
                None => return self.err("unterminated string"),
                Some('"') => {
                    self.i += 1;
                    return Ok(out);
                }
                Some('\\') => {
                    self.i += 1;
                    let c = self.s.get(self.i).copied();
                    self.i += 1;
                    match c {
                        Some('"') => out.push('"'),
                        Some('\\') => out.push('\\'),
                        Some('/') => out.push('/'),
                        Some('b') => out.push('\u{8}'),
                        Some('f') => out.push('\u{c}'),
                        Some('n') => out.push('\n'),
                        Some('r') => out.push('\r'),
                        Some('t') => out.push('\t'),
                        Some('u') => {
                            let hi = self.hex4()?;
                            if (0xd800..0xdc00).contains(&hi) {
                                if self.s.get(self.i) == Some(&'\\') && self.s.get(self.i + 1) == Some(&'u') {
                                    self.i += 2;
                                    let lo = self.hex4()?;
                                    let cp = 0x10000 + ((hi - 0xd800) << 10) + (lo.wrapping_sub(0xdc00));
                                    out.push(char::from_u32(cp).ok_or("bad surrogate pair")?);
                                } else {
                                    return self.err("lone surrogate");
                                }
                            } else {
                                out.push(char::from_u32(hi).ok_or("bad escape")?);
                            }
                        }
                        _ => return self.err("bad escape"),
                    }
                }
                Some(c) if (c as u32) < 0x20 => return self.err("control char in string"),
                Some(c) => {
                    out.push(c);
                    self.i += 1;
                }
            }
        }
    }
    fn hex4(&mut self) -> Result<u32, String> {
        let mut v = 0;
        for _ in 0..4 {
            match self.s.get(self.i).and_then(|c| c.to_digit(16)) {
                Some(d) => {
                    v = v * 16 + d;
                    self.i += 1
                }
                None => return self.err("hex"),
            }
        }
        Ok(v)
    }
    fn value(&mut self, depth: usize) -> Result<JV, String> {
        if depth > 200 {
            return self.err("too deep");
        }
        self.ws();
        match self.s.get(self.i).copied() {
            None => self.err("unexpected end"),
            Some('n') => self.lit("null").map(|_| JV::Null),
            Some('t') => self.lit("true").map(|_| JV::Bool(true)),
            Some('f') => self.lit("false").map(|_| JV::Bool(false)),
            Some('"') => Ok(JV::Str(self.string()?)),
            Some('[') => {
                self.i += 1;
                let mut a = vec![];
                self.ws();
                if self.s.get(self.i) == Some(&']') {
                    self.i += 1;
                    return Ok(JV::Arr(a));
                }
                loop {
                    a.push(self.value(depth + 1)?);
                    self.ws();
                    match self.s.get(self.i) {
                        Some(',') => self.i += 1,
                        Some(']') => {
                            self.i += 1;
                            return Ok(JV::Arr(a));
                        }
                        _ => return self.err("expected , or ]"),
                    }
                }
            }
            Some('{') => {
                self.i += 1;
                let mut o = vec![];
                self.ws();
                if self.s.get(self.i) == Some(&'}') {
                    self.i += 1;
                    return Ok(JV::Obj(o));
                }
                loop {
                    self.ws();
                    if self.s.get(self.i) != Some(&'"') {
                        return self.err("expected member name");
                    }
                    let k = self.string()?;
                    self.ws();
                    if self.s.get(self.i) != Some(&':') {
                        return self.err("expected :");
                    }
                    self.i += 1;
                    let v = self.value(depth + 1)?;
                    o.push((k, v));
                    self.ws();
                    match self.s.get(self.i) {
                        Some(',') => self.i += 1,
                        Some('}') => {
                            self.i += 1;
                            return Ok(JV::Obj(o));
                        }
                        _ => return self.err("expected , or }"),
                    }
                }
            }
            Some(c) if c == '-' || c.is_ascii_digit() => {
                let st = self.i;
                if c == '-' {
                    self.i += 1;
                }
                let ds = self.i;
                while matches!(self.s.get(self.i), Some(c) if c.is_ascii_digit()) {
                    self.i += 1;
                }
                if self.i == ds {
                    return self.err("digits");
                }
                if self.s[ds] == '0' && self.i - ds > 1 {
                    return self.err("leading zero");
                }
                if self.s.get(self.i) == Some(&'.') {
                    self.i += 1;
                    let fs = self.i;
                    while matches!(self.s.get(self.i), Some(c) if c.is_ascii_digit()) {
                        self.i += 1;
                    }
                    if self.i == fs {
                        return self.err("fraction digits");
                    }
                }
                if matches!(self.s.get(self.i), Some('e') | Some('E')) {
                    self.i += 1;
                    if matches!(self.s.get(self.i), Some('+') | Some('-')) {
                        self.i += 1;
                    }
                    let es = self.i;
                    while matches!(self.s.get(self.i), Some(c) if c.is_ascii_digit()) {
                        self.i += 1;
                    }
                    if self.i == es {
                        return self.err("exponent digits");
                    }
                }
                Ok(JV::Num(self.s[st..self.i].iter().collect()))
            }
            Some(_) => self.err("unexpected character"),
        }
    }
}

pub fn parse_json(text: &str) -> Result<JV, String> {
    let chars: Vec<char> = text.chars().collect();
    let mut p = P { s: &chars, i: 0 };
    let v = p.value(0)?;
    p.ws();
    if p.i != chars.len() {
        return p.err("trailing characters");
    }
    Ok(v)
}

// ---------------------------------------------------------------------------------------------
// writer RVal -> JV with spelling choices

fn permute(mut members: Vec<(String, JV)>, ch: &mut Ch) -> Vec<(String, JV)> {
    let n = members.len();
    if n > 1 {
        let rot = ch.pick(n);
        members.rotate_left(rot);
        if ch.flag() {
            members.reverse();
        }
        if n > 2 && ch.flag() {
            members.swap(0, n / 2);
        }
    }
    members
}

fn num_jv(f: f64, ch: &mut Ch) -> JV {
    let was = ch.no_underscores;
    ch.no_underscores = true;
    let mut t = write_number_text(f, ch);
    ch.no_underscores = was;
    // JSON has no leading '+' and needs a digit on both sides of '.'; write_number_text obeys that.
    // Rust prints huge integral floats without exponent: fine in JSON as well.
    if t == "-0" {
        t = "-0.0".into();
    }
    // JSON: int = "0" | [1-9][0-9]*  (no leading zeros); fall back to the plain spelling otherwise
    let int_part = t.trim_start_matches('-');
    let int_len = int_part.find(|c: char| !c.is_ascii_digit()).unwrap_or(int_part.len());
    if int_len > 1 && int_part.starts_with('0') {
        t = format!("{f}");
        if t == "-0" {
            t = "-0.0".into();
        }
    }
    JV::Num(t)
}

fn dict_members(d: &RDict, ch: &mut Ch) -> Vec<(String, JV)> {
    d.iter().map(|(k, v)| (k.clone(), write_jv(v, ch))).collect()
}

fn rfc3339(d: &RDt) -> String {
    let written = zones::written_offset(d.offset);
    let local = d.secs + written as i64;
    let (y, mo, da, h, mi, s) = civil(local);
    let mut out = format!("{y:04}-{mo:02}-{da:02}T{h:02}:{mi:02}:{s:02}");
    if d.nanos != 0 {
        let mut digits = format!("{:09}", d.nanos);
        while digits.ends_with('0') {
            digits.pop();
        }
        out.push('.');
        out.push_str(&digits);
    }
    if written == 0 {
        out.push('Z');
    } else {
        let sign = if written < 0 { '-' } else { '+' };
        let a = written.abs();
        out.push_str(&format!("{sign}{:02}:{:02}", a / 3600, (a % 3600) / 60));
    }
    out
}

pub fn write_jv(v: &RVal, ch: &mut Ch) -> JV {
    let kind = |k: &str| ("_kind".to_string(), JV::Str(k.to_string()));
    match v {
        RVal::Null => JV::Null,
        RVal::Bool(b) => JV::Bool(*b),
        RVal::Str(s) => JV::Str(s.clone()),
        RVal::Marker => JV::Obj(vec![kind("marker")]),
        RVal::Na => JV::Obj(vec![kind("na")]),
        RVal::Remove => JV::Obj(vec![kind("remove")]),
        RVal::Num(bits, unit) => {
            let f = f64::from_bits(*bits);
            if !f.is_finite() {
                let t = if f.is_nan() {
                    "NaN"
                } else if f > 0.0 {
                    "INF"
                } else {
                    "-INF"
                };
                let mut members = vec![kind("number"), ("val".into(), JV::Str(t.into()))];
                if let Some(ids) = unit {
                    if !ids.is_empty() {
                        let i = ch.pick(ids.len());
                        members.push(("unit".into(), JV::Str(ids[ids.len() - 1 - i].clone())));
                    }
                }
                return JV::Obj(permute(members, ch));
            }
            match unit {
                None => {
                    // a unit-less number may also be written in its object form
                    if ch.pick(5) == 4 {
                        JV::Obj(permute(vec![kind("number"), ("val".into(), num_jv(f, ch))], ch))
                    } else {
                        num_jv(f, ch)
                    }
                }
                Some(ids) => {
                    let i = ch.pick(ids.len());
                    // default = the symbol (last id)
                    let id = &ids[ids.len() - 1 - i];
                    JV::Obj(permute(
                        vec![kind("number"), ("val".into(), num_jv(f, ch)), ("unit".into(), JV::Str(id.clone()))],
                        ch,
                    ))
                }
            }
        }
        RVal::Ref(id, dis) => {
            let mut m = vec![kind("ref"), ("val".into(), JV::Str(id.clone()))];
            if let Some(d) = dis {
                m.push(("dis".into(), JV::Str(d.clone())));
            }
            JV::Obj(permute(m, ch))
        }
        RVal::Symbol(s) => JV::Obj(permute(vec![kind("symbol"), ("val".into(), JV::Str(s.clone()))], ch)),
        RVal::Uri(s) => JV::Obj(permute(vec![kind("uri"), ("val".into(), JV::Str(s.clone()))], ch)),
        RVal::Date(y, m, d) => JV::Obj(permute(vec![kind("date"), ("val".into(), JV::Str(format!("{y:04}-{m:02}-{d:02}")))], ch)),
        RVal::Time(h, m, s, n) => {
            let (s, n) = if *n >= 1_000_000_000 { (*s + 1, *n - 1_000_000_000) } else { (*s, *n) };
            let n = &n;
            let mut t = format!("{h:02}:{m:02}:{s:02}");
            if *n != 0 {
                let mut digits = format!("{n:09}");
                while digits.ends_with('0') {
                    digits.pop();
                }
                t.push('.');
                t.push_str(&digits);
            }
            JV::Obj(permute(vec![kind("time"), ("val".into(), JV::Str(t))], ch))
        }
        RVal::DateTime(d) => {
            let mut m = vec![kind("dateTime"), ("val".into(), JV::Str(rfc3339(d)))];
            if d.city != "UTC" || ch.flag() {
                m.push(("tz".into(), JV::Str(d.city.clone())));
            }
            JV::Obj(permute(m, ch))
        }
        RVal::Coord(a, b) => JV::Obj(permute(
            vec![kind("coord"), ("lat".into(), num_jv(f64::from_bits(*a), ch)), ("lng".into(), num_jv(f64::from_bits(*b), ch))],
            ch,
        )),
        RVal::XStr(t, val) => JV::Obj(permute(vec![kind("xstr"), ("type".into(), JV::Str(t.clone())), ("val".into(), JV::Str(val.clone()))], ch)),
        RVal::List(l) => JV::Arr(l.iter().map(|e| write_jv(e, ch)).collect()),
        RVal::Dict(d) => {
            let mut m = dict_members(d, ch);
            if ch.pick(4) == 3 {
                m.push(kind("dict"));
            }
            JV::Obj(permute(m, ch))
        }
        RVal::Grid(g) => {
            let mut m = vec![kind("grid")];
            let meta_choice = ch.pick(3);
            match &g.meta {
                Some(meta) if !meta.is_empty() => {
                    let mut mm = dict_members(meta, ch);
                    if meta_choice == 2 {
                        mm.push(("ver".into(), JV::Str("3.0".into())));
                    }
                    m.push(("meta".into(), JV::Obj(permute(mm, ch))));
                }
                _ => match meta_choice {
                    0 => m.push(("meta".into(), JV::Obj(vec![("ver".into(), JV::Str("3.0".into()))]))),
                    1 => m.push(("meta".into(), JV::Obj(vec![]))),
                    _ => {}
                },
            }
            let cols: Vec<JV> = g
                .cols
                .iter()
                .map(|c| {
                    let mut cm = vec![("name".to_string(), JV::Str(c.name.clone()))];
                    match &c.meta {
                        Some(meta) if !meta.is_empty() => cm.push(("meta".into(), JV::Obj(permute(dict_members(meta, ch), ch)))),
                        _ => {
                            if ch.pick(4) == 3 {
                                cm.push(("meta".into(), JV::Obj(vec![])));
                            }
                        }
                    }
                    JV::Obj(permute(cm, ch))
                })
                .collect();
            m.push(("cols".into(), JV::Arr(cols)));
            let rows: Vec<JV> = g.rows.iter().map(|r| JV::Obj(permute(dict_members(r, ch), ch))).collect();
            m.push(("rows".into(), JV::Arr(rows)));
            JV::Obj(permute(m, ch))
        }
    }
}

pub fn write(v: &RVal, ch: &mut Ch) -> String {
    let j = write_jv(v, ch);
    let mut s = String::new();
    // one more choice: the JSON-level spelling (about a third of the non-canonical documents)
    let salt = if ch.pick(3) == 2 { 1 + ch.pick(250) as u32 * 7919 } else { 0 };
    to_text_spelled(&j, salt, &mut s);
    s
}

// ---------------------------------------------------------------------------------------------
// reader JV -> RVal (strict on member names and kinds)

fn get<'a>(o: &'a [(String, JV)], k: &str) -> Option<&'a JV> {
    o.iter().find(|(n, _)| n == k).map(|(_, v)| v)
}

fn only(o: &[(String, JV)], allowed: &[&str]) -> Result<(), String> {
    for (k, _) in o {
        if !allowed.contains(&k.as_str()) {
            return Err(format!("unexpected member {k:?} (allowed: {allowed:?})"));
        }
    }
    Ok(())
}

fn need_str(o: &[(String, JV)], k: &str) -> Result<String, String> {
    match get(o, k) {
        Some(JV::Str(s)) => Ok(s.clone()),
        other => Err(format!("member {k:?} must be a string, found {other:?}")),
    }
}

fn need_num(o: &[(String, JV)], k: &str) -> Result<f64, String> {
    match get(o, k) {
        Some(JV::Num(t)) => t.parse::<f64>().map_err(|e| format!("{t}: {e}")),
        other => Err(format!("member {k:?} must be a number, found {other:?}")),
    }
}

fn read_dict(o: &[(String, JV)]) -> Result<RDict, String> {
    let mut d = RDict::new();
    for (k, v) in o {
        if k == "_kind" {
            continue;
        }
        d.insert(k.clone(), read_jv(v)?);
    }
    Ok(d)
}

fn parse_rfc3339(s: &str) -> Result<(i64, u32, i32), String> {
    let b = s.as_bytes();
    let num = |a: usize, n: usize| -> Result<i64, String> {
        s.get(a..a + n).and_then(|t| if t.bytes().all(|c| c.is_ascii_digit()) { t.parse::<i64>().ok() } else { None }).ok_or_else(|| format!("bad RFC 3339 {s:?}"))
    };
    if b.len() < 20 || b[4] != b'-' || b[7] != b'-' || (b[10] != b'T' && b[10] != b't') || b[13] != b':' || b[16] != b':' {
        return Err(format!("bad RFC 3339 {s:?}"));
    }
    let (y, mo, d, h, mi, sec) = (num(0, 4)?, num(5, 2)?, num(8, 2)?, num(11, 2)?, num(14, 2)?, num(17, 2)?);
    let mut i = 19;
    let mut nanos: u64 = 0;
    if b.get(i) == Some(&b'.') {
        i += 1;
        let st = i;
        while i < b.len() && b[i].is_ascii_digit() {
            if i - st < 9 {
                nanos = nanos * 10 + (b[i] - b'0') as u64;
            }
            i += 1;
        }
        if i == st {
            return Err(format!("bad fraction {s:?}"));
        }
        for _ in (i - st).min(9)..9 {
            nanos *= 10;
        }
    }
    let off: i32 = match b.get(i) {
        Some(b'Z') | Some(b'z') if i + 1 == b.len() => 0,
        Some(c) if (*c == b'+' || *c == b'-') && i + 6 == b.len() && b[i + 3] == b':' => {
            let o = (num(i + 1, 2)? * 3600 + num(i + 4, 2)? * 60) as i32;
            if *c == b'-' {
                -o
            } else {
                o
            }
        }
        _ => return Err(format!("bad offset {s:?}")),
    };
    let local = days_from_civil(y as i32, mo as u32, d as u32) * 86_400 + h * 3600 + mi * 60 + sec;
    Ok((local - off as i64, nanos as u32, off))
}

pub fn read_jv(j: &JV) -> Result<RVal, String> {
    Ok(match j {
        JV::Null => RVal::Null,
        JV::Bool(b) => RVal::Bool(*b),
        JV::Str(s) => RVal::Str(s.clone()),
        JV::Num(t) => RVal::Num(t.parse::<f64>().map_err(|e| format!("{t}: {e}"))?.to_bits(), None),
        JV::Arr(a) => RVal::List(a.iter().map(read_jv).collect::<Result<_, _>>()?),
        JV::Obj(o) => {
            let kind = match get(o, "_kind") {
                None => return Ok(RVal::Dict(read_dict(o)?)),
                Some(JV::Str(k)) => k.as_str(),
                Some(other) => return Err(format!("_kind must be a string, found {other:?}")),
            };
            match kind {
                "dict" => RVal::Dict(read_dict(o)?),
                "marker" => {
                    only(o, &["_kind"])?;
                    RVal::Marker
                }
                "na" => {
                    only(o, &["_kind"])?;
                    RVal::Na
                }
                "remove" => {
                    only(o, &["_kind"])?;
                    RVal::Remove
                }
                "number" => {
                    only(o, &["_kind", "val", "unit"])?;
                    let f = match get(o, "val") {
                        Some(JV::Num(t)) => t.parse::<f64>().map_err(|e| format!("{t}: {e}"))?,
                        Some(JV::Str(s)) if s == "INF" => f64::INFINITY,
                        Some(JV::Str(s)) if s == "-INF" => f64::NEG_INFINITY,
                        Some(JV::Str(s)) if s == "NaN" => f64::NAN,
                        other => return Err(format!("number val {other:?}")),
                    };
                    let unit = match get(o, "unit") {
                        None => None,
                        Some(JV::Str(id)) => match units::lookup(id) {
                            Some(u) => Some(u.ids.clone()),
                            None => return Err(format!("unit {id:?} is not in the database")),
                        },
                        other => return Err(format!("unit {other:?}")),
                    };
                    RVal::Num(f.to_bits(), unit)
                }
                "ref" => {
                    only(o, &["_kind", "val", "dis"])?;
                    let dis = match get(o, "dis") {
                        None => None,
                        Some(JV::Str(s)) => Some(s.clone()),
                        other => return Err(format!("dis {other:?}")),
                    };
                    RVal::Ref(need_str(o, "val")?, dis)
                }
                "symbol" => {
                    only(o, &["_kind", "val"])?;
                    RVal::Symbol(need_str(o, "val")?)
                }
                "uri" => {
                    only(o, &["_kind", "val"])?;
                    RVal::Uri(need_str(o, "val")?)
                }
                "date" => {
                    only(o, &["_kind", "val"])?;
                    let s = need_str(o, "val")?;
                    let p: Vec<&str> = s.split('-').collect();
                    if p.len() != 3 || p[0].len() != 4 || p[1].len() != 2 || p[2].len() != 2 {
                        return Err(format!("date {s:?}"));
                    }
                    RVal::Date(
                        p[0].parse().map_err(|_| "year")?,
                        p[1].parse().map_err(|_| "month")?,
                        p[2].parse().map_err(|_| "day")?,
                    )
                }
                "time" => {
                    only(o, &["_kind", "val"])?;
                    let s = need_str(o, "val")?;
                    let (hms, frac) = match s.split_once('.') {
                        Some((a, b)) => (a, b),
                        None => (s.as_str(), ""),
                    };
                    let p: Vec<&str> = hms.split(':').collect();
                    if p.len() != 3 || p.iter().any(|x| x.len() != 2) || frac.len() > 9 || !frac.bytes().all(|c| c.is_ascii_digit()) {
                        return Err(format!("time {s:?}"));
                    }
                    let mut n: u32 = 0;
                    if !frac.is_empty() {
                        n = frac.parse().map_err(|_| "frac")?;
                        for _ in frac.len()..9 {
                            n *= 10;
                        }
                    }
                    let sec: u32 = p[2].parse().map_err(|_| "s")?;
                    let (sec, n) = if sec == 60 { (59, n + 1_000_000_000) } else { (sec, n) };
                    RVal::Time(p[0].parse().map_err(|_| "h")?, p[1].parse().map_err(|_| "m")?, sec, n)
                }
                "dateTime" => {
                    only(o, &["_kind", "val", "tz"])?;
                    let (secs, nanos, off) = parse_rfc3339(&need_str(o, "val")?)?;
                    let tz = match get(o, "tz") {
                        None => None,
                        Some(JV::Str(s)) => Some(s.clone()),
                        other => return Err(format!("tz {other:?}")),
                    };
                    match tz {
                        None if off == 0 => RVal::DateTime(RDt { secs, nanos, offset: 0, city: "UTC".into(), tz: "UTC".into() }),
                        None => return Err("dateTime with a non-zero offset needs a tz".into()),
                        Some(n) if n == "UTC" && off == 0 => RVal::DateTime(RDt { secs, nanos, offset: 0, city: "UTC".into(), tz: "UTC".into() }),
                        Some(n) => {
                            let cands: Vec<&zones::ZoneInfo> = zones::zones().iter().filter(|z| z.city == n || z.id == n).collect();
                            match cands.iter().find(|z| (zones::offset_at(&z.tz, secs) - off).abs() < 60) {
                                Some(z) => RVal::DateTime(RDt { secs, nanos, offset: zones::offset_at(&z.tz, secs), city: z.city.clone(), tz: z.id.to_string() }),
                                None => return Err(format!("offset {off} is not the offset of zone {n:?} at that instant (or unknown zone)")),
                            }
                        }
                    }
                }
                "coord" => {
                    only(o, &["_kind", "lat", "lng"])?;
                    RVal::Coord(need_num(o, "lat")?.to_bits(), need_num(o, "lng")?.to_bits())
                }
                "xstr" => {
                    only(o, &["_kind", "type", "val"])?;
                    RVal::XStr(need_str(o, "type")?, need_str(o, "val")?)
                }
                "grid" => {
                    only(o, &["_kind", "meta", "cols", "rows"])?;
                    let meta = match get(o, "meta") {
                        None => None,
                        Some(JV::Obj(m)) => {
                            let mut d = read_dict(m)?;
                            d.remove("ver");
                            if d.is_empty() {
                                None
                            } else {
                                Some(d)
                            }
                        }
                        other => return Err(format!("grid meta {other:?}")),
                    };
                    let cols = match get(o, "cols") {
                        Some(JV::Arr(a)) => a
                            .iter()
                            .map(|c| match c {
                                JV::Obj(co) => {
                                    only(co, &["name", "meta"])?;
                                    let meta = match get(co, "meta") {
                                        None => None,
                                        Some(JV::Obj(m)) => Some(read_dict(m)?),
                                        other => return Err(format!("col meta {other:?}")),
                                    };
                                    Ok(RCol { name: need_str(co, "name")?, meta })
                                }
                                other => Err(format!("column {other:?}")),
                            })
                            .collect::<Result<Vec<_>, String>>()?,
                        other => return Err(format!("grid cols {other:?}")),
                    };
                    let rows = match get(o, "rows") {
                        Some(JV::Arr(a)) => a
                            .iter()
                            .map(|r| match r {
                                JV::Obj(ro) => read_dict(ro),
                                other => Err(format!("row {other:?}")),
                            })
                            .collect::<Result<Vec<_>, String>>()?,
                        other => return Err(format!("grid rows {other:?}")),
                    };
                    RVal::Grid(RGrid { meta, cols, rows })
                }
                other => return Err(format!("unknown _kind {other:?}")),
            }
        }
    })
}

pub fn read(text: &str) -> Result<RVal, String> {
    read_jv(&parse_json(text)?)
}
