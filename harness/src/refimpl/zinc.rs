//! Reference Zinc writer and reader, written from the Project Haystack Zinc grammar
//! (DESIGN.md appendix A). Shares no code and no value type with libhaystack.

use super::units;
use super::zones;
use crate::rval::*;

// ---------------------------------------------------------------------------------------------
// spelling choices

/// A stream of generated choice bytes. Exhausted or zero bytes pick the canonical spelling,
/// so a case shrinks towards the plainest text.
pub struct Ch<'a> {
    data: &'a [u8],
    pos: usize,
    pub nondefault: u32,
    /// JSON number syntax has no '_' separators
    pub no_underscores: bool,
}

impl<'a> Ch<'a> {
    pub fn new(data: &'a [u8]) -> Ch<'a> {
        Ch {
            data,
            pos: 0,
            nondefault: 0,
            no_underscores: false,
        }
    }
    pub fn canonical() -> Ch<'static> {
        Ch::new(&[])
    }
    pub fn pick(&mut self, n: usize) -> usize {
        let b = self.data.get(self.pos).copied().unwrap_or(0);
        self.pos += 1;
        let r = (b as usize * n) >> 8;
        if r != 0 {
            self.nondefault += 1;
        }
        r
    }
    pub fn flag(&mut self) -> bool {
        self.pick(2) == 1
    }
}

fn ws(ch: &mut Ch, out: &mut String) {
    out.push_str(["", " ", "  ", "\t", " \t"][ch.pick(5)]);
}

/// at least one blank
fn ws1(ch: &mut Ch, out: &mut String) {
    out.push_str([" ", "  ", "\t", " \t "][ch.pick(4)]);
}

fn nl(ch: &mut Ch, out: &mut String) {
    out.push_str(["\n", "\r\n"][ch.pick(2)]);
}

// ---------------------------------------------------------------------------------------------
// writer

fn write_str_body(s: &str, ch: &mut Ch, out: &mut String) {
    for c in s.chars() {
        let cp = c as u32;
        let short = match c {
            '\u{8}' => Some("\\b"),
            '\u{c}' => Some("\\f"),
            '\n' => Some("\\n"),
            '\r' => Some("\\r"),
            '\t' => Some("\\t"),
            '"' => Some("\\\""),
            '\\' => Some("\\\\"),
            '$' => Some("\\$"),
            _ => None,
        };
        let must_escape = cp < 0x20 || c == '"' || c == '\\';
        let can_u = cp <= 0xffff && !(0xd800..=0xdfff).contains(&cp);
        // options: 0 = preferred (short escape if any, else literal), 1 = \uXXXX, 2 = literal when legal
        let opt = ch.pick(3);
        if let Some(sh) = short {
            match opt {
                1 if can_u => out.push_str(&format!("\\u{:04x}", cp)),
                2 if !must_escape => out.push(c),
                _ => out.push_str(sh),
            }
        } else if must_escape {
            out.push_str(&format!("\\u{:04x}", cp));
        } else {
            match opt {
                1 if can_u => {
                    if ch.flag() {
                        out.push_str(&format!("\\u{:04X}", cp))
                    } else {
                        out.push_str(&format!("\\u{:04x}", cp))
                    }
                }
                _ => out.push(c),
            }
        }
    }
}

fn write_str(s: &str, ch: &mut Ch, out: &mut String) {
    out.push('"');
    write_str_body(s, ch, out);
    out.push('"');
}

fn write_uri(s: &str, ch: &mut Ch, out: &mut String) {
    out.push('`');
    for c in s.chars() {
        let cp = c as u32;
        match c {
            '`' => out.push_str("\\`"),
            '\\' => out.push_str("\\\\"),
            _ => {
                let can_u = cp <= 0xffff && !(0xd800..=0xdfff).contains(&cp);
                if cp > 0x7e && can_u && ch.flag() {
                    out.push_str(&format!("\\u{:04x}", cp));
                } else {
                    out.push(c);
                }
            }
        }
    }
    out.push('`');
}

/// shortest round-trip decimal digits of a finite f64: (negative, digits, exponent of first digit)
fn decompose(f: f64) -> (bool, String, i32) {
    let s = format!("{:e}", f.abs());
    let (mant, exp) = s.split_once('e').unwrap();
    let digits: String = mant.chars().filter(|c| *c != '.').collect();
    (f.is_sign_negative(), digits, exp.parse().unwrap())
}

fn underscores(digits: &str, ch: &mut Ch) -> String {
    // '_' may follow any digit of a digit run (not the first position)
    let mut out = String::new();
    for (i, c) in digits.chars().enumerate() {
        if i > 0 && !ch.no_underscores && ch.pick(6) == 5 {
            out.push('_');
        }
        out.push(c);
    }
    out
}

/// All spellings denote exactly `f` (verified with Rust's correctly rounded parser before use).
pub fn write_number_text(f: f64, ch: &mut Ch) -> String {
    if f.is_nan() {
        return "NaN".into();
    }
    if f.is_infinite() {
        return if f > 0.0 { "INF".into() } else { "-INF".into() };
    }
    let canonical = format!("{f}");
    let style = ch.pick(6);
    if style == 0 {
        return canonical;
    }
    let (neg, mut digits, exp) = decompose(f);
    // optionally lengthen the mantissa beyond 17 significant digits without changing the value
    let lengthen = ch.pick(4);
    match lengthen {
        1 => digits.push_str("000"),
        2 => {
            while digits.len() < 19 {
                digits.push('0');
            }
            digits.push_str("0001")
        }
        3 => {
            // one unit below in the last place, padded with nines: may round back to the same double
            while digits.len() < 17 {
                digits.push('0');
            }
            digits.push_str("000000")
        }
        _ => {}
    }
    let sign = if neg { "-" } else { "" };
    let text = match style {
        // plain decimal notation
        1 => {
            if !(-30..=30).contains(&exp) {
                canonical.clone()
            } else {
                let n = digits.len() as i32;
                if exp >= n - 1 {
                    let mut int = digits.clone();
                    for _ in 0..(exp - (n - 1)) {
                        int.push('0');
                    }
                    if ch.flag() {
                        format!("{sign}{}.0", underscores(&int, ch))
                    } else {
                        format!("{sign}{}", underscores(&int, ch))
                    }
                } else if exp >= 0 {
                    let (a, b) = digits.split_at((exp + 1) as usize);
                    format!("{sign}{}.{}", underscores(a, ch), underscores(b, ch))
                } else {
                    let mut frac = String::new();
                    for _ in 0..(-exp - 1) {
                        frac.push('0');
                    }
                    frac.push_str(&digits);
                    format!("{sign}0.{}", underscores(&frac, ch))
                }
            }
        }
        // d.ddd e x
        2 | 3 => {
            let (a, b) = digits.split_at(1);
            let e = if style == 2 { 'e' } else { 'E' };
            let esign = if exp < 0 {
                "-"
            } else if ch.flag() {
                "+"
            } else {
                ""
            };
            let expdigits = if ch.flag() {
                format!("0{}", exp.abs())
            } else {
                format!("{}", exp.abs())
            };
            // <exp> := ("e"|"E") ["+"|"-"] <digits>, and <digits> admits '_' after its first digit
            let expdigits = underscores(&expdigits, ch);
            if b.is_empty() {
                format!("{sign}{a}{e}{esign}{expdigits}")
            } else {
                format!("{sign}{a}.{}{e}{esign}{expdigits}", underscores(b, ch))
            }
        }
        // integer mantissa with exponent
        4 => {
            let e10 = exp - (digits.len() as i32 - 1);
            let esign = if e10 < 0 {
                "-"
            } else if ch.flag() {
                "+"
            } else {
                ""
            };
            format!("{sign}{}e{esign}{}", underscores(&digits, ch), underscores(&e10.abs().to_string(), ch))
        }
        // shifted point
        _ => {
            if digits.len() >= 3 {
                let (a, b) = digits.split_at(2);
                let e10 = exp - 1;
                let esign = if e10 < 0 { "-" } else { "" };
                format!("{sign}{}.{}E{esign}{}", a, underscores(b, ch), underscores(&e10.abs().to_string(), ch))
            } else {
                canonical.clone()
            }
        }
    };
    // the oracle for "denotes": Rust's correctly rounded parse of the literal without '_'
    let cleaned: String = text.chars().filter(|c| *c != '_').collect();
    match cleaned.parse::<f64>() {
        Ok(p) if p.to_bits() == f.to_bits() || (p == f && f == 0.0) => text,
        _ => canonical,
    }
}

fn write_number(bits: u64, unit: &Option<Vec<String>>, ch: &mut Ch, out: &mut String) {
    let f = f64::from_bits(bits);
    out.push_str(&write_number_text(f, ch));
    if let Some(ids) = unit {
        // any identifier of the unit that the number grammar can spell
        let usable: Vec<&String> = ids.iter().rev().filter(|i| units::zinc_spellable(i)).collect();
        if usable.is_empty() {
            out.push_str(ids.last().unwrap());
        } else {
            let i = ch.pick(usable.len());
            out.push_str(usable[i]);
        }
    }
}

pub fn civil(secs_local: i64) -> (i32, u32, u32, u32, u32, u32) {
    // days since 1970-01-01 -> y/m/d (proleptic Gregorian), Howard Hinnant's algorithm
    let days = secs_local.div_euclid(86_400);
    let rem = secs_local.rem_euclid(86_400);
    let z = days + 719_468;
    let era = z.div_euclid(146_097);
    let doe = z.rem_euclid(146_097);
    let yoe = (doe - doe / 1460 + doe / 36_524 - doe / 146_096) / 365;
    let y = yoe + era * 400;
    let doy = doe - (365 * yoe + yoe / 4 - yoe / 100);
    let mp = (5 * doy + 2) / 153;
    let d = (doy - (153 * mp + 2) / 5 + 1) as u32;
    let m = if mp < 10 { mp + 3 } else { mp - 9 } as u32;
    let y = if m <= 2 { y + 1 } else { y } as i32;
    (y, m, d, (rem / 3600) as u32, ((rem % 3600) / 60) as u32, (rem % 60) as u32)
}

pub fn days_from_civil(y: i32, m: u32, d: u32) -> i64 {
    let y = if m <= 2 { y as i64 - 1 } else { y as i64 };
    let era = y.div_euclid(400);
    let yoe = y.rem_euclid(400);
    let mp = if m > 2 { m as i64 - 3 } else { m as i64 + 9 };
    let doy = (153 * mp + 2) / 5 + d as i64 - 1;
    let doe = yoe * 365 + yoe / 4 - yoe / 100 + doy;
    era * 146_097 + doe - 719_468
}

fn write_frac(nanos: u32, ch: &mut Ch, out: &mut String) {
    if nanos == 0 {
        if ch.pick(8) == 7 {
            out.push_str(".000");
        }
        return;
    }
    let mut digits = format!("{nanos:09}");
    while digits.ends_with('0') {
        digits.pop();
    }
    // pad to 3 / 6 / 9 digits or keep minimal
    let target = [0usize, 3, 6, 9][ch.pick(4)];
    while digits.len() < target {
        digits.push('0');
    }
    out.push('.');
    out.push_str(&digits);
}

fn write_datetime(d: &RDt, ch: &mut Ch, out: &mut String) {
    let written = zones::written_offset(d.offset);
    let local = d.secs + written as i64;
    let (y, mo, da, h, mi, s) = civil(local);
    out.push_str(&format!("{y:04}-{mo:02}-{da:02}T{h:02}:{mi:02}:{s:02}"));
    write_frac(d.nanos, ch, out);
    if d.city == "UTC" {
        out.push('Z');
        if ch.flag() {
            out.push_str(" UTC");
        }
    } else {
        let o = written;
        let sign = if o < 0 { '-' } else { '+' };
        let a = o.abs();
        if o == 0 {
            // an offset of zero in a named zone: "Z London" and "+00:00 London" are both legal
            if ch.flag() {
                out.push_str(&format!("+00:00 {}", d.city));
            } else {
                out.push_str(&format!("Z {}", d.city));
            }
        } else {
            out.push_str(&format!("{sign}{:02}:{:02} {}", a / 3600, (a % 3600) / 60, d.city));
        }
    }
}

fn write_tags(d: &RDict, ch: &mut Ch, out: &mut String, commas: bool) {
    let mut first = true;
    for (k, v) in d {
        if !first {
            if commas && ch.flag() {
                ws(ch, out);
                out.push(',');
                ws(ch, out);
            } else {
                ws1(ch, out);
            }
        }
        first = false;
        out.push_str(k);
        match v {
            RVal::Marker if !ch.flag() => {}
            _ => {
                out.push(':');
                if ch.pick(4) == 3 {
                    out.push(' ');
                }
                write_value(v, ch, out, false);
            }
        }
    }
}

fn write_grid(g: &RGrid, ch: &mut Ch, out: &mut String, nested: bool) {
    if nested {
        out.push_str("<<");
        nl(ch, out);
    }
    out.push_str("ver:\"3.0\"");
    if let Some(m) = &g.meta {
        if !m.is_empty() {
            ws1(ch, out);
            write_tags(m, ch, out, false);
        }
    }
    nl(ch, out);
    if g.cols.is_empty() {
        out.push_str("empty");
    }
    for (i, c) in g.cols.iter().enumerate() {
        if i > 0 {
            ws(ch, out);
            out.push(',');
            ws(ch, out);
        }
        out.push_str(&c.name);
        if let Some(m) = &c.meta {
            if !m.is_empty() {
                ws1(ch, out);
                write_tags(m, ch, out, false);
            }
        }
    }
    nl(ch, out);
    for r in &g.rows {
        for (i, c) in g.cols.iter().enumerate() {
            if i > 0 {
                ws(ch, out);
                out.push(',');
                ws(ch, out);
            }
            match r.get(&c.name) {
                None => {
                    // an empty line is not a row: a lone missing cell is spelled N
                    if g.cols.len() == 1 || ch.pick(6) == 5 {
                        out.push('N');
                    }
                }
                Some(v) => write_value(v, ch, out, false),
            }
        }
        nl(ch, out);
    }
    if nested {
        out.push_str(">>");
    } else if ch.pick(4) != 3 {
        nl(ch, out);
    }
}

pub fn write_value(v: &RVal, ch: &mut Ch, out: &mut String, top: bool) {
    match v {
        RVal::Null => out.push('N'),
        RVal::Marker => out.push('M'),
        RVal::Remove => out.push('R'),
        RVal::Na => out.push_str("NA"),
        RVal::Bool(b) => out.push(if *b { 'T' } else { 'F' }),
        RVal::Num(bits, unit) => write_number(*bits, unit, ch, out),
        RVal::Str(s) => write_str(s, ch, out),
        RVal::Uri(s) => write_uri(s, ch, out),
        RVal::Ref(id, dis) => {
            out.push('@');
            out.push_str(id);
            if let Some(d) = dis {
                out.push(' ');
                write_str(d, ch, out);
            }
        }
        RVal::Symbol(s) => {
            out.push('^');
            out.push_str(s);
        }
        RVal::Date(y, m, d) => out.push_str(&format!("{y:04}-{m:02}-{d:02}")),
        RVal::Time(h, m, s, n) => {
            let (s, n) = if *n >= 1_000_000_000 { (*s + 1, *n - 1_000_000_000) } else { (*s, *n) };
            out.push_str(&format!("{h:02}:{m:02}:{s:02}"));
            write_frac(n, ch, out);
        }
        RVal::DateTime(d) => write_datetime(d, ch, out),
        RVal::Coord(a, b) => {
            out.push_str("C(");
            ws(ch, out);
            out.push_str(&format!("{}", f64::from_bits(*a)));
            ws(ch, out);
            out.push(',');
            ws(ch, out);
            out.push_str(&format!("{}", f64::from_bits(*b)));
            ws(ch, out);
            out.push(')');
        }
        RVal::XStr(t, val) => {
            out.push_str(t);
            out.push('(');
            ws(ch, out);
            write_str(val, ch, out);
            ws(ch, out);
            out.push(')');
        }
        RVal::List(l) => {
            out.push('[');
            ws(ch, out);
            for (i, e) in l.iter().enumerate() {
                if i > 0 {
                    ws(ch, out);
                    out.push(',');
                    ws(ch, out);
                }
                write_value(e, ch, out, false);
            }
            if !l.is_empty() && ch.pick(4) == 3 {
                ws(ch, out);
                out.push(',');
            }
            ws(ch, out);
            out.push(']');
        }
        RVal::Dict(d) => {
            out.push('{');
            ws(ch, out);
            write_tags(d, ch, out, true);
            ws(ch, out);
            out.push('}');
        }
        RVal::Grid(g) => write_grid(g, ch, out, !top),
    }
}

pub fn write(v: &RVal, ch: &mut Ch) -> String {
    let mut out = String::new();
    write_value(v, ch, &mut out, true);
    out
}

// ---------------------------------------------------------------------------------------------
// reader

pub struct Reader<'a> {
    s: &'a [char],
    i: usize,
}

type R<T> = Result<T, String>;

impl<'a> Reader<'a> {
    fn peek(&self) -> Option<char> {
        self.s.get(self.i).copied()
    }
    fn peek_at(&self, k: usize) -> Option<char> {
        self.s.get(self.i + k).copied()
    }
    fn eof(&self) -> bool {
        self.i >= self.s.len()
    }
    fn err<T>(&self, msg: &str) -> R<T> {
        let ctx: String = self.s[self.i.saturating_sub(10)..(self.i + 10).min(self.s.len())].iter().collect();
        Err(format!("{msg} at {} near {:?}", self.i, ctx))
    }
    fn expect(&mut self, c: char) -> R<()> {
        if self.peek() == Some(c) {
            self.i += 1;
            Ok(())
        } else {
            self.err(&format!("expected {c:?}"))
        }
    }
    fn ws(&mut self) -> usize {
        let st = self.i;
        while matches!(self.peek(), Some(' ') | Some('\t')) {
            self.i += 1;
        }
        self.i - st
    }
    fn nl(&mut self) -> R<()> {
        match self.peek() {
            Some('\n') => {
                self.i += 1;
                Ok(())
            }
            Some('\r') => {
                self.i += 1;
                if self.peek() == Some('\n') {
                    self.i += 1;
                }
                Ok(())
            }
            _ => self.err("expected newline"),
        }
    }
    fn at_nl(&self) -> bool {
        matches!(self.peek(), Some('\n') | Some('\r'))
    }
    fn id(&mut self) -> R<String> {
        let st = self.i;
        match self.peek() {
            Some(c) if c.is_ascii_lowercase() => self.i += 1,
            _ => return self.err("expected identifier"),
        }
        while matches!(self.peek(), Some(c) if c.is_ascii_alphanumeric() || c == '_') {
            self.i += 1;
        }
        Ok(self.s[st..self.i].iter().collect())
    }
    fn hex4(&mut self) -> R<char> {
        let mut v = 0u32;
        for _ in 0..4 {
            match self.peek().and_then(|c| c.to_digit(16)) {
                Some(d) => {
                    v = v * 16 + d;
                    self.i += 1;
                }
                None => return self.err("expected 4 hex digits"),
            }
        }
        char::from_u32(v).ok_or_else(|| format!("\\u{v:04x} is not a scalar value"))
    }
    fn str(&mut self) -> R<String> {
        self.expect('"')?;
        let mut out = String::new();
        loop {
            match self.peek() {
                None => return self.err("unterminated string"),
                Some('"') => {
                    self.i += 1;
                    return Ok(out);
                }
                Some('\\') => {
                    self.i += 1;
                    let c = self.peek();
                    self.i += 1;
                    match c {
                        Some('b') => out.push('\u{8}'),
                        Some('f') => out.push('\u{c}'),
                        Some('n') => out.push('\n'),
                        Some('r') => out.push('\r'),
                        Some('t') => out.push('\t'),
                        Some('"') => out.push('"'),
                        Some('\\') => out.push('\\'),
                        Some('$') => out.push('$'),
                        Some('u') => out.push(self.hex4()?),
                        _ => return self.err("illegal string escape"),
                    }
                }
                Some(c) if (c as u32) < 0x20 => return self.err("raw control character in string"),
                Some(c) => {
                    out.push(c);
                    self.i += 1;
                }
            }
        }
    }
    fn uri(&mut self) -> R<String> {
        self.expect('`')?;
        let mut out = String::new();
        loop {
            match self.peek() {
                None => return self.err("unterminated uri"),
                Some('`') => {
                    self.i += 1;
                    return Ok(out);
                }
                Some('\\') => {
                    self.i += 1;
                    let c = self.peek();
                    self.i += 1;
                    match c {
                        Some('`') => out.push('`'),
                        Some('\\') => out.push('\\'),
                        Some('u') => out.push(self.hex4()?),
                        _ => return self.err("uri escape outside the unambiguous set"),
                    }
                }
                Some(c) if (c as u32) < 0x20 => return self.err("control character in uri"),
                Some(c) => {
                    out.push(c);
                    self.i += 1;
                }
            }
        }
    }
    fn digits(&mut self) -> R<String> {
        let mut out = String::new();
        match self.peek() {
            Some(c) if c.is_ascii_digit() => {
                out.push(c);
                self.i += 1;
            }
            _ => return self.err("expected digit"),
        }
        while let Some(c) = self.peek() {
            if c.is_ascii_digit() {
                out.push(c);
                self.i += 1;
            } else if c == '_' {
                self.i += 1;
            } else {
                break;
            }
        }
        Ok(out)
    }
    fn fixed_digits(&mut self, n: usize) -> R<u32> {
        let mut v = 0;
        for _ in 0..n {
            match self.peek().and_then(|c| c.to_digit(10)) {
                Some(d) => {
                    v = v * 10 + d;
                    self.i += 1;
                }
                None => return self.err("expected digit"),
            }
        }
        Ok(v)
    }
    fn looks_like_date(&self) -> bool {
        (0..4).all(|k| self.peek_at(k).map_or(false, |c| c.is_ascii_digit()))
            && self.peek_at(4) == Some('-')
            && self.peek_at(5).map_or(false, |c| c.is_ascii_digit())
            && self.peek_at(6).map_or(false, |c| c.is_ascii_digit())
            && self.peek_at(7) == Some('-')
    }
    fn looks_like_time(&self) -> bool {
        (0..2).all(|k| self.peek_at(k).map_or(false, |c| c.is_ascii_digit())) && self.peek_at(2) == Some(':')
    }
    fn time_fields(&mut self) -> R<(u32, u32, u32, u32)> {
        let h = self.fixed_digits(2)?;
        self.expect(':')?;
        let m = self.fixed_digits(2)?;
        self.expect(':')?;
        let s = self.fixed_digits(2)?;
        let mut nanos = 0u32;
        if self.peek() == Some('.') {
            self.i += 1;
            let mut n = 0usize;
            let mut v: u64 = 0;
            while let Some(d) = self.peek().and_then(|c| c.to_digit(10)) {
                if n < 9 {
                    v = v * 10 + d as u64;
                    n += 1;
                } else if d != 0 {
                    return self.err("more than nanosecond precision");
                }
                self.i += 1;
            }
            if n == 0 {
                return self.err("expected fraction digits");
            }
            for _ in n..9 {
                v *= 10;
            }
            nanos = v as u32;
        }
        if h > 23 || m > 59 || s > 60 {
            return self.err("time out of range");
        }
        Ok((h, m, s, nanos))
    }
    fn date_or_datetime(&mut self) -> R<RVal> {
        let y = self.fixed_digits(4)? as i32;
        self.expect('-')?;
        let mo = self.fixed_digits(2)?;
        self.expect('-')?;
        let d = self.fixed_digits(2)?;
        if mo < 1 || mo > 12 || d < 1 || d > 31 {
            return self.err("date out of range");
        }
        if self.peek() != Some('T') {
            return Ok(RVal::Date(y, mo, d));
        }
        self.i += 1;
        let (h, mi, s, nanos) = self.time_fields()?;
        if s > 59 {
            return self.err("time out of range");
        }
        let local = days_from_civil(y, mo, d) * 86_400 + (h * 3600 + mi * 60 + s) as i64;
        // zone
        let (offset, name): (i32, Option<String>) = match self.peek() {
            Some('Z') => {
                self.i += 1;
                if self.peek() == Some(' ') && self.peek_at(1).map_or(false, |c| c.is_ascii_uppercase()) {
                    self.i += 1;
                    (0, Some(self.tzname()?))
                } else {
                    (0, None)
                }
            }
            Some(c) if c == '+' || c == '-' => {
                self.i += 1;
                let oh = self.fixed_digits(2)?;
                self.expect(':')?;
                let om = self.fixed_digits(2)?;
                let o = (oh * 3600 + om * 60) as i32;
                self.expect(' ')?;
                (if c == '-' { -o } else { o }, Some(self.tzname()?))
            }
            _ => return self.err("expected zone"),
        };
        let secs = local - offset as i64;
        match name {
            None => Ok(RVal::DateTime(RDt {
                secs,
                nanos,
                offset: 0,
                city: "UTC".into(),
                tz: "UTC".into(),
            })),
            Some(n) if n == "UTC" && offset == 0 => Ok(RVal::DateTime(RDt {
                secs,
                nanos,
                offset: 0,
                city: "UTC".into(),
                tz: "UTC".into(),
            })),
            Some(n) => {
                // a Haystack zone name is the city of an IANA zone whose rules give this offset at this instant
                let cands: Vec<&zones::ZoneInfo> = zones::zones().iter().filter(|z| z.city == n || z.id == n).collect();
                if cands.is_empty() {
                    return self.err(&format!("unknown zone {n}"));
                }
                // (the written offset has whole minutes; the zone's own offset may carry seconds before standard time)
                match cands.iter().find(|z| (zones::offset_at(&z.tz, secs) - offset).abs() < 60) {
                    Some(z) => Ok(RVal::DateTime(RDt {
                        secs,
                        nanos,
                        offset: zones::offset_at(&z.tz, secs),
                        city: z.city.clone(),
                        tz: z.id.to_string(),
                    })),
                    None => self.err(&format!("offset {offset} is not the offset of zone {n} at that instant")),
                }
            }
        }
    }
    fn tzname(&mut self) -> R<String> {
        let st = self.i;
        match self.peek() {
            Some(c) if c.is_ascii_uppercase() => self.i += 1,
            _ => return self.err("expected zone name"),
        }
        while matches!(self.peek(), Some(c) if c.is_ascii_alphanumeric() || "_/+-".contains(c)) {
            self.i += 1;
        }
        Ok(self.s[st..self.i].iter().collect())
    }
    fn number(&mut self) -> R<RVal> {
        let mut text = String::new();
        if self.peek() == Some('-') {
            text.push('-');
            self.i += 1;
            if self.peek() == Some('I') {
                for c in "INF".chars() {
                    self.expect(c)?;
                }
                return Ok(RVal::Num(f64::NEG_INFINITY.to_bits(), None));
            }
        }
        text.push_str(&self.digits()?);
        if self.peek() == Some('.') && self.peek_at(1).map_or(false, |c| c.is_ascii_digit()) {
            self.i += 1;
            text.push('.');
            text.push_str(&self.digits()?);
        }
        if matches!(self.peek(), Some('e') | Some('E')) {
            let k = if matches!(self.peek_at(1), Some('+') | Some('-')) { 2 } else { 1 };
            if self.peek_at(k).map_or(false, |c| c.is_ascii_digit()) {
                self.i += 1;
                text.push('e');
                if k == 2 {
                    text.push(self.peek().unwrap());
                    self.i += 1;
                }
                text.push_str(&self.digits()?);
            }
        }
        let f: f64 = text.parse().map_err(|e| format!("number {text:?}: {e}"))?;
        // unit
        let st = self.i;
        while matches!(self.peek(), Some(c) if c.is_ascii_alphabetic() || "%_/$".contains(c) || (c as u32) > 0x80) {
            self.i += 1;
        }
        if self.i > st {
            let id: String = self.s[st..self.i].iter().collect();
            match units::lookup(&id) {
                Some(u) => Ok(RVal::Num(f.to_bits(), Some(u.ids.clone()))),
                None => self.err(&format!("'{id}' is not an identifier of a database unit")),
            }
        } else {
            Ok(RVal::Num(f.to_bits(), None))
        }
    }
    fn dec(&mut self) -> R<f64> {
        let mut text = String::new();
        if self.peek() == Some('-') {
            text.push('-');
            self.i += 1;
        }
        text.push_str(&self.digits()?);
        if self.peek() == Some('.') {
            self.i += 1;
            text.push('.');
            text.push_str(&self.digits()?);
        }
        text.parse().map_err(|e| format!("decimal {text:?}: {e}"))
    }
    fn tags(&mut self, closer: Option<char>, commas: bool) -> R<RDict> {
        // tag ( (ws+ | ws* , ws*) tag )*   — stops at newline / closer
        let mut d = RDict::new();
        loop {
            if self.eof() || self.at_nl() || self.peek() == closer || self.peek() == Some(',') && !commas {
                break;
            }
            let k = self.id()?;
            if self.peek() == Some(':') {
                self.i += 1;
                self.ws();
                let v = self.value(false)?;
                d.insert(k, v);
            } else {
                d.insert(k, RVal::Marker);
            }
            let n = self.ws();
            if commas && self.peek() == Some(',') {
                self.i += 1;
                self.ws();
                continue;
            }
            if n == 0 {
                break;
            }
        }
        Ok(d)
    }
    fn grid(&mut self, nested: bool) -> R<RGrid> {
        if nested {
            self.expect('<')?;
            self.expect('<')?;
            self.nl()?;
        }
        for c in "ver:".chars() {
            self.expect(c)?;
        }
        let _ver = self.str()?;
        let n = self.ws();
        let meta = if n > 0 && !self.at_nl() { self.tags(None, false)? } else { RDict::new() };
        self.nl()?;
        let mut cols = vec![];
        loop {
            let name = self.id()?;
            let n = self.ws();
            let meta = if n > 0 && !self.at_nl() && self.peek() != Some(',') {
                let m = self.tags(None, false)?;
                Some(m)
            } else {
                None
            };
            cols.push(RCol { name, meta });
            self.ws();
            if self.peek() == Some(',') {
                self.i += 1;
                self.ws();
                continue;
            }
            break;
        }
        self.nl()?;
        // the library's "empty" grid: a single column named empty, no rows
        let mut rows = vec![];
        loop {
            if self.eof() {
                break;
            }
            if nested && self.peek() == Some('>') {
                break;
            }
            if self.at_nl() {
                // blank line ends a top-level grid
                if nested {
                    return self.err("blank line inside nested grid");
                }
                self.nl()?;
                if !self.eof() {
                    return self.err("content after the blank line that ends the grid");
                }
                break;
            }
            let mut row = RDict::new();
            for (ci, c) in cols.iter().enumerate() {
                if ci > 0 {
                    self.ws();
                    self.expect(',')?;
                }
                self.ws();
                if self.peek() == Some(',') || self.at_nl() || self.eof() {
                    continue; // empty cell
                }
                let v = self.value(false)?;
                row.insert(c.name.clone(), v);
                self.ws();
            }
            self.nl()?;
            rows.push(row);
        }
        if nested {
            self.expect('>')?;
            self.expect('>')?;
        }
        Ok(RGrid {
            meta: if meta.is_empty() { None } else { Some(meta) },
            cols,
            rows,
        })
    }
    pub fn value(&mut self, top: bool) -> R<RVal> {
        match self.peek() {
            None => self.err("unexpected end"),
            Some('"') => Ok(RVal::Str(self.str()?)),
            Some('`') => Ok(RVal::Uri(self.uri()?)),
            Some('@') => {
                self.i += 1;
                let st = self.i;
                while matches!(self.peek(), Some(c) if c.is_ascii_alphanumeric() || "_:-.~".contains(c)) {
                    self.i += 1;
                }
                if self.i == st {
                    return self.err("empty ref");
                }
                let id: String = self.s[st..self.i].iter().collect();
                if self.peek() == Some(' ') && self.peek_at(1) == Some('"') {
                    self.i += 1;
                    let dis = self.str()?;
                    Ok(RVal::Ref(id, Some(dis)))
                } else {
                    Ok(RVal::Ref(id, None))
                }
            }
            Some('^') => {
                self.i += 1;
                let st = self.i;
                match self.peek() {
                    Some(c) if c.is_ascii_lowercase() => {}
                    _ => return self.err("symbol must start with a lower case letter"),
                }
                while matches!(self.peek(), Some(c) if c.is_ascii_alphanumeric() || "_:-.~".contains(c)) {
                    self.i += 1;
                }
                Ok(RVal::Symbol(self.s[st..self.i].iter().collect()))
            }
            Some('[') => {
                self.i += 1;
                let mut l = vec![];
                self.ws();
                loop {
                    if self.peek() == Some(']') {
                        self.i += 1;
                        break;
                    }
                    l.push(self.value(false)?);
                    self.ws();
                    match self.peek() {
                        Some(',') => {
                            self.i += 1;
                            self.ws();
                        }
                        Some(']') => {}
                        _ => return self.err("expected ',' or ']'"),
                    }
                }
                Ok(RVal::List(l))
            }
            Some('{') => {
                self.i += 1;
                self.ws();
                let d = self.tags(Some('}'), true)?;
                self.ws();
                self.expect('}')?;
                Ok(RVal::Dict(d))
            }
            Some('<') => Ok(RVal::Grid(self.grid(true)?)),
            Some(c) if c.is_ascii_digit() => {
                if self.looks_like_date() {
                    self.date_or_datetime()
                } else if self.looks_like_time() {
                    let (h, m, s, n) = self.time_fields()?;
                    Ok(if s == 60 { RVal::Time(h, m, 59, n + 1_000_000_000) } else { RVal::Time(h, m, s, n) })
                } else {
                    self.number()
                }
            }
            Some('-') => self.number(),
            Some(c) if c.is_ascii_uppercase() => {
                let st = self.i;
                while matches!(self.peek(), Some(c) if c.is_ascii_alphanumeric() || c == '_') {
                    self.i += 1;
                }
                let word: String = self.s[st..self.i].iter().collect();
                if self.peek() == Some('(') {
                    self.i += 1;
                    self.ws();
                    if word == "C" {
                        let lat = self.dec()?;
                        self.ws();
                        self.expect(',')?;
                        self.ws();
                        let lng = self.dec()?;
                        self.ws();
                        self.expect(')')?;
                        return Ok(RVal::Coord(lat.to_bits(), lng.to_bits()));
                    }
                    let v = self.str()?;
                    self.ws();
                    self.expect(')')?;
                    return Ok(RVal::XStr(word, v));
                }
                match word.as_str() {
                    "N" => Ok(RVal::Null),
                    "M" => Ok(RVal::Marker),
                    "R" => Ok(RVal::Remove),
                    "NA" => Ok(RVal::Na),
                    "T" => Ok(RVal::Bool(true)),
                    "F" => Ok(RVal::Bool(false)),
                    "NaN" => Ok(RVal::Num(f64::NAN.to_bits(), None)),
                    "INF" => Ok(RVal::Num(f64::INFINITY.to_bits(), None)),
                    _ => self.err(&format!("unknown keyword {word}")),
                }
            }
            Some('v') if top => Ok(RVal::Grid(self.grid(false)?)),
            Some(c) => self.err(&format!("unexpected character {c:?}")),
        }
    }
}

/// Parse a complete Zinc document (a value, or a bare grid).
pub fn read(text: &str) -> Result<RVal, String> {
    let chars: Vec<char> = text.chars().collect();
    let mut r = Reader { s: &chars, i: 0 };
    let v = r.value(true)?;
    if !r.eof() {
        return r.err("trailing characters");
    }
    Ok(v)
}
