//! Zone oracle: chrono_tz queried directly. Transitions located by daily sampling + bisection.

use chrono::{Offset, TimeZone, Utc};
use chrono_tz::{Tz, TZ_VARIANTS};
use std::collections::BTreeMap;
use std::sync::OnceLock;

pub const T_MIN: i64 = 315_532_800; // 1980-01-01T00:00:00Z
pub const T_MAX: i64 = 2_840_140_800; // 2060-01-01T00:00:00Z
/// wide range for well-formed timestamps: 0001-01-02 .. 9998-12-30 (the local date stays in 0000-9999 in every zone)
pub const T_WIDE_MIN: i64 = -62_135_510_400;
pub const T_WIDE_MAX: i64 = 253_370_592_000;

/// RFC 3339 offsets have no seconds: a local-mean-time offset (+03:21:04) is written rounded to minutes,
/// and the local time is written relative to that written offset (so the text denotes the exact instant)
pub fn written_offset(o: i32) -> i32 {
    (o as f64 / 60.0).round() as i32 * 60
}

pub struct ZoneInfo {
    pub tz: Tz,
    pub id: &'static str,
    pub city: String,
    /// every zone sharing this city name has the same offsets at all probe instants
    pub in_scope: bool,
    /// no other zone shares this city name (needed outside [T_MIN, T_MAX], where same-named zones were not compared)
    pub unique: bool,
    /// first second of each new offset, within [T_MIN, T_MAX]
    pub transitions: Vec<i64>,
}

pub fn offset_at(tz: &Tz, secs: i64) -> i32 {
    let naive = chrono::DateTime::<Utc>::from_timestamp(secs, 0).expect("instant").naive_utc();
    tz.offset_from_utc_datetime(&naive).fix().local_minus_utc()
}

pub fn city_of(id: &str) -> String {
    match id.find('/') {
        Some(i) => id[i + 1..].to_string(),
        None => id.to_string(),
    }
}

fn find_transitions(tz: &Tz) -> Vec<i64> {
    let mut out = vec![];
    let day = 86_400;
    let mut t = T_MIN;
    let mut off = offset_at(tz, t);
    while t < T_MAX {
        let n = (t + day).min(T_MAX);
        let no = offset_at(tz, n);
        if no != off {
            // there may be more than one change within a day in principle; bisect the first, then continue from it
            let (mut lo, mut hi) = (t, n);
            let lo_off = off;
            while hi - lo > 1 {
                let mid = lo + (hi - lo) / 2;
                if offset_at(tz, mid) == lo_off {
                    lo = mid;
                } else {
                    hi = mid;
                }
            }
            out.push(hi);
            off = offset_at(tz, hi);
            t = hi;
            continue;
        }
        t = n;
    }
    out
}

pub fn zones() -> &'static Vec<ZoneInfo> {
    static Z: OnceLock<Vec<ZoneInfo>> = OnceLock::new();
    Z.get_or_init(|| {
        let mut infos: Vec<ZoneInfo> = std::thread::scope(|s| {
            let chunks: Vec<_> = TZ_VARIANTS
                .chunks(40)
                .map(|chunk| {
                    s.spawn(move || {
                        chunk
                            .iter()
                            .map(|tz| ZoneInfo {
                                tz: *tz,
                                id: tz.name(),
                                city: city_of(tz.name()),
                                in_scope: true,
                                unique: true,
                                transitions: find_transitions(tz),
                            })
                            .collect::<Vec<_>>()
                    })
                })
                .collect();
            chunks.into_iter().flat_map(|h| h.join().unwrap()).collect()
        });
        // group by city name: the library resolves a city name to *some* zone of that name
        let mut groups: BTreeMap<String, Vec<usize>> = BTreeMap::new();
        for (i, z) in infos.iter().enumerate() {
            groups.entry(z.city.clone()).or_default().push(i);
            // a bare id equal to some other zone's city name also shares the name
        }
        for (_city, members) in groups.iter() {
            if members.len() < 2 {
                continue;
            }
            for &m in members {
                infos[m].unique = false;
            }
            // probe instants: all members' transitions +-1s, plus yearly samples
            let mut probes: Vec<i64> = (0..80).map(|y| T_MIN + y * 31_557_600 + 15_000_000).collect();
            for &m in members {
                for &t in &infos[m].transitions {
                    probes.push(t - 1);
                    probes.push(t);
                    probes.push(t + 1);
                }
            }
            let first = infos[members[0]].tz;
            let agree = members.iter().all(|&m| {
                let tz = infos[m].tz;
                probes.iter().all(|&p| offset_at(&tz, p) == offset_at(&first, p))
            });
            if !agree {
                for &m in members {
                    infos[m].in_scope = false;
                }
            }
        }
        infos
    })
}

pub fn in_scope_zones() -> Vec<&'static ZoneInfo> {
    zones().iter().filter(|z| z.in_scope).collect()
}

/// zones whose city name is unique: in scope at every instant, not only within [T_MIN, T_MAX]
pub fn wide_scope_zones() -> &'static Vec<&'static ZoneInfo> {
    static W: OnceLock<Vec<&'static ZoneInfo>> = OnceLock::new();
    W.get_or_init(|| zones().iter().filter(|z| z.in_scope && z.unique).collect())
}

pub fn zone_by_id(id: &str) -> Option<&'static ZoneInfo> {
    zones().iter().find(|z| z.id == id)
}
