//! Child-process containment: a stack overflow or a panic inside `extern "C"` aborts the
//! process, so such probes run in a child `hv probe ...` and the parent reads the exit status.

use std::io::{Read, Write};
use std::process::{Command, Stdio};
use std::time::{Duration, Instant};

#[derive(Debug, Clone, PartialEq)]
pub enum ProbeStatus {
    Exit(i32),
    Signal(i32),
    Timeout,
    SpawnError(String),
}

#[derive(Debug, Clone)]
pub struct ProbeResult {
    pub status: ProbeStatus,
    pub stdout: String,
    pub stderr_tail: String,
    pub wall: Duration,
}

pub fn run_probe(args: &[String], stdin: Option<&[u8]>, timeout: Duration, env: &[(&str, &str)]) -> ProbeResult {
    run_probe_with(None, args, stdin, timeout, env)
}

/// `exe`: another build of the harness (e.g. the AddressSanitizer build); default = this executable
pub fn run_probe_with(exe: Option<&str>, args: &[String], stdin: Option<&[u8]>, timeout: Duration, env: &[(&str, &str)]) -> ProbeResult {
    let exe = exe.map(std::path::PathBuf::from).unwrap_or_else(|| std::env::current_exe().expect("current_exe"));
    let start = Instant::now();
    let mut cmd = Command::new(exe);
    cmd.arg("probe").args(args).stdin(if stdin.is_some() { Stdio::piped() } else { Stdio::null() }).stdout(Stdio::piped()).stderr(Stdio::piped());
    for (k, v) in env {
        cmd.env(k, v);
    }
    let mut child = match cmd.spawn() {
        Ok(c) => c,
        Err(e) => {
            return ProbeResult {
                status: ProbeStatus::SpawnError(e.to_string()),
                stdout: String::new(),
                stderr_tail: String::new(),
                wall: start.elapsed(),
            }
        }
    };
    if let Some(data) = stdin {
        if let Some(mut si) = child.stdin.take() {
            let data = data.to_vec();
            std::thread::spawn(move || {
                let _ = si.write_all(&data);
            });
        }
    }
    // drain pipes on threads so a chatty child cannot block
    let mut so = child.stdout.take().unwrap();
    let mut se = child.stderr.take().unwrap();
    let t_out = std::thread::spawn(move || {
        let mut s = Vec::new();
        let _ = so.read_to_end(&mut s);
        s
    });
    let t_err = std::thread::spawn(move || {
        let mut s = Vec::new();
        let _ = se.read_to_end(&mut s);
        s
    });
    let status = loop {
        match child.try_wait() {
            Ok(Some(st)) => {
                #[cfg(unix)]
                {
                    use std::os::unix::process::ExitStatusExt;
                    if let Some(sig) = st.signal() {
                        break ProbeStatus::Signal(sig);
                    }
                }
                break ProbeStatus::Exit(st.code().unwrap_or(-1));
            }
            Ok(None) => {
                if start.elapsed() > timeout {
                    let _ = child.kill();
                    let _ = child.wait();
                    break ProbeStatus::Timeout;
                }
                std::thread::sleep(Duration::from_millis(3));
            }
            Err(e) => break ProbeStatus::SpawnError(e.to_string()),
        }
    };
    let out = t_out.join().unwrap_or_default();
    let err = t_err.join().unwrap_or_default();
    let err_s = String::from_utf8_lossy(&err).to_string();
    let tail: String = err_s.lines().rev().take(12).collect::<Vec<_>>().into_iter().rev().collect::<Vec<_>>().join("\n");
    ProbeResult {
        status,
        stdout: String::from_utf8_lossy(&out).to_string(),
        stderr_tail: tail,
        wall: start.elapsed(),
    }
}

/// Run many probes on a pool of threads; results in input order.
pub fn run_probes(jobs: Vec<Vec<String>>, timeout: Duration, threads: usize) -> Vec<ProbeResult> {
    run_probes_with(None, jobs, timeout, threads)
}

/// The same with another executable for the children (e.g. the unoptimised build of the harness).
pub fn run_probes_with(exe: Option<&str>, jobs: Vec<Vec<String>>, timeout: Duration, threads: usize) -> Vec<ProbeResult> {
    let n = jobs.len();
    let results: std::sync::Mutex<Vec<Option<ProbeResult>>> = std::sync::Mutex::new(vec![None; n]);
    let next = std::sync::atomic::AtomicUsize::new(0);
    std::thread::scope(|s| {
        for _ in 0..threads.min(n.max(1)) {
            s.spawn(|| loop {
                let i = next.fetch_add(1, std::sync::atomic::Ordering::SeqCst);
                if i >= n {
                    break;
                }
                let r = run_probe_with(exe, &jobs[i], None, timeout, &[]);
                results.lock().unwrap()[i] = Some(r);
            });
        }
    });
    results.into_inner().unwrap().into_iter().map(|r| r.unwrap()).collect()
}
