//! `RVal`: a neutral mirror of the Haystack data model. Generated cases are RVals; libhaystack
//! values are projected onto RVals field by field, which is also how strict equality is done
//! (libhaystack's own `==` ignores Ref.dis and DateTime zones and has NaN != NaN).

use chrono::{Datelike, NaiveDate, NaiveTime, Offset, TimeZone, Timelike};
use libhaystack::units::Unit;
use libhaystack::val::*;
use serde_json::{json, Value as J};
use std::collections::BTreeMap;
use std::sync::OnceLock;

pub type RDict = BTreeMap<String, RVal>;

#[derive(Clone, Debug, PartialEq)]
pub struct RDt {
    pub secs: i64,
    pub nanos: u32,
    /// local offset east of UTC, seconds
    pub offset: i32,
    /// Haystack zone name (text after the first '/', or the whole id)
    pub city: String,
    /// full IANA id used to build the value (informational in comparisons)
    pub tz: String,
}

#[derive(Clone, Debug, PartialEq)]
pub struct RCol {
    pub name: String,
    pub meta: Option<RDict>,
}

#[derive(Clone, Debug, PartialEq)]
pub struct RGrid {
    pub meta: Option<RDict>,
    pub cols: Vec<RCol>,
    pub rows: Vec<RDict>,
}

#[derive(Clone, Debug, PartialEq)]
pub enum RVal {
    Null,
    Marker,
    Remove,
    Na,
    Bool(bool),
    /// value bits, unit identifiers (all ids of the database unit)
    Num(u64, Option<Vec<String>>),
    Str(String),
    Uri(String),
    Ref(String, Option<String>),
    Symbol(String),
    Date(i32, u32, u32),
    /// h, m, s, nanos
    Time(u32, u32, u32, u32),
    DateTime(RDt),
    Coord(u64, u64),
    XStr(String, String),
    List(Vec<RVal>),
    Dict(RDict),
    Grid(RGrid),
}

pub const KINDS: [&str; 18] = [
    "null", "marker", "remove", "na", "bool", "number", "str", "uri", "ref", "symbol", "date", "time", "dateTime",
    "coord", "xstr", "list", "dict", "grid",
];

impl RVal {
    pub fn num(v: f64) -> RVal {
        RVal::Num(v.to_bits(), None)
    }
    pub fn kind(&self) -> &'static str {
        match self {
            RVal::Null => "null",
            RVal::Marker => "marker",
            RVal::Remove => "remove",
            RVal::Na => "na",
            RVal::Bool(_) => "bool",
            RVal::Num(..) => "number",
            RVal::Str(_) => "str",
            RVal::Uri(_) => "uri",
            RVal::Ref(..) => "ref",
            RVal::Symbol(_) => "symbol",
            RVal::Date(..) => "date",
            RVal::Time(..) => "time",
            RVal::DateTime(_) => "dateTime",
            RVal::Coord(..) => "coord",
            RVal::XStr(..) => "xstr",
            RVal::List(_) => "list",
            RVal::Dict(_) => "dict",
            RVal::Grid(_) => "grid",
        }
    }
    pub fn is_singleton(&self) -> bool {
        matches!(self, RVal::Null | RVal::Marker | RVal::Remove | RVal::Na)
    }
    pub fn depth(&self) -> usize {
        match self {
            RVal::List(l) => 1 + l.iter().map(|v| v.depth()).max().unwrap_or(0),
            RVal::Dict(d) => 1 + d.values().map(|v| v.depth()).max().unwrap_or(0),
            RVal::Grid(g) => {
                let mut m = 0;
                if let Some(meta) = &g.meta {
                    m = m.max(meta.values().map(|v| v.depth()).max().unwrap_or(0));
                }
                for c in &g.cols {
                    if let Some(meta) = &c.meta {
                        m = m.max(meta.values().map(|v| v.depth()).max().unwrap_or(0));
                    }
                }
                for r in &g.rows {
                    m = m.max(r.values().map(|v| v.depth()).max().unwrap_or(0));
                }
                1 + m
            }
            _ => 0,
        }
    }
    /// Visit every node (pre-order), including values inside grid meta/column meta/rows.
    pub fn walk<'a>(&'a self, f: &mut dyn FnMut(&'a RVal)) {
        f(self);
        match self {
            RVal::List(l) => l.iter().for_each(|v| v.walk(f)),
            RVal::Dict(d) => d.values().for_each(|v| v.walk(f)),
            RVal::Grid(g) => {
                if let Some(m) = &g.meta {
                    m.values().for_each(|v| v.walk(f));
                }
                for c in &g.cols {
                    if let Some(m) = &c.meta {
                        m.values().for_each(|v| v.walk(f));
                    }
                }
                for r in &g.rows {
                    r.values().for_each(|v| v.walk(f));
                }
            }
            _ => {}
        }
    }
    pub fn walk_mut(&mut self, f: &mut dyn FnMut(&mut RVal)) {
        f(self);
        match self {
            RVal::List(l) => l.iter_mut().for_each(|v| v.walk_mut(f)),
            RVal::Dict(d) => d.values_mut().for_each(|v| v.walk_mut(f)),
            RVal::Grid(g) => {
                if let Some(m) = &mut g.meta {
                    m.values_mut().for_each(|v| v.walk_mut(f));
                }
                for c in &mut g.cols {
                    if let Some(m) = &mut c.meta {
                        m.values_mut().for_each(|v| v.walk_mut(f));
                    }
                }
                for r in &mut g.rows {
                    r.values_mut().for_each(|v| v.walk_mut(f));
                }
            }
            _ => {}
        }
    }
    pub fn count_nodes(&self) -> usize {
        let mut n = 0;
        self.walk(&mut |_| n += 1);
        n
    }
    pub fn contains_nan(&self) -> bool {
        let mut nan = false;
        self.walk(&mut |v| match v {
            RVal::Num(b, _) => nan |= f64::from_bits(*b).is_nan(),
            RVal::Coord(a, b) => nan |= f64::from_bits(*a).is_nan() || f64::from_bits(*b).is_nan(),
            _ => {}
        });
        nan
    }
}

// ---------------------------------------------------------------------------------------------
// units

pub fn unit_table() -> &'static Vec<(&'static str, &'static Unit)> {
    static T: OnceLock<Vec<(&'static str, &'static Unit)>> = OnceLock::new();
    T.get_or_init(crate::units_list::unit_statics)
}

pub fn unit_by_ids(ids: &[String]) -> Option<&'static Unit> {
    static M: OnceLock<BTreeMap<Vec<String>, &'static Unit>> = OnceLock::new();
    let m = M.get_or_init(|| unit_table().iter().map(|(_, u)| (u.ids.clone(), *u)).collect());
    m.get(ids).copied()
}

// ---------------------------------------------------------------------------------------------
// projection libhaystack -> RVal

pub fn city_of(tz_id: &str) -> String {
    match tz_id.find('/') {
        Some(i) => tz_id[i + 1..].to_string(),
        None => tz_id.to_string(),
    }
}

fn proj_dict(d: &Dict) -> RDict {
    d.iter().map(|(k, v)| (k.clone(), project(v))).collect()
}

pub fn project_dt(dt: &DateTime) -> RDt {
    use chrono_tz::OffsetName;
    let secs = dt.timestamp();
    let nanos = dt.timestamp_subsec_nanos();
    let off = dt.offset().fix().local_minus_utc();
    let tz = dt.offset().tz_id().to_string();
    RDt {
        secs,
        nanos,
        offset: off,
        city: dt.timezone_short_name(),
        tz,
    }
}

pub fn project_grid(g: &Grid) -> RGrid {
    RGrid {
        meta: g.meta.as_ref().map(proj_dict),
        cols: g
            .columns
            .iter()
            .map(|c| RCol {
                name: c.name.clone(),
                meta: c.meta.as_ref().map(proj_dict),
            })
            .collect(),
        rows: g.rows.iter().map(proj_dict).collect(),
    }
}

pub fn project(v: &Value) -> RVal {
    match v {
        Value::Null => RVal::Null,
        Value::Marker => RVal::Marker,
        Value::Remove => RVal::Remove,
        Value::Na => RVal::Na,
        Value::Bool(b) => RVal::Bool(b.value),
        Value::Number(n) => RVal::Num(n.value.to_bits(), n.unit.map(|u| u.ids.clone())),
        Value::Str(s) => RVal::Str(s.value.clone()),
        Value::Uri(s) => RVal::Uri(s.value.clone()),
        Value::Ref(r) => RVal::Ref(r.value.clone(), r.dis.clone()),
        Value::Symbol(s) => RVal::Symbol(s.value.clone()),
        Value::Date(d) => RVal::Date(d.year(), d.month(), d.day()),
        Value::Time(t) => RVal::Time(t.hour(), t.minute(), t.second(), t.nanosecond()),
        Value::DateTime(dt) => RVal::DateTime(project_dt(dt)),
        Value::Coord(c) => RVal::Coord(c.lat.to_bits(), c.long.to_bits()),
        Value::XStr(x) => RVal::XStr(x.r#type.clone(), x.value.clone()),
        Value::List(l) => RVal::List(l.iter().map(project).collect()),
        Value::Dict(d) => RVal::Dict(proj_dict(d)),
        Value::Grid(g) => RVal::Grid(project_grid(g)),
    }
}

// ---------------------------------------------------------------------------------------------
// construction RVal -> libhaystack (plain public constructors / fields only; no codec involved)

pub fn build_dict(d: &RDict) -> Dict {
    let m: BTreeMap<String, Value> = d.iter().map(|(k, v)| (k.clone(), build(v))).collect();
    Dict::from(m)
}

pub fn build_dt(d: &RDt) -> DateTime {
    let tz: chrono_tz::Tz = d.tz.parse().expect("RDt.tz must be a chrono_tz zone id");
    let utc = chrono::Utc
        .timestamp_opt(d.secs, d.nanos)
        .single()
        .expect("valid instant");
    DateTime::from(utc.with_timezone(&tz))
}

pub fn build_grid(g: &RGrid) -> Grid {
    Grid {
        meta: g.meta.as_ref().map(build_dict),
        columns: g
            .cols
            .iter()
            .map(|c| Column {
                name: c.name.clone(),
                meta: c.meta.as_ref().map(build_dict),
            })
            .collect(),
        rows: g.rows.iter().map(build_dict).collect(),
        ver: GRID_FORMAT_VERSION.to_string(),
    }
}

pub fn build(v: &RVal) -> Value {
    match v {
        RVal::Null => Value::Null,
        RVal::Marker => Value::Marker,
        RVal::Remove => Value::Remove,
        RVal::Na => Value::Na,
        RVal::Bool(b) => Value::make_bool(*b),
        RVal::Num(bits, unit) => Value::Number(Number {
            value: f64::from_bits(*bits),
            unit: unit
                .as_ref()
                // an empty id list stands for the library's default unit (what `get_unit_or_default` returns for an unknown name)
                .map(|ids| if ids.is_empty() { libhaystack::units::get_unit_or_default("\u{1}no such unit") } else { unit_by_ids(ids).expect("RVal unit must be a database unit") }),
        }),
        RVal::Str(s) => Value::make_str(s),
        RVal::Uri(s) => Value::make_uri(s),
        RVal::Ref(id, dis) => Value::Ref(Ref {
            value: id.clone(),
            dis: dis.clone(),
        }),
        RVal::Symbol(s) => Value::make_symbol(s),
        RVal::Date(y, m, d) => Value::Date(Date::from(NaiveDate::from_ymd_opt(*y, *m, *d).expect("valid date"))),
        RVal::Time(h, m, s, n) => {
            Value::Time(Time::from(NaiveTime::from_hms_nano_opt(*h, *m, *s, *n).expect("valid time")))
        }
        RVal::DateTime(d) => Value::DateTime(build_dt(d)),
        RVal::Coord(a, b) => Value::make_coord_from(f64::from_bits(*a), f64::from_bits(*b)),
        RVal::XStr(t, v) => Value::make_xstr_from(t, v),
        RVal::List(l) => Value::make_list(l.iter().map(build).collect()),
        RVal::Dict(d) => Value::make_dict(build_dict(d)),
        RVal::Grid(g) => Value::make_grid(build_grid(g)),
    }
}

// ---------------------------------------------------------------------------------------------
// strict comparison

#[derive(Clone, Debug, PartialEq)]
pub struct Diff {
    pub path: String,
    /// stable code used in failure signatures, e.g. "uri:content", "grid:rows:count"
    pub code: String,
    pub detail: String,
}

#[derive(Default, Clone, Debug)]
pub struct DiffInfo {
    /// differences that are violations
    pub diffs: Vec<Diff>,
    /// tolerated differences, counted as information (sign of zero, Null tag <-> absent tag)
    pub zero_sign: u64,
    pub null_absent: u64,
}

fn short(s: &str) -> String {
    let esc: String = s.chars().flat_map(|c| c.escape_default()).collect();
    if esc.len() > 80 {
        let mut cut = 80;
        while !esc.is_char_boundary(cut) {
            cut -= 1;
        }
        format!("{}…", &esc[..cut])
    } else {
        esc
    }
}

fn cmp_f64(path: &str, what: &str, a: u64, b: u64, out: &mut DiffInfo) {
    let (fa, fb) = (f64::from_bits(a), f64::from_bits(b));
    if fa.is_nan() && fb.is_nan() {
        return;
    }
    if fa == fb {
        if a != b {
            out.zero_sign += 1;
        }
        return;
    }
    out.diffs.push(Diff {
        path: path.to_string(),
        code: format!("{what}:value"),
        detail: format!("{fa:e} vs {fb:e}"),
    });
}

fn cmp_str(path: &str, code: &str, a: &str, b: &str, out: &mut DiffInfo) {
    if a != b {
        out.diffs.push(Diff {
            path: path.to_string(),
            code: code.to_string(),
            detail: format!("\"{}\" vs \"{}\"", short(a), short(b)),
        });
    }
}

fn cmp_tags(path: &str, code: &str, a: &RDict, b: &RDict, out: &mut DiffInfo) {
    for (k, va) in a {
        match b.get(k) {
            Some(vb) => diff_into(&format!("{path}.{k}"), va, vb, out),
            None => {
                if matches!(va, RVal::Null) {
                    out.null_absent += 1;
                } else {
                    out.diffs.push(Diff {
                        path: format!("{path}.{k}"),
                        code: format!("{code}:tag-lost"),
                        detail: format!("{} tag '{}' missing", va.kind(), short(k)),
                    });
                }
            }
        }
    }
    for (k, vb) in b {
        if !a.contains_key(k) {
            if matches!(vb, RVal::Null) {
                out.null_absent += 1;
            } else {
                out.diffs.push(Diff {
                    path: format!("{path}.{k}"),
                    code: format!("{code}:tag-invented"),
                    detail: format!("{} tag '{}' appeared", vb.kind(), short(k)),
                });
            }
        }
    }
}

fn cmp_opt_tags(path: &str, code: &str, a: &Option<RDict>, b: &Option<RDict>, out: &mut DiffInfo) {
    let empty = RDict::new();
    cmp_tags(path, code, a.as_ref().unwrap_or(&empty), b.as_ref().unwrap_or(&empty), out);
}

pub fn diff_grid(path: &str, ga: &RGrid, gb: &RGrid, out: &mut DiffInfo) {
    cmp_opt_tags(&format!("{path}.meta"), "grid:meta", &ga.meta, &gb.meta, out);
    if ga.cols.len() != gb.cols.len() {
        out.diffs.push(Diff {
            path: format!("{path}.cols"),
            code: "grid:cols:count".into(),
            detail: format!("{} vs {} columns", ga.cols.len(), gb.cols.len()),
        });
    } else {
        for (i, (ca, cb)) in ga.cols.iter().zip(gb.cols.iter()).enumerate() {
            cmp_str(&format!("{path}.cols[{i}].name"), "grid:col:name", &ca.name, &cb.name, out);
            cmp_opt_tags(&format!("{path}.cols[{i}].meta"), "grid:col:meta", &ca.meta, &cb.meta, out);
        }
    }
    if ga.rows.len() != gb.rows.len() {
        out.diffs.push(Diff {
            path: format!("{path}.rows"),
            code: "grid:rows:count".into(),
            detail: format!("{} vs {} rows", ga.rows.len(), gb.rows.len()),
        });
    } else {
        for (i, (ra, rb)) in ga.rows.iter().zip(gb.rows.iter()).enumerate() {
            cmp_tags(&format!("{path}.rows[{i}]"), "grid:row", ra, rb, out);
        }
    }
}

pub fn diff_into(path: &str, a: &RVal, b: &RVal, out: &mut DiffInfo) {
    if a.kind() != b.kind() {
        out.diffs.push(Diff {
            path: path.to_string(),
            code: format!("kind:{}->{}", a.kind(), b.kind()),
            detail: format!("{} became {}", a.kind(), b.kind()),
        });
        return;
    }
    match (a, b) {
        (RVal::Bool(x), RVal::Bool(y)) => {
            if x != y {
                out.diffs.push(Diff {
                    path: path.into(),
                    code: "bool:value".into(),
                    detail: format!("{x} vs {y}"),
                })
            }
        }
        (RVal::Num(x, ux), RVal::Num(y, uy)) => {
            cmp_f64(path, "number", *x, *y, out);
            if ux != uy {
                out.diffs.push(Diff {
                    path: path.into(),
                    code: "number:unit".into(),
                    detail: format!("{ux:?} vs {uy:?}"),
                })
            }
        }
        (RVal::Str(x), RVal::Str(y)) => cmp_str(path, "str:content", x, y, out),
        (RVal::Uri(x), RVal::Uri(y)) => cmp_str(path, "uri:content", x, y, out),
        (RVal::Symbol(x), RVal::Symbol(y)) => cmp_str(path, "symbol:content", x, y, out),
        (RVal::Ref(x, dx), RVal::Ref(y, dy)) => {
            cmp_str(path, "ref:id", x, y, out);
            match (dx, dy) {
                (None, None) => {}
                (Some(p), Some(q)) => cmp_str(path, "ref:dis", p, q, out),
                (p, q) => out.diffs.push(Diff {
                    path: path.into(),
                    code: "ref:dis".into(),
                    detail: format!("{p:?} vs {q:?}"),
                }),
            }
        }
        (RVal::XStr(tx, vx), RVal::XStr(ty, vy)) => {
            cmp_str(path, "xstr:type", tx, ty, out);
            cmp_str(path, "xstr:value", vx, vy, out);
        }
        (RVal::Date(..), RVal::Date(..)) => {
            if a != b {
                out.diffs.push(Diff {
                    path: path.into(),
                    code: "date:value".into(),
                    detail: format!("{a:?} vs {b:?}"),
                })
            }
        }
        (RVal::Time(..), RVal::Time(..)) => {
            if a != b {
                out.diffs.push(Diff {
                    path: path.into(),
                    code: "time:value".into(),
                    detail: format!("{a:?} vs {b:?}"),
                })
            }
        }
        (RVal::DateTime(x), RVal::DateTime(y)) => {
            if x.secs != y.secs || x.nanos != y.nanos {
                out.diffs.push(Diff {
                    path: path.into(),
                    code: "datetime:instant".into(),
                    detail: format!("{}.{:09} vs {}.{:09} (zone {} / {})", x.secs, x.nanos, y.secs, y.nanos, x.tz, y.tz),
                })
            } else if x.offset != y.offset {
                out.diffs.push(Diff {
                    path: path.into(),
                    code: "datetime:offset".into(),
                    detail: format!("{} vs {} (zone {} / {})", x.offset, y.offset, x.tz, y.tz),
                })
            }
            if x.city != y.city {
                out.diffs.push(Diff {
                    path: path.into(),
                    code: "datetime:zone".into(),
                    detail: format!("{} vs {}", x.city, y.city),
                })
            }
        }
        (RVal::Coord(la, lo), RVal::Coord(lb, lob)) => {
            cmp_f64(path, "coord:lat", *la, *lb, out);
            cmp_f64(path, "coord:lng", *lo, *lob, out);
        }
        (RVal::List(x), RVal::List(y)) => {
            if x.len() != y.len() {
                out.diffs.push(Diff {
                    path: path.into(),
                    code: "list:len".into(),
                    detail: format!("{} vs {}", x.len(), y.len()),
                })
            } else {
                for (i, (p, q)) in x.iter().zip(y.iter()).enumerate() {
                    diff_into(&format!("{path}[{i}]"), p, q, out);
                }
            }
        }
        (RVal::Dict(x), RVal::Dict(y)) => cmp_tags(path, "dict", x, y, out),
        (RVal::Grid(x), RVal::Grid(y)) => diff_grid(path, x, y, out),
        _ => {}
    }
}

pub fn diff(a: &RVal, b: &RVal) -> DiffInfo {
    let mut out = DiffInfo::default();
    diff_into("$", a, b, &mut out);
    out
}

pub fn same(a: &RVal, b: &RVal) -> bool {
    diff(a, b).diffs.is_empty()
}

// ---------------------------------------------------------------------------------------------
// JSON form used in replay files (self-describing, exact for floats)

fn dict_json(d: &RDict) -> J {
    J::Object(d.iter().map(|(k, v)| (k.clone(), to_json(v))).collect())
}

pub fn to_json(v: &RVal) -> J {
    match v {
        RVal::Null => json!({"k":"null"}),
        RVal::Marker => json!({"k":"marker"}),
        RVal::Remove => json!({"k":"remove"}),
        RVal::Na => json!({"k":"na"}),
        RVal::Bool(b) => json!({"k":"bool","v":b}),
        RVal::Num(bits, unit) => {
            json!({"k":"number","bits":format!("{bits:016x}"),"approx":format!("{:e}", f64::from_bits(*bits)),"unit":unit})
        }
        RVal::Str(s) => json!({"k":"str","v":s}),
        RVal::Uri(s) => json!({"k":"uri","v":s}),
        RVal::Ref(id, dis) => json!({"k":"ref","v":id,"dis":dis}),
        RVal::Symbol(s) => json!({"k":"symbol","v":s}),
        RVal::Date(y, m, d) => json!({"k":"date","y":y,"m":m,"d":d}),
        RVal::Time(h, m, s, n) => json!({"k":"time","h":h,"m":m,"s":s,"n":n}),
        RVal::DateTime(d) => {
            json!({"k":"dateTime","secs":d.secs,"nanos":d.nanos,"offset":d.offset,"city":d.city,"tz":d.tz})
        }
        RVal::Coord(a, b) => {
            json!({"k":"coord","lat":format!("{a:016x}"),"lng":format!("{b:016x}"),"approx":format!("{:e},{:e}", f64::from_bits(*a), f64::from_bits(*b))})
        }
        RVal::XStr(t, v) => json!({"k":"xstr","type":t,"v":v}),
        RVal::List(l) => json!({"k":"list","v":l.iter().map(to_json).collect::<Vec<_>>()}),
        RVal::Dict(d) => json!({"k":"dict","v":dict_json(d)}),
        RVal::Grid(g) => json!({
            "k":"grid",
            "meta": g.meta.as_ref().map(dict_json),
            "cols": g.cols.iter().map(|c| json!({"name":c.name,"meta":c.meta.as_ref().map(dict_json)})).collect::<Vec<_>>(),
            "rows": g.rows.iter().map(dict_json).collect::<Vec<_>>(),
        }),
    }
}

fn jstr(j: &J, k: &str) -> Result<String, String> {
    j[k].as_str().map(String::from).ok_or_else(|| format!("missing string '{k}'"))
}
fn jbits(j: &J, k: &str) -> Result<u64, String> {
    u64::from_str_radix(&jstr(j, k)?, 16).map_err(|e| e.to_string())
}
fn jdict(j: &J) -> Result<RDict, String> {
    let o = j.as_object().ok_or("dict must be an object")?;
    let mut d = RDict::new();
    for (k, v) in o {
        d.insert(k.clone(), from_json(v)?);
    }
    Ok(d)
}
fn jodict(j: &J) -> Result<Option<RDict>, String> {
    if j.is_null() {
        Ok(None)
    } else {
        Ok(Some(jdict(j)?))
    }
}

pub fn from_json(j: &J) -> Result<RVal, String> {
    let k = jstr(j, "k")?;
    Ok(match k.as_str() {
        "null" => RVal::Null,
        "marker" => RVal::Marker,
        "remove" => RVal::Remove,
        "na" => RVal::Na,
        "bool" => RVal::Bool(j["v"].as_bool().ok_or("bool")?),
        "number" => RVal::Num(
            jbits(j, "bits")?,
            if j["unit"].is_null() {
                None
            } else {
                Some(
                    j["unit"]
                        .as_array()
                        .ok_or("unit")?
                        .iter()
                        .map(|x| x.as_str().unwrap_or("").to_string())
                        .collect(),
                )
            },
        ),
        "str" => RVal::Str(jstr(j, "v")?),
        "uri" => RVal::Uri(jstr(j, "v")?),
        "ref" => RVal::Ref(jstr(j, "v")?, j["dis"].as_str().map(String::from)),
        "symbol" => RVal::Symbol(jstr(j, "v")?),
        "date" => RVal::Date(
            j["y"].as_i64().ok_or("y")? as i32,
            j["m"].as_u64().ok_or("m")? as u32,
            j["d"].as_u64().ok_or("d")? as u32,
        ),
        "time" => RVal::Time(
            j["h"].as_u64().ok_or("h")? as u32,
            j["m"].as_u64().ok_or("m")? as u32,
            j["s"].as_u64().ok_or("s")? as u32,
            j["n"].as_u64().ok_or("n")? as u32,
        ),
        "dateTime" => RVal::DateTime(RDt {
            secs: j["secs"].as_i64().ok_or("secs")?,
            nanos: j["nanos"].as_u64().ok_or("nanos")? as u32,
            offset: j["offset"].as_i64().ok_or("offset")? as i32,
            city: jstr(j, "city")?,
            tz: jstr(j, "tz")?,
        }),
        "coord" => RVal::Coord(jbits(j, "lat")?, jbits(j, "lng")?),
        "xstr" => RVal::XStr(jstr(j, "type")?, jstr(j, "v")?),
        "list" => RVal::List(
            j["v"]
                .as_array()
                .ok_or("list")?
                .iter()
                .map(from_json)
                .collect::<Result<Vec<_>, _>>()?,
        ),
        "dict" => RVal::Dict(jdict(&j["v"])?),
        "grid" => RVal::Grid(RGrid {
            meta: jodict(&j["meta"])?,
            cols: j["cols"]
                .as_array()
                .ok_or("cols")?
                .iter()
                .map(|c| {
                    Ok(RCol {
                        name: jstr(c, "name")?,
                        meta: jodict(&c["meta"])?,
                    })
                })
                .collect::<Result<Vec<_>, String>>()?,
            rows: j["rows"]
                .as_array()
                .ok_or("rows")?
                .iter()
                .map(jdict)
                .collect::<Result<Vec<_>, _>>()?,
        }),
        other => return Err(format!("unknown kind '{other}'")),
    })
}

impl crate::runner::Case for RVal {
    fn to_json(&self) -> J {
        to_json(self)
    }
    fn from_json(j: &J) -> Result<Self, String> {
        from_json(j)
    }
}

/// Compact human rendering for evidence samples.
pub fn render(v: &RVal) -> String {
    fn rd(d: &RDict) -> String {
        d.iter().map(|(k, v)| format!("{k}:{}", render(v))).collect::<Vec<_>>().join(" ")
    }
    match v {
        RVal::Null => "N".into(),
        RVal::Marker => "M".into(),
        RVal::Remove => "R".into(),
        RVal::Na => "NA".into(),
        RVal::Bool(b) => if *b { "T" } else { "F" }.into(),
        RVal::Num(b, u) => format!(
            "{:?}{}",
            f64::from_bits(*b),
            u.as_ref().map(|i| i.last().cloned().unwrap_or_default()).unwrap_or_default()
        ),
        RVal::Str(s) => format!("{s:?}"),
        RVal::Uri(s) => format!("`{}`", s.escape_debug()),
        RVal::Ref(i, d) => match d {
            Some(d) => format!("@{i} {d:?}"),
            None => format!("@{i}"),
        },
        RVal::Symbol(s) => format!("^{s}"),
        RVal::Date(y, m, d) => format!("{y:04}-{m:02}-{d:02}"),
        RVal::Time(h, m, s, n) => format!("{h:02}:{m:02}:{s:02}.{n:09}"),
        RVal::DateTime(d) => format!("ts({}.{:09} {} off={})", d.secs, d.nanos, d.tz, d.offset),
        RVal::Coord(a, b) => format!("C({:?},{:?})", f64::from_bits(*a), f64::from_bits(*b)),
        RVal::XStr(t, v) => format!("{t}({v:?})"),
        RVal::List(l) => format!("[{}]", l.iter().map(render).collect::<Vec<_>>().join(",")),
        RVal::Dict(d) => format!("{{{}}}", rd(d)),
        RVal::Grid(g) => format!(
            "<<meta{{{}}} cols[{}] rows[{}]>>",
            g.meta.as_ref().map(rd).unwrap_or_default(),
            g.cols
                .iter()
                .map(|c| match &c.meta {
                    Some(m) => format!("{} {{{}}}", c.name, rd(m)),
                    None => c.name.clone(),
                })
                .collect::<Vec<_>>()
                .join(","),
            g.rows.iter().map(|r| format!("{{{}}}", rd(r))).collect::<Vec<_>>().join(";")
        ),
    }
}
