use hvlib::props;
use hvlib::runner::{install_quiet_panic_hook, Ctx, Rec, Tier, Verdict};

fn usage() -> ! {
    eprintln!("usage: hv run <Cxx> <quick|thorough> | hv replay <Cxx> <file> | hv list");
    std::process::exit(2)
}

fn leak(s: String) -> &'static str {
    Box::leak(s.into_boxed_str())
}

fn main() {
    let args: Vec<String> = std::env::args().collect();
    if args.len() < 2 {
        usage();
    }
    install_quiet_panic_hook();
    match args[1].as_str() {
        "probe" => {
            std::process::exit(props::probe(&args[2..]));
        }
        "fuzz-artifact" => {
            // hv fuzz-artifact <prop> <target> <file>: convert a libFuzzer artifact into a replay file and re-check it
            if args.len() < 5 {
                usage();
            }
            std::process::exit(props::fuzz_artifact(&args[2], &args[3], &args[4]));
        }
        "gen-corpus" => {
            std::process::exit(props::gen_corpus(args.get(2).map(|s| s.as_str()).unwrap_or("/verif/corpus")));
        }
        "list" => {
            for p in props::ALL {
                println!("{p}");
            }
        }
        "run" => {
            if args.len() < 4 {
                usage();
            }
            let prop = leak(args[2].clone());
            let tier = match args[3].as_str() {
                "quick" => Tier::Quick,
                "thorough" => Tier::Thorough,
                _ => usage(),
            };
            let seed: u64 = std::env::var("VERIF_SEED")
                .ok()
                .and_then(|s| s.trim().parse::<i128>().ok())
                .map(|v| v as u64)
                .unwrap_or(1);
            let mut ctx = Ctx::new(prop, tier, seed);
            ctx.replay_findings(&|kind, case, rec| props::replay(prop, kind, case, rec));
            if !props::run(prop, &mut ctx) {
                eprintln!("unknown property {prop}");
                std::process::exit(2);
            }
            std::process::exit(ctx.finish());
        }
        "replay" => {
            if args.len() < 4 {
                usage();
            }
            let prop = args[2].as_str();
            let text = std::fs::read_to_string(&args[3]).expect("read replay file");
            let j: serde_json::Value = serde_json::from_str(&text).expect("replay file JSON");
            let kind = j["kind"].as_str().unwrap_or("");
            let mut rec = Rec::new();
            let v = hvlib::runner::guarded(|| props::replay(prop, kind, &j["case"], &mut rec));
            match v {
                Ok(Verdict::Pass) => {
                    println!("PASS property={prop} replay={}", args[3]);
                    std::process::exit(0)
                }
                Ok(Verdict::Fail { sig, msg }) => {
                    println!("VIOLATION property={prop} replay={}", args[3]);
                    println!("  signature={sig}");
                    println!("  {msg}");
                    std::process::exit(1)
                }
                Err(p) => {
                    println!("VIOLATION property={prop} replay={}", args[3]);
                    println!("  uncaught panic: {} at {}", p.msg, p.location);
                    std::process::exit(1)
                }
            }
        }
        _ => usage(),
    }
}
