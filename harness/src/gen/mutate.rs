//! Byte- and line-level mutators for documents (C03, C09, C11).

use crate::runner::idx;
use proptest::prelude::*;
use serde_json::{json, Value as J};

#[derive(Clone, Debug)]
pub struct Mutation {
    pub op: u8,
    pub pos: u16,
    pub arg: u16,
}

impl Mutation {
    pub fn to_json(&self) -> J {
        json!([self.op, self.pos, self.arg])
    }
    pub fn from_json(j: &J) -> Mutation {
        Mutation {
            op: j[0].as_u64().unwrap_or(0) as u8,
            pos: j[1].as_u64().unwrap_or(0) as u16,
            arg: j[2].as_u64().unwrap_or(0) as u16,
        }
    }
}

pub fn mutation() -> BoxedStrategy<Mutation> {
    (0u8..14, any::<u16>(), any::<u16>()).prop_map(|(op, pos, arg)| Mutation { op, pos, arg }).boxed()
}

pub fn mutations(max: usize) -> BoxedStrategy<Vec<Mutation>> {
    prop::collection::vec(mutation(), 0..=max).boxed()
}

pub const ZINC_TOKENS: &[&str] = &[
    "[", "]", "{", "}", "<<", ">>", ",", ":", "\n", "\r\n", "\r", " ", "\"", "\\", "`", "@", "^", "ver:\"3.0\"", "N", "M", "NA", "T", "F", "INF", "-INF", "NaN", "C(", ")", "-", ".", "e", "E", "_", "1",
    "2021-01-01", "T00:00:00", "Z", " UTC", "+01:00 ", "12:00:00", "\\u00", "\\u", "\\ud83d", "\\udbff\\uffff", "\\ud800", "\\udc00", "\\uD83D\\uDE00", "\\ud83d\\u0041", "\\udbff\\u0000", "23:59:60", "12:34:60.5", "1e1_0", "1e+_5", "2E-_3kW", "\u{feff}", "$", "kW", "°F", "%", "a", "Bin(", "<", ">", "\u{0}", "\u{ff}",
];

pub const JSON_TOKENS: &[&str] = &[
    "[", "]", "{", "}", ",", ":", "\"", "\\", "null", "true", "false", "\"_kind\"", "\"val\"", "\"unit\"", "\"tz\"", "\"dis\"", "\"meta\"", "\"cols\"", "\"rows\"", "\"name\"", "\"lat\"", "\"lng\"", "\"type\"",
    "\"number\"", "\"ref\"", "\"grid\"", "\"dateTime\"", "\"marker\"", "\"dict\"", "\"xstr\"", "\"coord\"", "\"str\"", "\"bool\"", "\"list\"", "\"null\"", "\"date\"", "\"time\"", "\"uri\"", "\"symbol\"", "\"na\"", "\"remove\"", "\"Number\"", "\"2021-06-01T12:00:00+15:00\"", "\"2021-06-01T12:00:00-13:00\"", "\"2021-03-14T02:30:00-05:00\"", "\u{feff}", "\"ver\"", "1", "-", ".", "e", "1e999", "\\u0000", "\"2020-01-01T00:00:00Z\"", " ",
];

pub const FILTER_TOKENS: &[&str] = &[
    "and", "or", "not", "(", ")", "==", "!=", "<", "<=", ">", ">=", "*==", "->", "?", "^", "@", "\"", "`", " ", "\n", "true", "false", "a", "b", "1", "2m", "-", "=", "!", "*", "2020-01-01", "12:00:00",
    "T00:00:00Z", "\\", "$", "-INF", "NaN", "^a", "@r", "a->b", "not a", "a?",
    "\\u00", "\\u", "\\ud83d", "\\ud83d\\u0041", "\\udbff\\udbff", "\\uD83D\\uDE00", "\\udc00", "\\n", "\\$", "\"日本語日本語日本語\"", "é", "‰", "23:59:60", "1e5", "5kW", "1e+_5", "2E-_3kW", "1e-_", "\u{feff}",
];

/// Apply one mutation to a byte string.
pub fn apply(bytes: &mut Vec<u8>, m: &Mutation, tokens: &[&str]) {
    let n = bytes.len();
    let p = idx(m.pos, n + 1);
    match m.op {
        0 => {
            // flip a bit
            if n > 0 {
                let p = p.min(n - 1);
                bytes[p] ^= 1 << (m.arg % 8);
            }
        }
        1 => bytes.insert(p, (m.arg & 0xff) as u8),
        2 => {
            if n > 0 {
                bytes.remove(p.min(n - 1));
            }
        }
        3 => {
            // duplicate a short span
            if n > 0 {
                let a = p.min(n - 1);
                let len = 1 + (m.arg as usize % 8).min(n - a - 1);
                let span: Vec<u8> = bytes[a..a + len].to_vec();
                for (i, b) in span.into_iter().enumerate() {
                    bytes.insert(a + len + i, b);
                }
            }
        }
        4 | 5 => {
            // token splice
            let t = tokens[idx(m.arg, tokens.len())].as_bytes();
            for (i, b) in t.iter().enumerate() {
                bytes.insert(p + i, *b);
            }
        }
        6 => bytes.truncate(p), // truncate
        7 => {
            // replace a byte by a token's first byte
            if n > 0 {
                let t = tokens[idx(m.arg, tokens.len())].as_bytes();
                bytes[p.min(n - 1)] = t[0];
            }
        }
        8 => {
            // line endings: LF -> CRLF / CR, or drop the final newline(s)
            match m.arg % 3 {
                0 => {
                    let mut out = Vec::with_capacity(n + 8);
                    for b in bytes.iter() {
                        if *b == b'\n' {
                            out.extend_from_slice(b"\r\n");
                        } else {
                            out.push(*b);
                        }
                    }
                    *bytes = out;
                }
                1 => {
                    for b in bytes.iter_mut() {
                        if *b == b'\n' {
                            *b = b'\r';
                        }
                    }
                }
                _ => {
                    while matches!(bytes.last(), Some(b'\n') | Some(b'\r')) {
                        bytes.pop();
                    }
                }
            }
        }
        9 => line_op(bytes, m, LineOp::ExtraCell),
        10 => line_op(bytes, m, LineOp::DropCell),
        11 => line_op(bytes, m, LineOp::DeleteLine),
        12 => line_op(bytes, m, LineOp::DuplicateLine),
        _ => {
            // unbalance: remove one closing bracket / all grid ends
            let closers: Vec<usize> = bytes.iter().enumerate().filter(|(_, b)| matches!(**b, b']' | b'}' | b'>' | b')')).map(|(i, _)| i).collect();
            if !closers.is_empty() {
                bytes.remove(closers[idx(m.arg, closers.len())]);
            }
        }
    }
}

enum LineOp {
    ExtraCell,
    DropCell,
    DeleteLine,
    DuplicateLine,
}

fn line_op(bytes: &mut Vec<u8>, m: &Mutation, op: LineOp) {
    // split on '\n' keeping terminators
    let mut lines: Vec<Vec<u8>> = vec![];
    let mut cur = vec![];
    for b in bytes.iter() {
        cur.push(*b);
        if *b == b'\n' {
            lines.push(std::mem::take(&mut cur));
        }
    }
    if !cur.is_empty() {
        lines.push(cur);
    }
    if lines.is_empty() {
        return;
    }
    let li = idx(m.pos, lines.len());
    match op {
        LineOp::ExtraCell => {
            let line = &mut lines[li];
            let at = line.iter().rposition(|b| *b != b'\n' && *b != b'\r').map(|i| i + 1).unwrap_or(0);
            let extra: &[u8] = if m.arg % 2 == 0 { b",1" } else { b"," };
            for (i, b) in extra.iter().enumerate() {
                line.insert(at + i, *b);
            }
        }
        LineOp::DropCell => {
            let line = &mut lines[li];
            if let Some(c) = line.iter().rposition(|b| *b == b',') {
                let end = line.iter().rposition(|b| *b != b'\n' && *b != b'\r').map(|i| i + 1).unwrap_or(line.len());
                if c < end {
                    line.drain(c..end);
                }
            }
        }
        LineOp::DeleteLine => {
            lines.remove(li);
        }
        LineOp::DuplicateLine => {
            let l = lines[li].clone();
            lines.insert(li, l);
        }
    }
    *bytes = lines.concat();
}

pub fn apply_all(bytes: &mut Vec<u8>, ms: &[Mutation], tokens: &[&str]) {
    for m in ms {
        apply(bytes, m, tokens);
        if bytes.len() > 1 << 20 {
            bytes.truncate(1 << 20);
        }
    }
}
