pub mod value;
