pub mod value;
pub mod mutate;
pub mod readers;
pub mod filter;
pub mod arb;
