//! Filter ASTs: strategy, reference printer (random legal spacing), conversion to and from
//! libhaystack's filter tree through its public node fields, and the reference evaluator.

use crate::gen::value::{self as gv, GenCfg};
use crate::refimpl::zinc as rz;
use crate::rval::*;
use libhaystack::filter::nodes::*;
use libhaystack::filter::path::Path;
use libhaystack::filter::Filter;
use libhaystack::val::{Ref, Symbol};
use proptest::prelude::*;
use serde_json::{json, Value as J};

#[derive(Clone, Copy, Debug, PartialEq, Eq)]
pub enum Op {
    Eq,
    Ne,
    Lt,
    Le,
    Gt,
    Ge,
}

pub const OPS: [Op; 6] = [Op::Eq, Op::Ne, Op::Lt, Op::Le, Op::Gt, Op::Ge];

impl Op {
    pub fn text(self) -> &'static str {
        match self {
            Op::Eq => "==",
            Op::Ne => "!=",
            Op::Lt => "<",
            Op::Le => "<=",
            Op::Gt => ">",
            Op::Ge => ">=",
        }
    }
    fn from_text(s: &str) -> Option<Op> {
        OPS.iter().copied().find(|o| o.text() == s)
    }
}

#[derive(Clone, Debug, PartialEq)]
pub enum FTerm {
    Parens(FOr),
    Has(Vec<String>),
    Missing(Vec<String>),
    Cmp(Vec<String>, Op, RVal),
    /// path *== @ref
    Wildcard(Vec<String>, String, Option<String>),
    IsA(String),
    /// rel? ^term @ref
    Relation(String, Option<String>, Option<(String, Option<String>)>),
}

#[derive(Clone, Debug, PartialEq)]
pub struct FAnd(pub Vec<FTerm>);
#[derive(Clone, Debug, PartialEq)]
pub struct FOr(pub Vec<FAnd>);

impl FOr {
    pub fn single(t: FTerm) -> FOr {
        FOr(vec![FAnd(vec![t])])
    }
    pub fn term_count(&self) -> usize {
        self.0
            .iter()
            .map(|a| {
                a.0.iter()
                    .map(|t| match t {
                        FTerm::Parens(o) => o.term_count(),
                        _ => 1,
                    })
                    .sum::<usize>()
            })
            .sum()
    }
    pub fn walk<'a>(&'a self, f: &mut dyn FnMut(&'a FTerm)) {
        for a in &self.0 {
            for t in &a.0 {
                f(t);
                if let FTerm::Parens(o) = t {
                    o.walk(f);
                }
            }
        }
    }
    pub fn depth(&self) -> usize {
        let mut d = 0;
        for a in &self.0 {
            for t in &a.0 {
                if let FTerm::Parens(o) = t {
                    d = d.max(1 + o.depth());
                }
            }
        }
        d
    }
}

// ---------------------------------------------------------------------------------------------
// JSON

fn path_json(p: &[String]) -> J {
    json!(p)
}
fn path_from(j: &J) -> Vec<String> {
    j.as_array().map(|a| a.iter().map(|x| x.as_str().unwrap_or("a").to_string()).collect()).unwrap_or_else(|| vec!["a".into()])
}

pub fn term_json(t: &FTerm) -> J {
    match t {
        FTerm::Parens(o) => json!({"parens": or_json(o)}),
        FTerm::Has(p) => json!({"has": path_json(p)}),
        FTerm::Missing(p) => json!({"missing": path_json(p)}),
        FTerm::Cmp(p, op, v) => json!({"cmp": path_json(p), "op": op.text(), "val": to_json(v)}),
        FTerm::Wildcard(p, id, dis) => json!({"wildcard": path_json(p), "ref": id, "dis": dis}),
        FTerm::IsA(s) => json!({"isa": s}),
        FTerm::Relation(r, t, rf) => json!({"rel": r, "term": t, "ref": rf.as_ref().map(|(i, d)| json!([i, d]))}),
    }
}
pub fn or_json(o: &FOr) -> J {
    J::Array(o.0.iter().map(|a| J::Array(a.0.iter().map(term_json).collect())).collect())
}
pub fn or_from_json(j: &J) -> Result<FOr, String> {
    let mut ands = vec![];
    for a in j.as_array().ok_or("or")? {
        let mut terms = vec![];
        for t in a.as_array().ok_or("and")? {
            terms.push(term_from_json(t)?);
        }
        ands.push(FAnd(terms));
    }
    Ok(FOr(ands))
}
fn term_from_json(j: &J) -> Result<FTerm, String> {
    if !j["parens"].is_null() {
        return Ok(FTerm::Parens(or_from_json(&j["parens"])?));
    }
    if !j["has"].is_null() {
        return Ok(FTerm::Has(path_from(&j["has"])));
    }
    if !j["missing"].is_null() {
        return Ok(FTerm::Missing(path_from(&j["missing"])));
    }
    if !j["cmp"].is_null() {
        return Ok(FTerm::Cmp(path_from(&j["cmp"]), Op::from_text(j["op"].as_str().unwrap_or("==")).ok_or("op")?, from_json(&j["val"])?));
    }
    if !j["wildcard"].is_null() {
        return Ok(FTerm::Wildcard(path_from(&j["wildcard"]), j["ref"].as_str().unwrap_or("r").to_string(), j["dis"].as_str().map(String::from)));
    }
    if !j["isa"].is_null() {
        return Ok(FTerm::IsA(j["isa"].as_str().unwrap_or("a").to_string()));
    }
    if !j["rel"].is_null() {
        let rf = if j["ref"].is_null() { None } else { Some((j["ref"][0].as_str().unwrap_or("r").to_string(), j["ref"][1].as_str().map(String::from))) };
        return Ok(FTerm::Relation(j["rel"].as_str().unwrap_or("a").to_string(), j["term"].as_str().map(String::from), rf));
    }
    Err("unknown term".into())
}

// ---------------------------------------------------------------------------------------------
// to / from libhaystack

pub fn mk_path(segs: &[String]) -> Path {
    if segs.len() == 1 {
        Path::from(segs[0].as_str())
    } else {
        // `Id` lives in a crate-private module; obtain values of it through Path's Index impl
        let ids: Vec<_> = segs.iter().map(|s| Path::from(s.as_str())[0].clone()).collect();
        Path::from(ids)
    }
}

pub fn path_segs(p: &Path) -> Vec<String> {
    p.iter().map(|id| id.to_string()).collect()
}

fn mk_ref(id: &str, dis: &Option<String>) -> Ref {
    Ref {
        value: id.to_string(),
        dis: dis.clone(),
    }
}

pub fn to_lib_or(o: &FOr) -> Or {
    Or {
        ands: o
            .0
            .iter()
            .map(|a| And {
                terms: a.0.iter().map(to_lib_term).collect(),
            })
            .collect(),
    }
}

fn to_lib_term(t: &FTerm) -> Term {
    match t {
        FTerm::Parens(o) => Term::Parens(Parens { or: to_lib_or(o) }),
        FTerm::Has(p) => Term::Has(Has { path: mk_path(p) }),
        FTerm::Missing(p) => Term::Missing(Missing { path: mk_path(p) }),
        FTerm::Cmp(p, op, v) => Term::Cmp(Cmp {
            path: mk_path(p),
            op: match op {
                Op::Eq => CmpOp::Eq,
                Op::Ne => CmpOp::NotEq,
                Op::Lt => CmpOp::LessThan,
                Op::Le => CmpOp::LessThanEq,
                Op::Gt => CmpOp::GreatThan,
                Op::Ge => CmpOp::GreatThanEq,
            },
            value: build(v),
        }),
        FTerm::Wildcard(p, id, dis) => Term::WildcardEq(WildcardEq {
            id: mk_path(p),
            ref_value: mk_ref(id, dis),
        }),
        FTerm::IsA(s) => Term::IsA(IsA { symbol: Symbol::from(s.as_str()) }),
        FTerm::Relation(r, t, rf) => Term::Relation(Relation {
            rel: Symbol::from(r.as_str()),
            rel_term: t.as_ref().map(|x| Symbol::from(x.as_str())),
            ref_value: rf.as_ref().map(|(i, d)| mk_ref(i, d)),
        }),
    }
}

pub fn to_lib(o: &FOr) -> Filter {
    Filter { or: to_lib_or(o) }
}

pub fn from_lib_or(o: &Or) -> FOr {
    FOr(o.ands.iter().map(|a| FAnd(a.terms.iter().map(from_lib_term).collect())).collect())
}

fn from_lib_term(t: &Term) -> FTerm {
    match t {
        Term::Parens(p) => FTerm::Parens(from_lib_or(&p.or)),
        Term::Has(h) => FTerm::Has(path_segs(&h.path)),
        Term::Missing(m) => FTerm::Missing(path_segs(&m.path)),
        Term::Cmp(c) => FTerm::Cmp(
            path_segs(&c.path),
            match c.op {
                CmpOp::Eq => Op::Eq,
                CmpOp::NotEq => Op::Ne,
                CmpOp::LessThan => Op::Lt,
                CmpOp::LessThanEq => Op::Le,
                CmpOp::GreatThan => Op::Gt,
                CmpOp::GreatThanEq => Op::Ge,
            },
            project(&c.value),
        ),
        Term::WildcardEq(w) => FTerm::Wildcard(path_segs(&w.id), w.ref_value.value.clone(), w.ref_value.dis.clone()),
        Term::IsA(i) => FTerm::IsA(i.symbol.value.clone()),
        Term::Relation(r) => FTerm::Relation(r.rel.value.clone(), r.rel_term.as_ref().map(|s| s.value.clone()), r.ref_value.as_ref().map(|x| (x.value.clone(), x.dis.clone()))),
    }
}

// ---------------------------------------------------------------------------------------------
// reference printer

fn sp(ch: &mut rz::Ch, out: &mut String, required: bool) {
    let opts: &[&str] = if required { &[" ", "  ", "\t", "\n", " \n "] } else { &["", " ", "  ", "\n"] };
    out.push_str(opts[ch.pick(opts.len())]);
}

fn print_path(p: &[String], ch: &mut rz::Ch, out: &mut String) {
    for (i, s) in p.iter().enumerate() {
        if i > 0 {
            sp(ch, out, false);
            out.push_str("->");
            sp(ch, out, false);
        }
        out.push_str(s);
    }
}

fn print_literal(v: &RVal, ch: &mut rz::Ch, out: &mut String) {
    match v {
        RVal::Bool(b) => out.push_str(if *b { "true" } else { "false" }),
        other => rz::write_value(other, ch, out, false),
    }
}

fn print_ref(id: &str, dis: &Option<String>, ch: &mut rz::Ch, out: &mut String) {
    rz::write_value(&RVal::Ref(id.to_string(), dis.clone()), ch, out, false);
}

pub fn print_or(o: &FOr, ch: &mut rz::Ch, out: &mut String) {
    for (i, a) in o.0.iter().enumerate() {
        if i > 0 {
            sp(ch, out, true);
            out.push_str("or");
            sp(ch, out, true);
        }
        for (k, t) in a.0.iter().enumerate() {
            if k > 0 {
                sp(ch, out, true);
                out.push_str("and");
                sp(ch, out, true);
            }
            print_term(t, ch, out);
        }
    }
}

fn print_term(t: &FTerm, ch: &mut rz::Ch, out: &mut String) {
    match t {
        FTerm::Parens(o) => {
            out.push('(');
            sp(ch, out, false);
            print_or(o, ch, out);
            sp(ch, out, false);
            out.push(')');
        }
        FTerm::Has(p) => print_path(p, ch, out),
        FTerm::Missing(p) => {
            out.push_str("not");
            sp(ch, out, true);
            print_path(p, ch, out);
        }
        FTerm::Cmp(p, op, v) => {
            print_path(p, ch, out);
            sp(ch, out, false);
            out.push_str(op.text());
            sp(ch, out, false);
            print_literal(v, ch, out);
        }
        FTerm::Wildcard(p, id, dis) => {
            print_path(p, ch, out);
            sp(ch, out, false);
            out.push_str("*==");
            sp(ch, out, false);
            print_ref(id, dis, ch, out);
        }
        FTerm::IsA(s) => {
            out.push('^');
            out.push_str(s);
        }
        FTerm::Relation(r, term, rf) => {
            out.push_str(r);
            out.push('?');
            if let Some(t) = term {
                sp(ch, out, false);
                out.push('^');
                out.push_str(t);
            }
            if let Some((id, dis)) = rf {
                sp(ch, out, false);
                print_ref(id, dis, ch, out);
            }
        }
    }
}

pub fn print(o: &FOr, choices: &[u8]) -> (String, u32) {
    let mut ch = rz::Ch::new(choices);
    let mut s = String::new();
    // blanks before the first and after the last token are legal as well
    sp(&mut ch, &mut s, false);
    print_or(o, &mut ch, &mut s);
    sp(&mut ch, &mut s, false);
    (s, ch.nondefault)
}

// ---------------------------------------------------------------------------------------------
// strategies

pub const NAMES: [&str; 8] = ["a", "b", "c", "d", "site", "equipRef", "n1", "x_y"];

pub fn fname() -> BoxedStrategy<String> {
    // identifiers other than the keywords of the filter language
    prop_oneof![
        5 => prop::sample::select(NAMES.to_vec()).prop_map(String::from),
        1 => "[a-z][A-Za-z0-9_]{0,6}".prop_filter("keyword", |s| !["not", "and", "or", "true", "false"].contains(&s.as_str())),
    ]
    .boxed()
}

pub fn fpath() -> BoxedStrategy<Vec<String>> {
    prop_oneof![
        5 => fname().prop_map(|n| vec![n]),
        3 => prop::collection::vec(fname(), 2..=4),
    ]
    .boxed()
}

/// Literals of every kind the filter syntax admits.
pub fn literal() -> BoxedStrategy<RVal> {
    let cfg = GenCfg::wf(0);
    prop_oneof![
        2 => any::<bool>().prop_map(RVal::Bool),
        4 => prop_oneof![
            3 => (-50i32..50).prop_map(|i| RVal::num(i as f64)),
            2 => gv::finite_f64().prop_map(RVal::num),
            3 => (gv::finite_f64(), gv::unit_ids()).prop_map(|(f, u)| RVal::Num(f.to_bits(), Some(u))),
            2 => ((-5i32..5), prop::sample::select(vec![vec!["meter".to_string(), "m".to_string()], vec!["second".to_string(), "sec".to_string(), "s".to_string()]])).prop_map(|(i, u)| RVal::Num((i as f64).to_bits(), Some(u))),
        ],
        // now and then a long literal (127..12 289 bytes, with escapes and multi-byte characters at every offset)
        3 => prop_oneof![40 => gv::ustring(8), 1 => gv::long_text()].prop_map(RVal::Str),
        2 => prop::sample::select(vec!["x", "y", "", "abc"]).prop_map(|s| RVal::Str(s.to_string())),
        2 => gv::uri_string(8).prop_map(RVal::Uri),
        2 => gv::ref_id().prop_map(|i| RVal::Ref(i, None)),
        1 => (gv::ref_id(), prop_oneof![20 => gv::ustring(6), 1 => gv::long_text()]).prop_map(|(i, d)| RVal::Ref(i, Some(d))),
        2 => gv::symbol_name().prop_map(RVal::Symbol),
        2 => gv::date(cfg),
        2 => gv::time(),
        2 => gv::datetime(cfg),
    ]
    .boxed()
}

pub fn term_leaf(with_defs: bool) -> BoxedStrategy<FTerm> {
    let rf = || prop_oneof![2 => gv::ref_id().prop_map(|i| (i, None)), 1 => (gv::ref_id(), gv::ustring(5)).prop_map(|(i, d)| (i, Some(d)))];
    let base = prop_oneof![
        4 => fpath().prop_map(FTerm::Has),
        3 => fpath().prop_map(FTerm::Missing),
        10 => (fpath(), prop::sample::select(OPS.to_vec()), literal()).prop_map(|(p, o, v)| FTerm::Cmp(p, o, v)),
        2 => (fpath(), rf()).prop_map(|(p, (i, d))| FTerm::Wildcard(p, i, d)),
    ];
    if with_defs {
        prop_oneof![
            10 => base,
            1 => gv::symbol_name().prop_map(FTerm::IsA),
            1 => (fname(), prop::option::of(gv::symbol_name()), prop::option::of(rf())).prop_map(|(r, t, f)| FTerm::Relation(r, t, f)),
        ]
        .boxed()
    } else {
        base.boxed()
    }
}

pub fn filter_or(depth: u32, with_defs: bool) -> BoxedStrategy<FOr> {
    let leaf = term_leaf(with_defs);
    let or_of = |t: BoxedStrategy<FTerm>| prop::collection::vec(prop::collection::vec(t, 1..=3).prop_map(FAnd), 1..=3).prop_map(FOr);
    if depth == 0 {
        return or_of(leaf).boxed();
    }
    let term = leaf
        .prop_recursive(depth, 24, 3, move |inner| {
            prop_oneof![
                1 => prop::collection::vec(prop::collection::vec(inner.clone(), 1..=3).prop_map(FAnd), 1..=3).prop_map(|v| FTerm::Parens(FOr(v))),
            ]
        })
        .boxed();
    or_of(term).boxed()
}

// ---------------------------------------------------------------------------------------------
// reference evaluator (the statement of C07)

#[derive(Clone, Copy, Debug, PartialEq, Eq)]
pub enum Tri {
    True,
    False,
    /// the statement leaves this case open (Numbers with different units under < <= > >=)
    Open,
}

/// Resolve a path against a record: tags of dicts only (the `Dict` resolver).
pub fn resolve<'a>(rec: &'a RDict, path: &[String]) -> Option<&'a RVal> {
    let mut cur: &RVal = rec.get(&path[0])?;
    for seg in &path[1..] {
        match cur {
            RVal::Dict(d) => cur = d.get(seg)?,
            _ => return None,
        }
    }
    if matches!(cur, RVal::Null) {
        None
    } else {
        Some(cur)
    }
}

fn model_eq(a: &RVal, b: &RVal) -> bool {
    match (a, b) {
        (RVal::Ref(x, _), RVal::Ref(y, _)) => x == y,
        (RVal::DateTime(x), RVal::DateTime(y)) => x.secs == y.secs && x.nanos == y.nanos,
        (RVal::Num(x, ux), RVal::Num(y, uy)) => f64::from_bits(*x) == f64::from_bits(*y) && ux == uy,
        (RVal::Coord(a1, a2), RVal::Coord(b1, b2)) => f64::from_bits(*a1) == f64::from_bits(*b1) && f64::from_bits(*a2) == f64::from_bits(*b2),
        _ => a == b,
    }
}

/// Ordering of two values of the same kind; None = different kinds (or kind without order)
fn model_cmp(a: &RVal, b: &RVal) -> Result<Option<std::cmp::Ordering>, ()> {
    use std::cmp::Ordering;
    Ok(match (a, b) {
        (RVal::Num(x, ux), RVal::Num(y, uy)) => {
            if ux != uy {
                return Err(());
            }
            f64::from_bits(*x).partial_cmp(&f64::from_bits(*y))
        }
        (RVal::Str(x), RVal::Str(y)) => Some(x.cmp(y)),
        (RVal::Uri(x), RVal::Uri(y)) => Some(x.cmp(y)),
        (RVal::Symbol(x), RVal::Symbol(y)) => Some(x.cmp(y)),
        (RVal::Ref(x, _), RVal::Ref(y, _)) => Some(x.cmp(y)),
        (RVal::Bool(x), RVal::Bool(y)) => Some(x.cmp(y)),
        (RVal::Date(..), RVal::Date(..)) => {
            let k = |v: &RVal| match v {
                RVal::Date(y, m, d) => (*y, *m, *d),
                _ => unreachable!(),
            };
            Some(k(a).cmp(&k(b)))
        }
        (RVal::Time(..), RVal::Time(..)) => {
            let k = |v: &RVal| match v {
                RVal::Time(h, m, s, n) => (*h, *m, *s, *n),
                _ => unreachable!(),
            };
            Some(k(a).cmp(&k(b)))
        }
        (RVal::DateTime(x), RVal::DateTime(y)) => Some((x.secs, x.nanos).cmp(&(y.secs, y.nanos))),
        _ => {
            let _: Option<Ordering> = None;
            None
        }
    })
}

fn cmp_one(v: &RVal, op: Op, lit: &RVal) -> Tri {
    let b = |x: bool| if x { Tri::True } else { Tri::False };
    match op {
        Op::Eq => b(model_eq(v, lit)),
        Op::Ne => b(!model_eq(v, lit)),
        _ => {
            if v.kind() != lit.kind() {
                return Tri::False;
            }
            match model_cmp(v, lit) {
                Err(()) => Tri::Open,
                Ok(None) => Tri::False,
                Ok(Some(o)) => b(match op {
                    Op::Lt => o.is_lt(),
                    Op::Le => o.is_le(),
                    Op::Gt => o.is_gt(),
                    Op::Ge => o.is_ge(),
                    _ => unreachable!(),
                }),
            }
        }
    }
}

fn tri_or(items: impl Iterator<Item = Tri>) -> Tri {
    let mut open = false;
    for t in items {
        match t {
            Tri::True => return Tri::True,
            Tri::Open => open = true,
            Tri::False => {}
        }
    }
    if open {
        Tri::Open
    } else {
        Tri::False
    }
}

fn tri_and(items: impl Iterator<Item = Tri>) -> Tri {
    let mut open = false;
    for t in items {
        match t {
            Tri::False => return Tri::False,
            Tri::Open => open = true,
            Tri::True => {}
        }
    }
    if open {
        Tri::Open
    } else {
        Tri::True
    }
}

pub trait RefStore {
    fn record(&self, id: &str) -> Option<&RDict>;
}
pub struct NoRefs;
impl RefStore for NoRefs {
    fn record(&self, _id: &str) -> Option<&RDict> {
        None
    }
}

pub fn eval_or(o: &FOr, rec: &RDict, store: &dyn RefStore) -> Tri {
    tri_or(o.0.iter().map(|a| tri_and(a.0.iter().map(|t| eval_term(t, rec, store)))))
}

pub fn eval_term(t: &FTerm, rec: &RDict, store: &dyn RefStore) -> Tri {
    let b = |x: bool| if x { Tri::True } else { Tri::False };
    match t {
        FTerm::Parens(o) => eval_or(o, rec, store),
        FTerm::Has(p) => b(resolve(rec, p).is_some()),
        FTerm::Missing(p) => b(resolve(rec, p).is_none()),
        FTerm::Cmp(p, op, lit) => match resolve(rec, p) {
            None => Tri::False,
            Some(RVal::List(items)) => tri_or(items.iter().map(|e| cmp_one(e, *op, lit))),
            Some(v) => cmp_one(v, *op, lit),
        },
        FTerm::Wildcard(p, id, _) => {
            // follow the refs the path resolves to until the wanted one is met
            let mut seen: Vec<String> = vec![];
            let mut cur: Option<&RVal> = resolve(rec, p);
            loop {
                match cur {
                    Some(RVal::Ref(r, _)) => {
                        if r == id {
                            return Tri::True;
                        }
                        if seen.contains(r) {
                            return Tri::False;
                        }
                        seen.push(r.clone());
                        match store.record(r) {
                            Some(next) if !next.is_empty() => cur = resolve(next, p),
                            Some(_) => return Tri::False,
                            None => return Tri::False,
                        }
                    }
                    _ => return Tri::False,
                }
            }
        }
        // defs-dependent terms are decided by C13; with the empty default namespace nothing fits
        FTerm::IsA(_) => Tri::False,
        FTerm::Relation(..) => Tri::False,
    }
}
