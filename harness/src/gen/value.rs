//! Value generators (proptest strategies over `RVal`).

use crate::refimpl::zones::{self, T_MAX, T_MIN};
use crate::rval::*;
use proptest::collection::{btree_map, vec};
use proptest::prelude::*;
use proptest::strategy::BoxedStrategy;

#[derive(Clone, Copy, Debug)]
pub struct GenCfg {
    /// nesting depth of collections
    pub depth: u32,
    /// well-formed per the Haystack data model (C01) or any constructible value (C10/C12/C19)
    pub wf: bool,
    /// max chars of free strings
    pub max_str: usize,
    /// allow NaN
    pub nan: bool,
}

impl GenCfg {
    pub fn wf(depth: u32) -> GenCfg {
        GenCfg {
            depth,
            wf: true,
            max_str: 24,
            nan: true,
        }
    }
    pub fn any(depth: u32) -> GenCfg {
        GenCfg {
            depth,
            wf: false,
            max_str: 16,
            nan: true,
        }
    }
}

// ---------------------------------------------------------------------------------------------
// characters and strings

pub fn uchar() -> BoxedStrategy<char> {
    prop_oneof![
        10 => prop::char::range('a', 'z'),
        4 => prop::char::range(' ', '~'),
        2 => prop::char::range('\u{0}', '\u{1f}'),
        3 => prop::sample::select(vec!['"', '\\', '$', '\'', '`', '{', '}', '<', '>', ',', ':', '\n', '\r', '\t', '\u{8}', '\u{c}', '\u{b}', '\u{f}']),
        2 => prop::char::range('\u{7f}', '\u{ff}'),
        2 => prop::char::range('\u{100}', '\u{d7ff}'),
        1 => prop::sample::select(vec!['\u{ffff}', '\u{2028}', '\u{2029}', '\u{fffd}', '\u{feff}', '\u{e000}', '°', '€', 'µ', 'Ω']),
        2 => prop::char::range('\u{10000}', '\u{10ffff}'),
    ]
    .boxed()
}

/// lengths around the sizes at which buffers, inline strings and block writers usually change behaviour
pub fn long_len() -> BoxedStrategy<usize> {
    prop::sample::select(vec![127usize, 128, 129, 255, 256, 257, 511, 512, 513, 514, 600, 1023, 1024, 1025, 2049, 4097, 5000, 8193, 12_289]).boxed()
}

/// a long identifier: `first` followed by identifier characters up to one of the lengths above
pub fn long_ident(first: &'static str, rest: &'static str) -> BoxedStrategy<String> {
    (long_len(), any::<u16>())
        .prop_map(move |(n, salt)| {
            let rest: Vec<char> = rest.chars().collect();
            let mut s = String::from(first);
            let mut x = salt as usize;
            while s.len() < n {
                x = x.wrapping_mul(31).wrapping_add(7);
                s.push(rest[x % rest.len()]);
            }
            s
        })
        .boxed()
}

/// a long text: a short unit (ASCII, two-, three- and four-byte characters) repeated up to one of the lengths above (in bytes)
pub fn long_text() -> BoxedStrategy<String> {
    (long_len(), prop::sample::select(vec!["a", "ab ", "é", "日本", "\u{1F600}", "x\"y", "a\\", "$a ", "\n", "\u{1}", "\u{1}a", "ab\u{1f}é"]), 0usize..7)
        .prop_map(|(n, unit, lead)| {
            let mut s = "x".repeat(lead);
            while s.len() < n {
                s.push_str(unit);
            }
            s
        })
        .boxed()
}

pub fn ustring(max: usize) -> BoxedStrategy<String> {
    if max >= 16 {
        return prop_oneof![60 => ustring_short(max), 1 => long_text()].boxed();
    }
    ustring_short(max)
}

fn ustring_short(max: usize) -> BoxedStrategy<String> {
    prop_oneof![
        1 => prop::sample::select(vec!["a  b", " x ", "  ", "Main  Street", "a\u{a0}\u{a0}b", "tab\t\tx", "nl\n\nx", "a \u{2003} b", "  lead", "trail  ", "x\r\ny"]).prop_map(String::from),
        // strings that look like another encoding's scalars (Haystack 3 JSON type prefixes, Zinc literals, Hayson keys)
        1 => prop::sample::select(vec![
            "m:", "-:", "z:", "x:", "n:42", "n:42 kW", "n:-INF", "n:NaN", "r:abc", "r:abc Display Name", "y:sym", "u:http://x/", "d:2020-03-22", "h:12:30:00",
            "t:2020-03-22T12:30:00Z UTC", "s:plain text", "s:", "c:1.5,2.5", "b:text/plain:abc", "x:Type:value",
            "M", "N", "NA", "R", "T", "F", "NaN", "INF", "-INF", "@ref", "^sym", "`uri`", "2020-03-22", "12:30:00", "C(1,2)", "Bin(\"x\")", "[1]", "{a}", "<<>>", "ver:\"3.0\"",
            "_kind", "{\"_kind\":\"marker\"}", "null", "true", "1e5", "0x1F",
        ]).prop_map(String::from),
        8 => vec(uchar(), 0..=max.min(12)).prop_map(|v| v.into_iter().collect::<String>()),
        2 => vec(uchar(), 0..=max).prop_map(|v| v.into_iter().collect::<String>()),
        1 => Just(String::new()),
    ]
    .boxed()
}

/// Uri characters: anything >= U+0020 except DEL and C1 controls.
pub fn uri_char() -> BoxedStrategy<char> {
    prop_oneof![
        10 => prop::char::range('a', 'z'),
        5 => prop::sample::select(vec!['/', ':', '?', '#', '[', ']', '@', '&', '=', ';', '.', '-', '_', '%', '+', ' ']),
        4 => prop::char::range(' ', '~'),
        2 => prop::sample::select(vec!['`', '\\', '"', '$']),
        2 => prop::char::range('\u{a0}', '\u{ff}'),
        2 => prop::char::range('\u{100}', '\u{d7ff}'),
        1 => prop::sample::select(vec!['\u{ffff}', '\u{2028}', '\u{e000}', '€']),
        2 => prop::char::range('\u{10000}', '\u{10ffff}'),
    ]
    .boxed()
}

pub fn uri_string(max: usize) -> BoxedStrategy<String> {
    prop_oneof![
        1 => prop::sample::select(vec!["a  b", "http://x/a  b", " ", "  ", "x\u{a0}\u{a0}y"]).prop_map(String::from),
        12 => vec(uri_char(), 0..=max).prop_map(|v| v.into_iter().collect::<String>()),
    ]
    .boxed()
}

pub fn tag_name() -> BoxedStrategy<String> {
    prop_oneof![
        1 => long_ident("a", "abcdefghijklmnopqrstuvwxyzABCXYZ0189_"),
        90 => prop::sample::select(vec!["a", "b", "c", "dis", "id", "site", "val", "ver", "empty", "n", "m", "t", "f", "na", "inf", "nan", "e", "x1", "camelCase", "with_under", "z9_"]).prop_map(String::from),
        // names that mean something to Haystack itself (grids, records, defs, display, history)
        30 => prop::sample::select(vec![
            "err", "errTrace", "errType", "mod", "created", "deprecated", "name", "def", "tag", "navName", "disMacro", "disKey", "siteRef", "equipRef", "spaceRef", "point", "equip", "space",
            "tz", "unit", "kind", "curVal", "curStatus", "his", "hisEnd", "hisStart", "meta", "cols", "rows", "is", "lib", "doc", "mandatory", "notInherited", "transitive", "reciprocalOf", "tagOn", "of", "children",
            "incomplete", "more", "limit", "view", "action", "ts", "v0", "v1",
        ]).prop_map(String::from),
        60 => "[a-z][A-Za-z0-9_]{0,8}",
    ]
    .boxed()
}

pub fn ref_id() -> BoxedStrategy<String> {
    prop_oneof![
        1 => long_ident("p", "abcxyzABC019_:.~-"),
        60 => "[A-Za-z0-9_:.~-]{1,12}",
        20 => "[a-z][a-z0-9]{0,5}",
    ]
    .boxed()
}

pub fn symbol_name() -> BoxedStrategy<String> {
    prop_oneof![
        1 => long_ident("s", "abcxyzABC019_:.~-"),
        60 => "[a-z][A-Za-z0-9_:.~-]{0,10}",
        20 => "[a-z][a-z0-9]{0,5}",
    ]
    .boxed()
}

pub fn xstr_type() -> BoxedStrategy<String> {
    // "C" alone is the Coord constructor in Zinc, so it is not an XStr type
    prop_oneof![
        1 => long_ident("X", "abcxyzABC019_"),
        80 => "[A-Z][A-Za-z0-9_]{0,8}".prop_filter("C( is the coord literal", |s| s != "C"),
        // type names spelled like the upper-case keywords of the grammar (legal XStr types all the same)
        6 => prop::sample::select(vec!["M", "N", "NA", "R", "T", "F", "INF", "NaN", "Bin", "Coord", "Z", "UTC", "Inf", "Nan", "NA2", "INF_", "Str", "Number", "Grid"]).prop_map(String::from),
    ]
    .boxed()
}

// ---------------------------------------------------------------------------------------------
// numbers

pub fn finite_f64() -> BoxedStrategy<f64> {
    prop_oneof![
        6 => (-1000i32..1000).prop_map(|i| i as f64),
        3 => any::<i64>().prop_map(|i| i as f64),
        2 => (-64i64..64, prop::sample::select(vec![1u64 << 53, 1u64 << 63, 1u64 << 31, 1u64 << 32, u64::MAX])).prop_map(|(d, b)| (b as f64) + d as f64),
        2 => (-64i64..64, prop::sample::select(vec![1u64 << 53, 1u64 << 63])).prop_map(|(d, b)| -(b as f64) + d as f64),
        3 => (1u64..99_999_999_999_999_999, 0i32..20).prop_map(|(m, e)| (m as f64) / 10f64.powi(e)),
        3 => (any::<i32>(), 1u32..7).prop_map(|(m, e)| (m as f64) / 10f64.powi(e as i32)),
        2 => (1.0f64..10.0, -320i32..309).prop_map(|(m, e)| { let v = m * 10f64.powi(e); if v.is_finite() { v } else { f64::MAX } }),
        1 => prop::sample::select(vec![0.0, -0.0, f64::MIN_POSITIVE, f64::MAX, f64::MIN, 5e-324, 1e21, 1e22, 1.7976931348623157e308, 0.1, 0.3, 1.0/3.0, 123456789.123456789, 1e-7, 9007199254740993.0, 1e15, 1e16, 1e17]),
        3 => any::<u64>().prop_map(f64::from_bits).prop_filter("finite", |f| f.is_finite()),
        // doubles that are exactly a single-precision value (readings of 32-bit devices): 21.3f32 is not 21.3
        2 => prop_oneof![any::<f32>().prop_filter("finite", |f| f.is_finite()), (-4000i32..4000).prop_map(|i| i as f32 / 10.0), prop::sample::select(vec![21.3f32, 0.1, 0.2, 1e-10, 3.4e38, f32::EPSILON, 16_777_217.0, 72.5])].prop_map(|f| f as f64),
    ]
    .boxed()
}

pub fn unit_ids() -> BoxedStrategy<Vec<String>> {
    let n = unit_table().len();
    (0..n).prop_map(|i| unit_table()[i].1.ids.clone()).boxed()
}

/// A non-finite Number that carries a unit, bare or as the only element / tag of a list or dict. Zinc has no
/// spelling for it (so it is outside `GenCfg::wf`), Hayson has: `{"_kind":"number","val":"-INF","unit":"m"}`.
pub fn nonfinite_with_unit() -> BoxedStrategy<RVal> {
    let nf = prop::sample::select(vec![f64::NAN, f64::INFINITY, f64::NEG_INFINITY]);
    (nf, unit_ids(), 0..3u8)
        .prop_map(|(f, u, wrap)| {
            let n = RVal::Num(f.to_bits(), Some(u));
            match wrap {
                0 => n,
                1 => RVal::List(vec![RVal::Num(1f64.to_bits(), None), n]),
                _ => RVal::Dict([("val".to_string(), n)].into_iter().collect()),
            }
        })
        .boxed()
}

pub fn number(cfg: GenCfg) -> BoxedStrategy<RVal> {
    let nonfinite = if cfg.nan {
        // both signs of NaN: the sign bit of a NaN carries no meaning and must not turn it into -INF
        prop::sample::select(vec![f64::NAN, -f64::NAN, f64::from_bits(0xfff8_0000_0000_0001), f64::INFINITY, f64::NEG_INFINITY]).boxed()
    } else {
        prop::sample::select(vec![f64::INFINITY, f64::NEG_INFINITY]).boxed()
    };
    if cfg.wf {
        prop_oneof![
            10 => finite_f64().prop_map(|f| RVal::Num(f.to_bits(), None)),
            6 => (finite_f64(), unit_ids()).prop_map(|(f, u)| RVal::Num(f.to_bits(), Some(u))),
            1 => nonfinite.prop_map(|f| RVal::Num(f.to_bits(), None)),
        ]
        .boxed()
    } else {
        prop_oneof![
            10 => finite_f64().prop_map(|f| RVal::Num(f.to_bits(), None)),
            6 => (finite_f64(), unit_ids()).prop_map(|(f, u)| RVal::Num(f.to_bits(), Some(u))),
            1 => nonfinite.clone().prop_map(|f| RVal::Num(f.to_bits(), None)),
            1 => (nonfinite, unit_ids()).prop_map(|(f, u)| RVal::Num(f.to_bits(), Some(u))),
            // the default unit (no identifiers): `get_unit_or_default` hands it out for unknown names
            1 => finite_f64().prop_map(|f| RVal::Num(f.to_bits(), Some(vec![]))),
        ]
        .boxed()
    }
}

// ---------------------------------------------------------------------------------------------
// date / time / datetime / coord

fn days_in_month(y: i32, m: u32) -> u32 {
    match m {
        1 | 3 | 5 | 7 | 8 | 10 | 12 => 31,
        4 | 6 | 9 | 11 => 30,
        _ => {
            if (y % 4 == 0 && y % 100 != 0) || y % 400 == 0 {
                29
            } else {
                28
            }
        }
    }
}

pub fn date(cfg: GenCfg) -> BoxedStrategy<RVal> {
    let years = if cfg.wf {
        prop_oneof![
            6 => 1900i32..2100,
            2 => 0i32..=9999,
            1 => prop::sample::select(vec![0i32, 1, 9999, 1970, 2000, 2024]),
        ]
        .boxed()
    } else {
        prop_oneof![
            6 => 1900i32..2100,
            2 => 0i32..=9999,
            1 => -9999i32..=99999,
            1 => prop::sample::select(vec![-262143i32, 262142, -1, 10000]),
        ]
        .boxed()
    };
    (years, 1u32..=12, 0u32..31)
        .prop_map(|(y, m, d)| RVal::Date(y, m, 1 + d % days_in_month(y, m)))
        .boxed()
}

pub fn time() -> BoxedStrategy<RVal> {
    let frac = prop_oneof![
        4 => Just(0u32),
        3 => (0u32..1000).prop_map(|ms| ms * 1_000_000),
        2 => (0u32..1_000_000).prop_map(|us| us * 1000),
        2 => 0u32..1_000_000_000,
    ];
    // now and then a leap second: chrono holds it as second 59 with 1e9..2e9 nanoseconds and prints ..:60
    (0u32..24, 0u32..60, 0u32..60, frac, 0u8..40)
        .prop_map(|(h, m, s, n, leap)| if leap == 0 { RVal::Time(h, m, 59, 1_000_000_000 + n) } else { RVal::Time(h, m, s, n) })
        .boxed()
}

pub fn frac_nanos() -> BoxedStrategy<u32> {
    prop_oneof![
        4 => Just(0u32),
        3 => (0u32..1000).prop_map(|ms| ms * 1_000_000),
        2 => (0u32..1_000_000).prop_map(|us| us * 1000),
        2 => 0u32..1_000_000_000,
    ]
    .boxed()
}

/// (zone, instant) with the instant biased to the seconds around that zone's transitions.
pub fn datetime_in_scope() -> BoxedStrategy<RVal> {
    let zs = zones::in_scope_zones();
    let n = zs.len();
    (0..n, any::<u16>(), -7300i64..7300, T_MIN..T_MAX, 0u8..10, frac_nanos())
        .prop_map(move |(zi, ti, delta, free, mode, nanos)| {
            let z = zones::in_scope_zones()[zi];
            let secs = if mode < 6 && !z.transitions.is_empty() {
                let t = z.transitions[crate::runner::idx(ti, z.transitions.len())];
                let d = match mode {
                    0 => -1,
                    1 => 0,
                    2 => 1,
                    3 => -3600,
                    4 => 3600,
                    _ => delta,
                };
                (t + d).clamp(T_MIN, T_MAX - 1)
            } else {
                free
            };
            make_dt(z.id, secs, nanos)
        })
        .boxed()
}

pub fn make_dt(zone_id: &str, secs: i64, nanos: u32) -> RVal {
    let z = zones::zone_by_id(zone_id).expect("zone id");
    RVal::DateTime(RDt {
        secs,
        nanos,
        offset: zones::offset_at(&z.tz, secs),
        city: z.city.clone(),
        tz: z.id.to_string(),
    })
}

pub fn datetime(cfg: GenCfg) -> BoxedStrategy<RVal> {
    if cfg.wf {
        let n = zones::wide_scope_zones().len();
        prop_oneof![
            10 => datetime_in_scope(),
            4 => (T_MIN..T_MAX, frac_nanos()).prop_map(|(s, n)| make_dt("UTC", s, n)),
            // the whole range of four digit years, incl. local mean time offsets with seconds before standard time
            1 => (0..n, zones::T_WIDE_MIN..zones::T_WIDE_MAX, frac_nanos()).prop_map(|(zi, s, n)| make_dt(zones::wide_scope_zones()[zi].id, s, n)),
            1 => (0..n, -5_000_000_000i64..T_MIN, frac_nanos()).prop_map(|(zi, s, n)| make_dt(zones::wide_scope_zones()[zi].id, s, n)),
            // the first and the last day of the four-digit-year range *in local time* of the zone
            1 => (0..n, any::<bool>(), 0i64..86_400, frac_nanos()).prop_map(|(zi, low, d, n)| {
                const LOCAL_MIN: i64 = -62_167_219_200; // 0000-01-01T00:00:00
                const LOCAL_MAX: i64 = 253_402_300_799; // 9999-12-31T23:59:59
                let z = zones::wide_scope_zones()[zi];
                let local = if low { LOCAL_MIN + d } else { LOCAL_MAX - d };
                let guess = zones::offset_at(&z.tz, local) as i64;
                let secs = local - zones::offset_at(&z.tz, local - guess) as i64;
                // keep the *written* local date (offset rounded to minutes) inside the range
                let written = secs + zones::written_offset(zones::offset_at(&z.tz, secs)) as i64;
                if (LOCAL_MIN..=LOCAL_MAX).contains(&written) {
                    make_dt(z.id, secs, n)
                } else {
                    make_dt(z.id, if low { LOCAL_MIN + 100_000 } else { LOCAL_MAX - 100_000 }, n)
                }
            }),
        ]
        .boxed()
    } else {
        // any zone, wide instants (chrono's extremes are a separate labelled class in C10)
        let n = zones::zones().len();
        prop_oneof![
            5 => datetime_in_scope(),
            2 => (T_MIN..T_MAX, frac_nanos()).prop_map(|(s, n)| make_dt("UTC", s, n)),
            2 => (0..n, -62_135_596_800i64..253_402_300_799, frac_nanos()).prop_map(|(zi, s, n)| make_dt(zones::zones()[zi].id, s, n)),
        ]
        .boxed()
    }
}

pub fn coord(cfg: GenCfg) -> BoxedStrategy<RVal> {
    let lat = prop_oneof![
        5 => (-90_000_000i32..=90_000_000).prop_map(|i| i as f64 / 1e6),
        2 => -90.0f64..=90.0,
        1 => prop::sample::select(vec![0.0, -0.0, 90.0, -90.0, 1e-7, -1e-7, 45.0, 5e-324]),
    ];
    let lng = prop_oneof![
        5 => (-180_000_000i32..=180_000_000).prop_map(|i| i as f64 / 1e6),
        2 => -180.0f64..=180.0,
        1 => prop::sample::select(vec![0.0, -0.0, 180.0, -180.0, 1e-7, -1e-7, 1e-10]),
    ];
    if cfg.wf {
        (lat, lng).prop_map(|(a, b)| RVal::Coord(a.to_bits(), b.to_bits())).boxed()
    } else {
        prop_oneof![
            6 => (lat, lng).prop_map(|(a, b)| RVal::Coord(a.to_bits(), b.to_bits())),
            2 => (finite_f64(), finite_f64()).prop_map(|(a, b)| RVal::Coord(a.to_bits(), b.to_bits())),
            1 => (prop::sample::select(vec![f64::INFINITY, f64::NEG_INFINITY, 1e300]), finite_f64()).prop_map(|(a, b)| RVal::Coord(a.to_bits(), b.to_bits())),
        ]
        .boxed()
    }
}

// ---------------------------------------------------------------------------------------------
// scalars

pub fn scalar(cfg: GenCfg) -> BoxedStrategy<RVal> {
    let s = cfg.max_str;
    if cfg.wf {
        prop_oneof![
            1 => Just(RVal::Null),
            1 => Just(RVal::Marker),
            1 => Just(RVal::Remove),
            1 => Just(RVal::Na),
            2 => any::<bool>().prop_map(RVal::Bool),
            6 => number(cfg),
            5 => ustring(s).prop_map(RVal::Str),
            4 => uri_string(s).prop_map(RVal::Uri),
            2 => ref_id().prop_map(|i| RVal::Ref(i, None)),
            3 => (ref_id(), ustring(s)).prop_map(|(i, d)| RVal::Ref(i, Some(d))),
            2 => symbol_name().prop_map(RVal::Symbol),
            2 => date(cfg),
            2 => time(),
            4 => datetime(cfg),
            2 => coord(cfg),
            3 => (xstr_type(), ustring(s)).prop_map(|(t, v)| RVal::XStr(t, v)),
        ]
        .boxed()
    } else {
        prop_oneof![
            1 => Just(RVal::Null),
            1 => Just(RVal::Marker),
            1 => Just(RVal::Remove),
            1 => Just(RVal::Na),
            2 => any::<bool>().prop_map(RVal::Bool),
            6 => number(cfg),
            5 => ustring(s).prop_map(RVal::Str),
            4 => ustring(s).prop_map(RVal::Uri),
            2 => ustring(8).prop_map(|i| RVal::Ref(i, None)),
            3 => (prop_oneof![ref_id(), ustring(8)], ustring(s)).prop_map(|(i, d)| RVal::Ref(i, Some(d))),
            2 => prop_oneof![symbol_name(), ustring(8)].prop_map(RVal::Symbol),
            2 => date(cfg),
            2 => time(),
            4 => datetime(cfg),
            2 => coord(cfg),
            3 => (prop_oneof![xstr_type(), ustring(6)], ustring(s)).prop_map(|(t, v)| RVal::XStr(t, v)),
        ]
        .boxed()
    }
}

pub fn name(cfg: GenCfg) -> BoxedStrategy<String> {
    if cfg.wf {
        tag_name()
    } else {
        prop_oneof![3 => tag_name(), 1 => ustring(6)].boxed()
    }
}

pub fn dict_of(cfg: GenCfg, inner: BoxedStrategy<RVal>, max: usize) -> BoxedStrategy<RDict> {
    btree_map(name(cfg), inner, 0..=max).boxed()
}

#[derive(Clone, Debug)]
enum Cell {
    Missing,
    Null,
    Val(RVal),
}

pub fn grid_of(cfg: GenCfg, inner: BoxedStrategy<RVal>) -> BoxedStrategy<RGrid> {
    let col_meta = prop_oneof![
        8 => Just(None),
        2 => Just(Some(RDict::new())),
        6 => dict_of(cfg, inner.clone(), 3).prop_map(Some),
        // column meta as history / point grids carry it: a unit, a zone, a kind, a display name - as plain strings
        1 => prop::collection::btree_map(
            prop::sample::select(vec!["unit", "tz", "kind", "dis", "id", "ver"]).prop_map(String::from),
            prop::sample::select(vec!["kW", "°F", "m", "%", "New_York", "UTC", "Number", "Str", "3.0", "x"]).prop_map(|s| RVal::Str(s.to_string())),
            1..3
        )
        .prop_map(Some),
    ];
    let min_cols = if cfg.wf { 1 } else { 0 };
    let cols = btree_map(name(cfg), col_meta, min_cols..=5).prop_shuffle_cols();
    let meta = prop_oneof![
        12 => Just(None),
        4 => Just(Some(RDict::new())),
        12 => dict_of(cfg, inner.clone(), 3).prop_map(Some),
        // the format's own reserved word as an ordinary meta tag, with the very values the format uses for it
        1 => (dict_of(cfg, inner.clone(), 2), prop::sample::select(vec!["3.0", "2.0", "3.0 "])).prop_map(|(mut d, v)| {
            d.insert("ver".into(), RVal::Str(v.into()));
            Some(d)
        }),
    ];
    let cell = prop_oneof![
        2 => Just(Cell::Missing),
        1 => Just(Cell::Null),
        6 => inner.clone().prop_map(Cell::Val),
    ];
    let rows = vec(vec(cell, 5), 0..=5);
    let extra = if cfg.wf {
        Just(Vec::<(String, RVal)>::new()).boxed()
    } else {
        vec((name(cfg), inner), 0..=2).boxed()
    };
    (cols, meta, rows, extra)
        .prop_map(|(cols, meta, rows, extra)| {
            let rows: Vec<RDict> = rows
                .into_iter()
                .enumerate()
                .map(|(ri, cells)| {
                    let mut d = RDict::new();
                    for (c, cell) in cols.iter().zip(cells.into_iter()) {
                        match cell {
                            Cell::Missing => {}
                            Cell::Null => {
                                d.insert(c.name.clone(), RVal::Null);
                            }
                            Cell::Val(v) => {
                                d.insert(c.name.clone(), v);
                            }
                        }
                    }
                    if ri == 0 {
                        for (k, v) in &extra {
                            d.insert(k.clone(), v.clone());
                        }
                    }
                    d
                })
                .collect();
            RGrid { meta, cols, rows }
        })
        .boxed()
}

trait ShuffleCols {
    fn prop_shuffle_cols(self) -> BoxedStrategy<Vec<RCol>>;
}
impl<S: Strategy<Value = std::collections::BTreeMap<String, Option<RDict>>> + 'static> ShuffleCols for S {
    fn prop_shuffle_cols(self) -> BoxedStrategy<Vec<RCol>> {
        // unique names by construction (map keys); order decided by a generated rotation + reversal
        (self, any::<u16>(), any::<bool>())
            .prop_map(|(m, rot, rev)| {
                let mut v: Vec<RCol> = m.into_iter().map(|(name, meta)| RCol { name, meta }).collect();
                if !v.is_empty() {
                    let r = crate::runner::idx(rot, v.len());
                    v.rotate_left(r);
                }
                if rev {
                    v.reverse();
                }
                v
            })
            .boxed()
    }
}

/// The main recursive value strategy.
pub fn value(cfg: GenCfg) -> BoxedStrategy<RVal> {
    let leaf = scalar(cfg);
    if cfg.depth == 0 {
        return leaf;
    }
    leaf.prop_recursive(cfg.depth, 48, 6, move |inner| {
        prop_oneof![
            3 => vec(inner.clone(), 0..=5).prop_map(RVal::List),
            3 => dict_of(cfg, inner.clone(), 6).prop_map(RVal::Dict),
            3 => grid_of(cfg, inner.clone()).prop_map(RVal::Grid),
        ]
    })
    .boxed()
}

/// Values whose top level is spread over all 18 kinds (so that collections are not rare at the top).
pub fn top_value(cfg: GenCfg) -> BoxedStrategy<RVal> {
    let inner = value(GenCfg {
        depth: cfg.depth.saturating_sub(1),
        ..cfg
    });
    prop_oneof![
        6 => scalar(cfg),
        2 => vec(inner.clone(), 0..=5).prop_map(RVal::List),
        2 => dict_of(cfg, inner.clone(), 6).prop_map(RVal::Dict),
        4 => grid_of(cfg, inner).prop_map(RVal::Grid),
    ]
    .boxed()
}

/// Deep spines (C10): a chain of `depth` nested collections built directly.
pub fn spine(cfg: GenCfg, depth: usize) -> BoxedStrategy<RVal> {
    (vec(0u8..3, depth), scalar(cfg))
        .prop_map(|(shape, leaf)| {
            let mut v = leaf;
            for s in shape {
                v = match s {
                    0 => RVal::List(vec![v]),
                    1 => {
                        let mut d = RDict::new();
                        d.insert("a".into(), v);
                        RVal::Dict(d)
                    }
                    _ => {
                        let mut d = RDict::new();
                        d.insert("a".into(), v);
                        RVal::Grid(RGrid {
                            meta: None,
                            cols: vec![RCol {
                                name: "a".into(),
                                meta: None,
                            }],
                            rows: vec![d],
                        })
                    }
                };
            }
            v
        })
        .boxed()
}
