//! Hand-written decoder from fuzzer bytes (arbitrary::Unstructured) to well-formed values:
//! the structured layer of the coverage-guided target `zinc_value`.

use crate::refimpl::zones;
use crate::rval::*;
use arbitrary::Unstructured;

fn name(u: &mut Unstructured) -> arbitrary::Result<String> {
    let n = u.int_in_range(1..=5)?;
    let mut s = String::new();
    s.push((b'a' + u.int_in_range(0..=25u8)?) as char);
    for _ in 1..n {
        let c = *u.choose(b"abcXYZ019_")?;
        s.push(c as char);
    }
    Ok(s)
}

fn text(u: &mut Unstructured) -> arbitrary::Result<String> {
    let n = u.int_in_range(0..=8)?;
    let mut s = String::new();
    for _ in 0..n {
        let c = match u.int_in_range(0..=7u8)? {
            0 => *u.choose(&['"', '\\', '$', '`', '\n', '\r', '\t', '\u{8}', '\u{c}', '\u{0}', '\u{1f}', '\u{7f}', ' ', ' '])?,
            1 => char::from_u32(u.int_in_range(0x80..=0x2fffu32)?).unwrap_or('é'),
            2 => char::from_u32(u.int_in_range(0x10000..=0x10ffffu32)?).unwrap_or('𐀀'),
            _ => (b' ' + u.int_in_range(0..=94u8)?) as char,
        };
        s.push(c);
    }
    Ok(s)
}

pub fn value(u: &mut Unstructured, depth: u32) -> arbitrary::Result<RVal> {
    let max = if depth == 0 { 14 } else { 17 };
    Ok(match u.int_in_range(0..=max)? {
        0 => RVal::Null,
        1 => RVal::Marker,
        2 => RVal::Remove,
        3 => RVal::Na,
        4 => RVal::Bool(u.arbitrary()?),
        5 => {
            let f = match u.int_in_range(0..=3u8)? {
                0 => u.int_in_range(-1000i64..=1000)? as f64,
                1 => *u.choose(&[0.0, -0.0, f64::MAX, f64::MIN_POSITIVE, 5e-324, 1e21, 9.223372036854776e18, 1.8446744073709552e19, f64::NAN, f64::INFINITY, f64::NEG_INFINITY])?,
                _ => f64::from_bits(u.arbitrary::<u64>()?),
            };
            let table = unit_table();
            let unit = if f.is_finite() && u.ratio(1, 3)? { Some(table[u.int_in_range(0..=table.len() - 1)?].1.ids.clone()) } else { None };
            RVal::Num(f.to_bits(), unit)
        }
        6 => RVal::Str(text(u)?),
        7 => RVal::Uri(text(u)?.chars().filter(|c| (*c as u32) >= 0x20 && !(0x7f..0xa0).contains(&(*c as u32))).collect()),
        8 => RVal::Ref(name(u)?, if u.ratio(1, 2)? { Some(text(u)?) } else { None }),
        9 => RVal::Symbol(name(u)?),
        10 => RVal::Date(u.int_in_range(0..=9999)?, u.int_in_range(1..=12)?, u.int_in_range(1..=28)?),
        11 => RVal::Time(u.int_in_range(0..=23)?, u.int_in_range(0..=59)?, u.int_in_range(0..=59)?, *u.choose(&[0u32, 1, 1000, 1_000_000, 123_456_789, 999_999_999, 500_000_000])?),
        12 => {
            let zs = zones::in_scope_zones();
            let z = zs[u.int_in_range(0..=zs.len() - 1)?];
            let secs = if !z.transitions.is_empty() && u.ratio(1, 2)? {
                let t = z.transitions[u.int_in_range(0..=z.transitions.len() - 1)?];
                (t + u.int_in_range(-3700i64..=3700)?).clamp(zones::T_MIN, zones::T_MAX - 1)
            } else {
                u.int_in_range(zones::T_MIN..=zones::T_MAX - 1)?
            };
            crate::gen::value::make_dt(z.id, secs, *u.choose(&[0u32, 1, 1000, 1_000_000, 123_456_789, 999_999_999])?)
        }
        13 => RVal::Coord((u.int_in_range(-90_000_000..=90_000_000i32)? as f64 / 1e6).to_bits(), (u.int_in_range(-180_000_000..=180_000_000i32)? as f64 / 1e6).to_bits()),
        14 => {
            let mut t = name(u)?;
            t[..1].make_ascii_uppercase();
            if t == "C" {
                t.push('x');
            }
            RVal::XStr(t, text(u)?)
        }
        15 => {
            let n = u.int_in_range(0..=4)?;
            RVal::List((0..n).map(|_| value(u, depth - 1)).collect::<arbitrary::Result<_>>()?)
        }
        16 => {
            let n = u.int_in_range(0..=4)?;
            let mut d = RDict::new();
            for _ in 0..n {
                d.insert(name(u)?, value(u, depth - 1)?);
            }
            RVal::Dict(d)
        }
        _ => {
            let ncols = u.int_in_range(1..=3)?;
            let mut cols: Vec<RCol> = vec![];
            for _ in 0..ncols {
                let n = name(u)?;
                if cols.iter().any(|c| c.name == n) {
                    continue;
                }
                let meta = if u.ratio(1, 3)? {
                    let mut m = RDict::new();
                    m.insert(name(u)?, value(u, depth - 1)?);
                    Some(m)
                } else {
                    None
                };
                cols.push(RCol { name: n, meta });
            }
            let meta = if u.ratio(1, 3)? {
                let mut m = RDict::new();
                m.insert(name(u)?, value(u, depth - 1)?);
                Some(m)
            } else {
                None
            };
            let nrows = u.int_in_range(0..=3)?;
            let mut rows = vec![];
            for _ in 0..nrows {
                let mut r = RDict::new();
                for c in &cols {
                    if u.ratio(2, 3)? {
                        r.insert(c.name.clone(), value(u, depth - 1)?);
                    }
                }
                rows.push(r);
            }
            RVal::Grid(RGrid { meta, cols, rows })
        }
    })
}

/// (value, spelling choices) from raw fuzzer bytes
pub fn value_and_choices(data: &[u8]) -> Option<(RVal, Vec<u8>)> {
    let mut u = Unstructured::new(data);
    let v = value(&mut u, 3).ok()?;
    let n = u.len().min(48);
    let choices: Vec<u8> = u.bytes(n).map(|b| b.to_vec()).unwrap_or_default();
    Some((v, choices))
}
