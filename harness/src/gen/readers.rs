//! Readers that deliver bytes in generated chunk sizes, interleave `Interrupted`, fail with an
//! I/O error at a generated offset, and count what was consumed (for the laziness oracle).

use proptest::prelude::*;
use serde_json::{json, Value as J};
use std::cell::Cell;
use std::io::{Error, ErrorKind, Read};
use std::rc::Rc;

#[derive(Clone, Debug, Default)]
pub struct ReaderPlan {
    /// chunk sizes, used cyclically (0 = one byte)
    pub chunks: Vec<u8>,
    /// every n-th read() call returns ErrorKind::Interrupted first (0 = never)
    pub interrupt_every: u8,
    /// fail with an I/O error once `fail_at` bytes were delivered
    pub fail_at: Option<u32>,
    /// keep failing on every later call (else fail once, then continue)
    pub fail_forever: bool,
    /// a reader that times out now and then: once `fail_at` bytes (or none) were delivered, every n-th
    /// read() call fails without consuming anything and the next call works again (0 = off)
    pub fail_every: u8,
    /// which io::ErrorKind the fault carries (0 Other, 1 TimedOut, 2 WouldBlock, 3 BrokenPipe, 4 UnexpectedEof, 5 InvalidData, 6 ConnectionReset)
    pub fault_kind: u8,
}

pub fn fault_kind(k: u8) -> ErrorKind {
    match k % 7 {
        0 => ErrorKind::Other,
        1 => ErrorKind::TimedOut,
        2 => ErrorKind::WouldBlock,
        3 => ErrorKind::BrokenPipe,
        4 => ErrorKind::UnexpectedEof,
        5 => ErrorKind::InvalidData,
        _ => ErrorKind::ConnectionReset,
    }
}

impl ReaderPlan {
    pub fn to_json(&self) -> J {
        json!({"chunks": self.chunks, "interrupt_every": self.interrupt_every, "fail_at": self.fail_at, "fail_forever": self.fail_forever, "fail_every": self.fail_every, "fault_kind": self.fault_kind})
    }
    pub fn from_json(j: &J) -> ReaderPlan {
        ReaderPlan {
            chunks: j["chunks"].as_array().map(|a| a.iter().map(|x| x.as_u64().unwrap_or(0) as u8).collect()).unwrap_or_default(),
            interrupt_every: j["interrupt_every"].as_u64().unwrap_or(0) as u8,
            fail_at: j["fail_at"].as_u64().map(|x| x as u32),
            fail_forever: j["fail_forever"].as_bool().unwrap_or(false),
            fail_every: j["fail_every"].as_u64().unwrap_or(0) as u8,
            fault_kind: j["fault_kind"].as_u64().unwrap_or(0) as u8,
        }
    }
    pub fn splits(&self) -> bool {
        !self.chunks.is_empty() || self.interrupt_every > 0
    }
}

pub fn plan(with_faults: bool) -> BoxedStrategy<ReaderPlan> {
    let chunks = prop_oneof![
        2 => Just(vec![]),
        2 => Just(vec![1u8]),
        3 => prop::collection::vec(0u8..=64, 1..6),
    ];
    let intr = prop_oneof![3 => Just(0u8), 2 => 1u8..6];
    let fail = if with_faults {
        prop_oneof![3 => Just(None), 2 => (0u32..600).prop_map(Some)].boxed()
    } else {
        Just(None).boxed()
    };
    let every = if with_faults { prop_oneof![3 => Just(0u8), 1 => 2u8..6].boxed() } else { Just(0u8).boxed() };
    (chunks, intr, fail, any::<bool>(), every, 0u8..7)
        .prop_map(|(chunks, interrupt_every, fail_at, fail_forever, fail_every, fault_kind)| ReaderPlan {
            chunks,
            interrupt_every,
            fail_at,
            fail_forever,
            fail_every,
            fault_kind,
        })
        .boxed()
}

pub struct PlanReader<'a> {
    data: &'a [u8],
    pos: usize,
    plan: &'a ReaderPlan,
    calls: u64,
    chunk_i: usize,
    failed_once: bool,
    flaky_calls: u64,
    interrupted_last: bool,
    /// total bytes handed out so far
    pub consumed: Rc<Cell<usize>>,
    /// refuse to deliver bytes at or beyond this offset (tripwire for the laziness oracle)
    pub tripwire: Option<usize>,
    pub tripped: Rc<Cell<bool>>,
}

impl<'a> PlanReader<'a> {
    pub fn new(data: &'a [u8], plan: &'a ReaderPlan) -> PlanReader<'a> {
        PlanReader {
            data,
            pos: 0,
            plan,
            calls: 0,
            chunk_i: 0,
            failed_once: false,
            flaky_calls: 0,
            interrupted_last: false,
            consumed: Rc::new(Cell::new(0)),
            tripwire: None,
            tripped: Rc::new(Cell::new(false)),
        }
    }
}

impl Read for PlanReader<'_> {
    fn read(&mut self, buf: &mut [u8]) -> std::io::Result<usize> {
        self.calls += 1;
        if buf.is_empty() {
            return Ok(0);
        }
        if self.plan.interrupt_every > 0 && !self.interrupted_last && self.calls % (self.plan.interrupt_every as u64 + 1) == 0 {
            self.interrupted_last = true;
            return Err(Error::new(ErrorKind::Interrupted, "interrupted (generated)"));
        }
        self.interrupted_last = false;
        if self.plan.fail_every > 0 {
            if self.pos >= self.plan.fail_at.unwrap_or(0) as usize {
                self.flaky_calls += 1;
                if self.flaky_calls % self.plan.fail_every as u64 == 0 {
                    return Err(Error::new(ErrorKind::TimedOut, "generated read timeout"));
                }
            }
        } else if let Some(at) = self.plan.fail_at {
            if self.pos >= at as usize && (self.plan.fail_forever || !self.failed_once) {
                self.failed_once = true;
                return Err(Error::new(fault_kind(self.plan.fault_kind), "generated I/O fault"));
            }
        }
        if self.pos >= self.data.len() {
            return Ok(0);
        }
        let mut n = if self.plan.chunks.is_empty() {
            buf.len()
        } else {
            let c = self.plan.chunks[self.chunk_i % self.plan.chunks.len()] as usize;
            self.chunk_i += 1;
            c.max(1)
        };
        n = n.min(buf.len()).min(self.data.len() - self.pos);
        if let Some(at) = self.plan.fail_at {
            // never run past the fault offset within one chunk
            if self.pos < at as usize {
                n = n.min(at as usize - self.pos).max(1);
            }
        }
        if let Some(t) = self.tripwire {
            if self.pos >= t {
                self.tripped.set(true);
                return Err(Error::new(ErrorKind::Other, "tripwire: read beyond the permitted offset"));
            }
            n = n.min(t - self.pos).max(1);
        }
        buf[..n].copy_from_slice(&self.data[self.pos..self.pos + n]);
        self.pos += n;
        self.consumed.set(self.pos);
        Ok(n)
    }
}
