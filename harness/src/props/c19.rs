//! C19 — Kinds, typed accessors and grid construction are coherent.

use super::common::*;
use crate::gen::value::{dict_of, name, top_value, value, GenCfg};
use crate::runner::{bx, guarded, key_of, panic_sig, Case, Ctx, Rec, Verdict};
use crate::rval::*;
use libhaystack::val::kind::HaystackKind;
use libhaystack::val::*;
use proptest::prelude::*;
use serde_json::{json, Value as J};
use std::collections::BTreeSet;

const KIND_ENUM: [HaystackKind; 18] = [
    HaystackKind::Null,
    HaystackKind::Remove,
    HaystackKind::Marker,
    HaystackKind::Na,
    HaystackKind::Bool,
    HaystackKind::Number,
    HaystackKind::Str,
    HaystackKind::Uri,
    HaystackKind::Ref,
    HaystackKind::Symbol,
    HaystackKind::Date,
    HaystackKind::Time,
    HaystackKind::DateTime,
    HaystackKind::Coord,
    HaystackKind::XStr,
    HaystackKind::List,
    HaystackKind::Dict,
    HaystackKind::Grid,
];

fn kind_name(k: HaystackKind) -> &'static str {
    // the Haystack kind names (spec), independent of the library's tables
    match k {
        HaystackKind::Null => "null",
        HaystackKind::Remove => "remove",
        HaystackKind::Marker => "marker",
        HaystackKind::Na => "na",
        HaystackKind::Bool => "bool",
        HaystackKind::Number => "number",
        HaystackKind::Str => "str",
        HaystackKind::Uri => "uri",
        HaystackKind::Ref => "ref",
        HaystackKind::Symbol => "symbol",
        HaystackKind::Date => "date",
        HaystackKind::Time => "time",
        HaystackKind::DateTime => "dateTime",
        HaystackKind::Coord => "coord",
        HaystackKind::XStr => "xstr",
        HaystackKind::List => "list",
        HaystackKind::Dict => "dict",
        HaystackKind::Grid => "grid",
    }
}

/// Exhaustive: 18 kinds x 256 codes x names.
fn enumerate_kinds(ctx: &mut Ctx) {
    let mut evals = 0u64;
    let mut fail = |ctx: &mut Ctx, sig: &str, msg: String| {
        ctx.report("kinds-exhaustive", Verdict::fail(format!("C19:kinds:{sig}"), msg), json!({"what": sig}));
    };
    // codes: exactly 18 u8 codes map to a kind, and back to themselves
    let mut seen_codes = BTreeSet::new();
    let mut by_code = 0;
    for code in 0u16..=255 {
        let code = code as u8;
        evals += 1;
        match HaystackKind::try_from(code) {
            Ok(k) => {
                by_code += 1;
                if k as u8 != code {
                    fail(ctx, "code-roundtrip", format!("try_from({code}) = {k:?} whose code is {}", k as u8));
                }
                if !KIND_ENUM.contains(&k) {
                    fail(ctx, "unknown-kind", format!("{k:?}"));
                }
                seen_codes.insert(k as u8);
            }
            Err(_) => {
                if KIND_ENUM.iter().any(|k| *k as u8 == code) {
                    fail(ctx, "code-rejected", format!("code {code} of a kind is rejected by try_from(u8)"));
                }
            }
        }
    }
    if by_code != 18 || seen_codes.len() != 18 {
        fail(ctx, "code-count", format!("{by_code} codes accepted, {} distinct kinds", seen_codes.len()));
    }
    // names
    let mut names = BTreeSet::new();
    for k in KIND_ENUM {
        evals += 1;
        let n: &'static str = k.into();
        names.insert(n);
        if n != kind_name(k) {
            fail(ctx, "name", format!("{k:?} is named {n:?}, expected {:?}", kind_name(k)));
        }
        if k.to_string() != n {
            fail(ctx, "display-vs-name", format!("{k:?}: Display {:?} vs name {n:?}", k.to_string()));
        }
        match HaystackKind::try_from(n) {
            Ok(back) if back == k => {}
            other => fail(ctx, "name-roundtrip", format!("try_from({n:?}) = {other:?}, expected {k:?}")),
        }
        match HaystackKind::try_from(k as u8) {
            Ok(back) if back == k => {}
            other => fail(ctx, "code-of-kind", format!("try_from({}) = {other:?}, expected {k:?}", k as u8)),
        }
        for k2 in KIND_ENUM {
            evals += 1;
            if k != k2 && (k as u8 == k2 as u8) {
                fail(ctx, "shared-code", format!("{k:?} and {k2:?} share code {}", k as u8));
            }
        }
    }
    if names.len() != 18 {
        fail(ctx, "name-count", format!("{} distinct names", names.len()));
    }
    // near-miss names are rejected
    for k in KIND_ENUM {
        let n = kind_name(k);
        for cand in [n.to_uppercase(), format!("{n} "), format!(" {n}"), format!("{n}s"), n[..n.len() - 1].to_string(), String::new(), n.to_lowercase()] {
            evals += 1;
            let expect_ok = KIND_ENUM.iter().any(|k| kind_name(*k) == cand);
            let got = HaystackKind::try_from(cand.as_str());
            if got.is_ok() != expect_ok {
                fail(ctx, "near-miss-name", format!("try_from({cand:?}) = {got:?}"));
            }
        }
    }
    ctx.rec.evals += evals;
    ctx.rec.class_n("kinds-exhaustive-checks", evals);
    for k in KIND_ENUM {
        ctx.rec.nontrivial(key_of(&format!("kind:{k:?}")));
    }
}

fn predicates(v: &Value) -> [bool; 18] {
    [
        v.is_null(),
        v.is_remove(),
        v.is_marker(),
        v.is_na(),
        v.is_bool(),
        v.is_number(),
        v.is_str(),
        v.is_uri(),
        v.is_ref(),
        v.is_symbol(),
        v.is_date(),
        v.is_time(),
        v.is_datetime(),
        v.is_coord(),
        v.is_xstr(),
        v.is_list(),
        v.is_dict(),
        v.is_grid(),
    ]
}

fn check_value(v: &RVal, rec: &mut Rec) -> Verdict {
    let hv = build(v);
    rec.class(&format!("top:{}", v.kind()));
    if !matches!(v, RVal::Null) {
        rec.nontrivial(key_of(&format!("{v:?}")));
    }
    rec.sample(|| render(v));
    let r = guarded(|| -> Verdict {
        let preds = predicates(&hv);
        let n_true = preds.iter().filter(|b| **b).count();
        if n_true != 1 {
            return Verdict::fail(format!("C19:predicates:{}-true:{}", n_true, v.kind()), format!("{n_true} kind predicates hold for {}", render(v)));
        }
        let which = preds.iter().position(|b| *b).unwrap();
        let k = HaystackKind::from(&hv);
        if KIND_ENUM[which] != k {
            return Verdict::fail(format!("C19:kind-vs-predicate:{}", v.kind()), format!("HaystackKind::from says {k:?}, predicate #{which} ({:?}) holds", KIND_ENUM[which]));
        }
        if kind_name(k) != v.kind() {
            return Verdict::fail(format!("C19:kind-of-value:{}", v.kind()), format!("a {} value reports kind {k:?}", v.kind()));
        }
        if hv.has_value() == hv.is_null() {
            return Verdict::fail("C19:has_value", "has_value() must be !is_null()");
        }
        // typed conversions: succeed exactly for the matching kind and return the stored payload
        macro_rules! conv {
            ($T:ty, $kind:expr, $wrap:expr) => {{
                let r = <$T>::try_from(&hv);
                let expect = v.kind() == $kind;
                if r.is_ok() != expect {
                    return Verdict::fail(
                        format!("C19:try_from:{}:{}", stringify!($T), v.kind()),
                        format!("{}::try_from(&{}) is_ok={} expected {}", stringify!($T), v.kind(), r.is_ok(), expect),
                    );
                }
                if let Ok(x) = r {
                    let back: Value = $wrap(x);
                    let d = diff(v, &project(&back));
                    if !d.diffs.is_empty() || d.zero_sign > 0 {
                        return Verdict::fail(
                            format!("C19:try_from-payload:{}", stringify!($T)),
                            format!("{}::try_from returned a different payload for {}: {:?}", stringify!($T), render(v), d.diffs.first()),
                        );
                    }
                }
            }};
        }
        conv!(Bool, "bool", |x: Bool| Value::Bool(x));
        conv!(bool, "bool", |x: bool| Value::make_bool(x));
        conv!(Number, "number", |x: Number| Value::Number(x));
        conv!(Str, "str", |x: Str| Value::Str(x));
        conv!(String, "str", |x: String| Value::make_str(&x));
        conv!(Uri, "uri", |x: Uri| Value::Uri(x));
        conv!(Ref, "ref", |x: Ref| Value::Ref(x));
        conv!(Symbol, "symbol", |x: Symbol| Value::Symbol(x));
        conv!(Date, "date", |x: Date| Value::Date(x));
        conv!(Time, "time", |x: Time| Value::Time(x));
        conv!(DateTime, "dateTime", |x: DateTime| Value::DateTime(x));
        conv!(Coord, "coord", |x: Coord| Value::Coord(x));
        conv!(XStr, "xstr", |x: XStr| Value::XStr(x));
        conv!(List, "list", |x: List| Value::List(x));
        conv!(Dict, "dict", |x: Dict| Value::Dict(x));
        conv!(Grid, "grid", |x: Grid| Value::Grid(x));
        conv!(Marker, "marker", |_x: Marker| Value::Marker);
        conv!(Na, "na", |_x: Na| Value::Na);
        conv!(Remove, "remove", |_x: Remove| Value::Remove);
        {
            let r = f64::try_from(&hv);
            if r.is_ok() != (v.kind() == "number") {
                return Verdict::fail(format!("C19:try_from:f64:{}", v.kind()), "f64::try_from");
            }
            if let (Ok(x), RVal::Num(bits, _)) = (r, v) {
                if x.to_bits() != *bits {
                    return Verdict::fail("C19:try_from-payload:f64", format!("{x:?}"));
                }
            }
        }
        Verdict::Pass
    });
    match r {
        Ok(v) => v,
        Err(p) => Verdict::fail(format!("C19:{}", panic_sig(&p)), format!("panicked: {} at {}", p.msg, p.location)),
    }
}

#[derive(Clone, Debug)]
pub struct DictKeys {
    dict: RDict,
    extra_keys: Vec<String>,
}
impl Case for DictKeys {
    fn to_json(&self) -> J {
        json!({"dict": to_json(&RVal::Dict(self.dict.clone())), "keys": self.extra_keys})
    }
    fn from_json(j: &J) -> Result<Self, String> {
        let d = match from_json(&j["dict"])? {
            RVal::Dict(d) => d,
            _ => return Err("dict".into()),
        };
        Ok(DictKeys {
            dict: d,
            extra_keys: j["keys"].as_array().map(|a| a.iter().filter_map(|x| x.as_str().map(String::from)).collect()).unwrap_or_default(),
        })
    }
}

fn check_dict_getters(c: &DictKeys, rec: &mut Rec) -> Verdict {
    let d = build_dict(&c.dict);
    let mut keys: Vec<String> = c.dict.keys().cloned().collect();
    keys.extend(c.extra_keys.iter().cloned());
    if c.dict.len() >= 2 {
        rec.nontrivial(key_of(&format!("{:?}{:?}", c.dict, c.extra_keys)));
    }
    rec.sample(|| format!("{} keys {:?}", render(&RVal::Dict(c.dict.clone())), c.extra_keys));
    let r = guarded(|| -> Verdict {
        for k in &keys {
            let stored = c.dict.get(k);
            let kind = stored.map(|v| v.kind());
            rec.class(match kind {
                Some(_) => "getter:key-present",
                None => "getter:key-absent",
            });
            if d.has(k) != stored.is_some() || d.missing(k) == stored.is_some() {
                return Verdict::fail("C19:dict:has/missing", format!("key {k:?}"));
            }
            macro_rules! getter {
                ($get:ident, $kind:expr, $wrap:expr) => {{
                    let got = d.$get(k);
                    let expect = kind == Some($kind);
                    if got.is_some() != expect {
                        return Verdict::fail(
                            format!("C19:dict:{}:{}", stringify!($get), kind.unwrap_or("absent")),
                            format!("{}({k:?}) is_some={} but the stored value is {:?}", stringify!($get), got.is_some(), kind),
                        );
                    }
                    if let Some(x) = got {
                        let back: Value = $wrap(x.clone());
                        let di = diff(stored.unwrap(), &project(&back));
                        if !di.diffs.is_empty() || di.zero_sign > 0 {
                            return Verdict::fail(format!("C19:dict:{}:payload", stringify!($get)), format!("{:?}", di.diffs.first()));
                        }
                    }
                }};
            }
            getter!(get_bool, "bool", |x: Bool| Value::Bool(x));
            getter!(get_num, "number", |x: Number| Value::Number(x));
            getter!(get_str, "str", |x: Str| Value::Str(x));
            getter!(get_xstr, "xstr", |x: XStr| Value::XStr(x));
            getter!(get_ref, "ref", |x: Ref| Value::Ref(x));
            getter!(get_uri, "uri", |x: Uri| Value::Uri(x));
            getter!(get_symbol, "symbol", |x: Symbol| Value::Symbol(x));
            getter!(get_date, "date", |x: Date| Value::Date(x));
            getter!(get_time, "time", |x: Time| Value::Time(x));
            getter!(get_date_time, "dateTime", |x: DateTime| Value::DateTime(x));
            getter!(get_coord, "coord", |x: Coord| Value::Coord(x));
            getter!(get_dict, "dict", |x: Dict| Value::Dict(x));
            getter!(get_list, "list", |x: List| Value::List(x));
            getter!(get_grid, "grid", |x: Grid| Value::Grid(x));
            if d.has_marker(k) != (kind == Some("marker")) {
                return Verdict::fail(format!("C19:dict:has_marker:{}", kind.unwrap_or("absent")), format!("key {k:?}"));
            }
            if d.has_na(k) != (kind == Some("na")) {
                return Verdict::fail(format!("C19:dict:has_na:{}", kind.unwrap_or("absent")), format!("key {k:?}"));
            }
            if d.has_remove(k) != (kind == Some("remove")) {
                return Verdict::fail(format!("C19:dict:has_remove:{}", kind.unwrap_or("absent")), format!("key {k:?}"));
            }
        }
        // id / ts conveniences
        let id_expect = matches!(c.dict.get("id"), Some(RVal::Ref(..)));
        if d.id().is_some() != id_expect {
            return Verdict::fail("C19:dict:id", "id()");
        }
        match (c.dict.get("id"), d.safe_id()) {
            (Some(RVal::Ref(i, dis)), r) if &r.value != i || &r.dis != dis => {
                return Verdict::fail("C19:dict:safe_id", format!("safe_id() returns @{} {:?}, the stored id is @{i} {dis:?}", r.value, r.dis))
            }
            (other, r) if !matches!(other, Some(RVal::Ref(..))) && r.value != Ref::default().value => {
                return Verdict::fail("C19:dict:safe_id-default", "safe_id() default")
            }
            _ => {}
        }
        if d.ts().is_some() != matches!(c.dict.get("mod"), Some(RVal::DateTime(_))) {
            return Verdict::fail("C19:dict:ts", "ts()");
        }
        Verdict::Pass
    });
    match r {
        Ok(v) => v,
        Err(p) => Verdict::fail(format!("C19:dict:{}", panic_sig(&p)), format!("panicked: {} at {}", p.msg, p.location)),
    }
}

#[derive(Clone, Debug)]
pub struct Rows {
    rows: Vec<RDict>,
    meta: Option<RDict>,
}
impl Case for Rows {
    fn to_json(&self) -> J {
        json!({"rows": self.rows.iter().map(|r| to_json(&RVal::Dict(r.clone()))).collect::<Vec<_>>(), "meta": self.meta.as_ref().map(|m| to_json(&RVal::Dict(m.clone())))})
    }
    fn from_json(j: &J) -> Result<Self, String> {
        let mut rows = vec![];
        for r in j["rows"].as_array().ok_or("rows")? {
            match from_json(r)? {
                RVal::Dict(d) => rows.push(d),
                _ => return Err("row".into()),
            }
        }
        let meta = if j["meta"].is_null() {
            None
        } else {
            match from_json(&j["meta"])? {
                RVal::Dict(d) => Some(d),
                _ => return Err("meta".into()),
            }
        };
        Ok(Rows { rows, meta })
    }
}

fn check_grid_from_rows(c: &Rows, rec: &mut Rec) -> Verdict {
    let rows: Vec<Dict> = c.rows.iter().map(build_dict).collect();
    let keysets: BTreeSet<Vec<&String>> = c.rows.iter().map(|r| r.keys().collect()).collect();
    if c.rows.len() >= 2 && keysets.len() >= 2 {
        rec.nontrivial(key_of(&format!("{c:?}")));
        rec.class("grid:rows-with-different-key-sets");
    }
    rec.class(&format!("grid:rows={}", c.rows.len().min(6)));
    rec.sample(|| format!("{:?}", c.rows.iter().map(|r| r.keys().cloned().collect::<Vec<_>>()).collect::<Vec<_>>()));
    let r = guarded(|| -> Verdict {
        let g = match &c.meta {
            None => Grid::make_from_dicts(rows.clone()),
            Some(m) => Grid::make_from_dicts_with_meta(rows.clone(), build_dict(m)),
        };
        let pg = project_grid(&g);
        // rows preserved in order, exactly
        if pg.rows != c.rows {
            return Verdict::fail("C19:grid-from-rows:rows", format!("rows differ: {:?} vs {:?}", pg.rows.len(), c.rows.len()));
        }
        let expect: Vec<String> = c.rows.iter().flat_map(|r| r.keys().cloned()).collect::<BTreeSet<_>>().into_iter().collect();
        let got: Vec<String> = pg.cols.iter().map(|c| c.name.clone()).collect();
        if got != expect {
            return Verdict::fail("C19:grid-from-rows:columns", format!("columns {got:?}, expected sorted distinct union {expect:?}"));
        }
        if pg.cols.iter().any(|c| c.meta.is_some()) {
            return Verdict::fail("C19:grid-from-rows:col-meta", "columns must have no meta");
        }
        match (&c.meta, &pg.meta) {
            (None, None) => {}
            (Some(a), Some(b)) if a == b => {}
            (a, b) => return Verdict::fail("C19:grid-from-rows:meta", format!("meta {b:?} vs {a:?}")),
        }
        if g.len() != c.rows.len() || g.is_empty() != c.rows.is_empty() {
            return Verdict::fail("C19:grid-from-rows:len", "len/is_empty");
        }
        for (i, r) in c.rows.iter().enumerate() {
            if project(&Value::Dict(g[i].clone())) != RVal::Dict(r.clone()) {
                return Verdict::fail("C19:grid-from-rows:index", format!("grid[{i}]"));
            }
        }
        let iterated: Vec<RVal> = (&g).into_iter().map(|d| project(&Value::Dict(d.clone()))).collect();
        if iterated.len() != c.rows.len() {
            return Verdict::fail("C19:grid-from-rows:iter", "iteration count");
        }
        // the rows in order, however the grid's row iterator is driven (nth, skip, step_by, last, rev where offered)
        {
            let n = g.rows.len();
            let j = if n == 0 { 0 } else { (key_of(&format!("{:?}", c.rows.len())) as usize + n / 2) % n };
            let same = |it: Vec<&Dict>, want: Vec<&Dict>| it.len() == want.len() && it.iter().zip(want.iter()).all(|(a, b)| std::ptr::eq(*a, *b));
            let all: Vec<&Dict> = g.rows.iter().collect();
            if !same((&g).into_iter().skip(j).collect(), all.iter().skip(j).copied().collect()) {
                return Verdict::fail("C19:grid-from-rows:iter-skip", format!("(&g).into_iter().skip({j}) does not yield rows {j}.. of {n}"));
            }
            if !same((&g).into_iter().step_by(2).collect(), all.iter().step_by(2).copied().collect()) {
                return Verdict::fail("C19:grid-from-rows:iter-step_by", format!("(&g).into_iter().step_by(2) over {n} rows"));
            }
            let mut it = (&g).into_iter();
            let a = it.nth(j);
            let b = it.next();
            if a.map(|x| x as *const Dict) != all.get(j).map(|x| *x as *const Dict) || b.map(|x| x as *const Dict) != all.get(j + 1).map(|x| *x as *const Dict) {
                return Verdict::fail("C19:grid-from-rows:iter-nth", format!("nth({j}) then next() over {n} rows"));
            }
            if (&g).into_iter().last().map(|x| x as *const Dict) != all.last().map(|x| *x as *const Dict) || (&g).into_iter().count() != n {
                return Verdict::fail("C19:grid-from-rows:iter-last/count", format!("{n} rows"));
            }
        }
        // the same through the Value constructor
        if let Value::Grid(g2) = Value::make_grid_from_dicts(rows.clone()) {
            if project_grid(&g2).cols.iter().map(|c| c.name.clone()).collect::<Vec<_>>() != expect {
                return Verdict::fail("C19:grid-from-rows:value-ctor", "Value::make_grid_from_dicts columns");
            }
        } else {
            return Verdict::fail("C19:grid-from-rows:value-ctor-kind", "not a grid");
        }
        Verdict::Pass
    });
    match r {
        Ok(v) => v,
        Err(p) => Verdict::fail(format!("C19:grid-from-rows:{}", panic_sig(&p)), format!("panicked: {} at {}", p.msg, p.location)),
    }
}

pub fn run(ctx: &mut Ctx) {
    ctx.rule("exhaustive: 18 kinds x 256 u8 codes x kind names (+ near-miss names): code/name/Display/try_from form a bijection on exactly 18; generated: any constructible value: exactly one of 18 is_* predicates, HaystackKind::from agrees, each TryFrom<&Value> succeeds iff the kind matches and returns the stored payload; dicts with present/absent/wrong-kind keys through every HaystackDict getter; lists of records through Grid::make_from_dicts(_with_meta): rows kept in order - also as seen through the grid's row iterator driven by nth / skip / step_by / last / count -, columns = sorted distinct union of keys (record sets of up to ~90 distinct tag names included); non-trivial: value not Null / dict with >= 2 tags / >= 2 rows with different key sets; distinct by Debug");
    enumerate_kinds(ctx);
    let depth = ctx.tier.pick(2, 3) as u32;
    let total = ctx.tier.pick(160_000, 3_200_000);
    ctx.run_sub::<RVal>("value-kinds", total, &move || top_value(GenCfg::any(depth)), &check_value);
    let total2 = ctx.tier.pick(80_000, 1_600_000);
    ctx.run_sub::<DictKeys>(
        "dict-getters",
        total2,
        &|| {
            let cfg = GenCfg::any(1);
            let special = prop_oneof![name(cfg), prop::sample::select(vec!["id".to_string(), "mod".to_string()])];
            bx((
                prop::collection::btree_map(special, value(cfg), 0..=8),
                prop::collection::vec(name(cfg), 0..=3),
            )
                .prop_map(|(dict, extra_keys)| DictKeys { dict, extra_keys }))
        },
        &check_dict_getters,
    );
    ctx.run_sub::<Rows>(
        "grid-from-rows",
        total2,
        &|| {
            let cfg = GenCfg::any(1);
            // wide record sets: many rows sharing and not sharing tags from a pool of 20-90 names (unions of 30+, 60+ columns)
            let wide = (20usize..90, prop::collection::vec(prop::collection::vec((any::<u16>(), 0u8..4), 1..50), 1..6)).prop_map(|(pool, rows)| {
                rows.into_iter()
                    .map(|tags| {
                        tags.into_iter()
                            .map(|(t, v)| {
                                let name = format!("t{}", crate::runner::idx(t, pool));
                                let val = match v {
                                    0 => RVal::Marker,
                                    1 => RVal::num(t as f64),
                                    2 => RVal::Str(name.clone()),
                                    _ => RVal::Null,
                                };
                                (name, val)
                            })
                            .collect::<RDict>()
                    })
                    .collect::<Vec<RDict>>()
            });
            bx((
                prop_oneof![
                    12 => prop::collection::vec(dict_of(cfg, value(cfg), 5), 0..=6),
                    1 => wide.clone(),
                    // the same wide rows twice over (every name is met again after all names were seen once)
                    1 => wide.prop_map(|r| r.iter().chain(r.iter()).cloned().collect::<Vec<RDict>>()),
                ],
                prop_oneof![
                    4 => Just(None),
                    4 => dict_of(cfg, value(cfg), 3).prop_map(Some),
                    // meta as real grids carry it: markers and values under the names Haystack gives grid-level meaning to
                    2 => prop::collection::btree_map(
                        prop::sample::select(vec!["err", "errTrace", "errType", "incomplete", "more", "ver", "dis", "id", "hisStart", "hisEnd", "limit", "view", "mod", "empty"]).prop_map(String::from),
                        prop_oneof![3 => Just(RVal::Marker), 1 => Just(RVal::Str("x".into())), 1 => Just(RVal::num(1.0)), 1 => Just(RVal::Bool(true))],
                        1..4
                    )
                    .prop_map(Some),
                ],
            )
                .prop_map(|(rows, meta)| Rows { rows, meta }))
        },
        &check_grid_from_rows,
    );
}

pub fn replay(kind: &str, case: &J, rec: &mut Rec) -> Verdict {
    match kind {
        "value-kinds" => RVal::from_json(case).map(|v| check_value(&v, rec)).unwrap_or_else(|e| Verdict::fail("infra:bad-replay", e)),
        "dict-getters" => DictKeys::from_json(case).map(|v| check_dict_getters(&v, rec)).unwrap_or_else(|e| Verdict::fail("infra:bad-replay", e)),
        "grid-from-rows" => Rows::from_json(case).map(|v| check_grid_from_rows(&v, rec)).unwrap_or_else(|e| Verdict::fail("infra:bad-replay", e)),
        _ => Verdict::fail("infra:unknown-kind", kind),
    }
}
