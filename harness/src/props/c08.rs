//! C08 — Filter text and filter tree correspond: print-then-parse is the identity.

use super::common::*;
use crate::gen::filter::*;
use crate::runner::{bx, guarded, key_of, panic_sig, Case, Ctx, Rec, Verdict};
use crate::rval::*;
use libhaystack::filter::nodes::*;
use libhaystack::filter::Filter;
use proptest::prelude::*;
use serde_json::{json, Value as J};

#[derive(Clone, Debug)]
pub struct TCase {
    pub filter: FOr,
    pub choices: Vec<u8>,
}
impl Case for TCase {
    fn to_json(&self) -> J {
        json!({"filter": or_json(&self.filter), "text": print(&self.filter, &self.choices).0, "choices": self.choices})
    }
    fn from_json(j: &J) -> Result<Self, String> {
        Ok(TCase {
            filter: or_from_json(&j["filter"])?,
            choices: j["choices"].as_array().map(|a| a.iter().map(|x| x.as_u64().unwrap_or(0) as u8).collect()).unwrap_or_default(),
        })
    }
}

/// structural comparison; `strict_refs` = also compare the display names of *== / relation refs
fn same_tree(a: &FOr, b: &FOr, strict_refs: bool) -> Result<(), String> {
    if a.0.len() != b.0.len() {
        return Err(format!("'or' has {} operands vs {}", a.0.len(), b.0.len()));
    }
    for (x, y) in a.0.iter().zip(b.0.iter()) {
        if x.0.len() != y.0.len() {
            return Err(format!("'and' has {} terms vs {}", x.0.len(), y.0.len()));
        }
        for (s, t) in x.0.iter().zip(y.0.iter()) {
            match (s, t) {
                (FTerm::Parens(p), FTerm::Parens(q)) => same_tree(p, q, strict_refs)?,
                (FTerm::Has(p), FTerm::Has(q)) | (FTerm::Missing(p), FTerm::Missing(q)) => {
                    if p != q {
                        return Err(format!("path {p:?} vs {q:?}"));
                    }
                }
                (FTerm::Cmp(p, o, v), FTerm::Cmp(q, o2, w)) => {
                    if p != q {
                        return Err(format!("path {p:?} vs {q:?}"));
                    }
                    if o != o2 {
                        return Err(format!("operator {} vs {}", o.text(), o2.text()));
                    }
                    let d = diff(v, w);
                    if let Some(x) = d.diffs.first() {
                        return Err(format!("literal: {} {}", x.code, x.detail));
                    }
                }
                (FTerm::Wildcard(p, i, d), FTerm::Wildcard(q, j, e)) => {
                    if p != q || i != j || (strict_refs && d != e) {
                        return Err(format!("wildcard {p:?} @{i} {d:?} vs {q:?} @{j} {e:?}"));
                    }
                }
                (FTerm::IsA(x), FTerm::IsA(y)) => {
                    if x != y {
                        return Err(format!("^{x} vs ^{y}"));
                    }
                }
                (FTerm::Relation(r, t, f), FTerm::Relation(r2, t2, f2)) => {
                    let ids = |x: &Option<(String, Option<String>)>| x.as_ref().map(|(i, _)| i.clone());
                    if r != r2 || t != t2 || ids(f) != ids(f2) || (strict_refs && f != f2) {
                        return Err(format!("relation {r}? {t:?} {f:?} vs {r2}? {t2:?} {f2:?}"));
                    }
                }
                (s, t) => return Err(format!("term kind differs: {s:?} vs {t:?}")),
            }
        }
    }
    Ok(())
}

#[derive(Default)]
struct Recorder(Vec<String>);
impl Visitor for Recorder {
    fn visit_cond_or(&mut self, node: &Or) {
        self.0.push(format!("or/{}", node.ands.len()));
        for a in &node.ands {
            a.accept_visitor(self);
        }
    }
    fn visit_cond_and(&mut self, node: &And) {
        self.0.push(format!("and/{}", node.terms.len()));
        for t in &node.terms {
            t.accept_visitor(self);
        }
    }
    fn visit_parens(&mut self, node: &Parens) {
        self.0.push("parens".into());
        node.or.accept_visitor(self);
    }
    fn visit_has(&mut self, node: &Has) {
        self.0.push(format!("has:{}", node.path));
    }
    fn visit_missing(&mut self, node: &Missing) {
        self.0.push(format!("missing:{}", node.path));
    }
    fn visit_is_a(&mut self, node: &IsA) {
        self.0.push(format!("isa:{}", node.symbol.value));
    }
    fn visit_wildcard_equals(&mut self, node: &WildcardEq) {
        self.0.push(format!("wildcard:{}:{}", node.id, node.ref_value.value));
    }
    fn visit_relation(&mut self, node: &Relation) {
        self.0.push(format!("rel:{}", node.rel.value));
    }
    fn visit_cmp(&mut self, node: &Cmp) {
        self.0.push(format!("cmp:{}:{:?}", node.path, node.op));
    }
}

fn expected_visit(o: &FOr, out: &mut Vec<String>) {
    out.push(format!("or/{}", o.0.len()));
    for a in &o.0 {
        out.push(format!("and/{}", a.0.len()));
        for t in &a.0 {
            match t {
                FTerm::Parens(p) => {
                    out.push("parens".into());
                    expected_visit(p, out);
                }
                FTerm::Has(p) => out.push(format!("has:{}", p.join("->"))),
                FTerm::Missing(p) => out.push(format!("missing:{}", p.join("->"))),
                FTerm::IsA(s) => out.push(format!("isa:{s}")),
                FTerm::Wildcard(p, i, _) => out.push(format!("wildcard:{}:{i}", p.join("->"))),
                FTerm::Relation(r, ..) => out.push(format!("rel:{r}")),
                FTerm::Cmp(p, op, _) => out.push(format!(
                    "cmp:{}:{}",
                    p.join("->"),
                    match op {
                        Op::Eq => "Eq",
                        Op::Ne => "NotEq",
                        Op::Lt => "LessThan",
                        Op::Le => "LessThanEq",
                        Op::Gt => "GreatThan",
                        Op::Ge => "GreatThanEq",
                    }
                )),
            }
        }
    }
}

fn shape_of(f: &FOr) -> String {
    let mut k: Vec<String> = vec![];
    f.walk(&mut |t| {
        let s = match t {
            FTerm::Parens(_) => "parens".to_string(),
            FTerm::Has(p) => format!("has{}", if p.len() > 1 { "->" } else { "" }),
            FTerm::Missing(p) => format!("not{}", if p.len() > 1 { "->" } else { "" }),
            FTerm::Cmp(p, _, v) => format!("cmp{}:{}", if p.len() > 1 { "->" } else { "" }, v.kind()),
            FTerm::Wildcard(..) => "*==".to_string(),
            FTerm::IsA(_) => "isa".to_string(),
            FTerm::Relation(..) => "rel".to_string(),
        };
        if !k.contains(&s) && k.len() < 3 {
            k.push(s);
        }
    });
    if f.term_count() > 1 {
        k.push("multi".into());
    }
    k.join(",")
}

pub fn check_case(c: &TCase, rec: &mut Rec) -> Verdict {
    let t = &c.filter;
    let sh = shape_of(t);
    let mut needs = false;
    t.walk(&mut |x| match x {
        FTerm::Has(p) | FTerm::Missing(p) => needs |= p.len() > 1,
        FTerm::Cmp(p, _, v) => {
            needs |= p.len() > 1;
            needs |= match v {
                RVal::Str(s) => s.chars().any(|c| c == '"' || c == '\\' || c == '$' || (c as u32) < 0x20),
                RVal::Num(_, u) => u.is_some(),
                RVal::DateTime(d) => d.tz != "UTC",
                RVal::Ref(_, d) => d.is_some(),
                _ => false,
            };
            rec.class(&format!("literal:{}", v.kind()));
        }
        _ => {}
    });
    if t.term_count() >= 2 {
        needs = true;
    }
    rec.class(&format!("terms:{}", match t.term_count() { n @ 0..=8 => n.to_string(), 9..=39 => "9-39".into(), 40..=256 => "40-256".into(), _ => ">256".into() }));
    rec.class(&format!("paren-depth:{}", t.depth().min(4)));
    let r = guarded(|| -> Verdict {
        // 1. print (library Display) -> parse gives an equal tree
        let lib = to_lib(t);
        let text = lib.to_string();
        if needs {
            rec.nontrivial(key_of(&text));
        }
        rec.sample(|| format!("{text}"));
        // a parse that fails must leave nothing behind on this thread: cut the text at a generated position and
        // inside its first string literal / display name, have both prefixes rejected (or accepted), then go on
        let cut = |at: usize| -> &str {
            let mut at = at.min(text.len());
            while !text.is_char_boundary(at) {
                at -= 1;
            }
            &text[..at]
        };
        let at = c.choices.first().map_or(0, |b| (*b as usize * (text.len() + 1)) >> 8);
        let mut rejected = 0;
        if Filter::try_from(cut(at)).is_err() {
            rejected += 1;
        }
        if let Some(q) = text.find('"') {
            if Filter::try_from(cut(q + 3)).is_err() {
                rejected += 1;
            }
            if Filter::try_from(format!("{}\\q", cut(q + 2)).as_str()).is_err() {
                rejected += 1;
            }
        }
        if rejected > 0 {
            rec.class("preceded-by-a-rejected-parse-on-the-same-thread");
        }
        let parsed = match Filter::try_from(text.as_str()) {
            Ok(f) => f,
            Err(e) => return Verdict::fail(format!("C08:print-parse:rejected:{sh}"), format!("printed filter `{text}` does not parse: {e}")),
        };
        if let Err(why) = same_tree(t, &from_lib_or(&parsed.or), false) {
            return Verdict::fail(format!("C08:print-parse:tree-differs:{sh}"), format!("`{text}` parses to a different tree: {why}; reparsed prints as `{parsed}`"));
        }
        // 3. a second round trip still gives the same tree (compared as trees: the spelling of e.g. a UTC alias may be normalised)
        let again = parsed.to_string();
        match Filter::try_from(again.as_str()) {
            Ok(f3) => {
                if let Err(why) = same_tree(t, &from_lib_or(&f3.or), false) {
                    return Verdict::fail(format!("C08:print-parse:second-round-differs:{sh}"), format!("`{text}` -> `{again}` parses to a different tree: {why}"));
                }
            }
            Err(e) => return Verdict::fail(format!("C08:print-parse:second-round-rejected:{sh}"), format!("`{again}` (re-printed from `{text}`) does not parse: {e}")),
        }
        // 2. well-formed text with any legal spacing parses to the prescribed tree
        let (spaced, nondefault) = print(t, &c.choices);
        if nondefault > 0 {
            rec.class("spacing:non-default");
        }
        let parsed2 = match Filter::try_from(spaced.as_str()) {
            Ok(f) => f,
            Err(e) => return Verdict::fail(format!("C08:parse:rejected:{sh}"), format!("well-formed filter text {spaced:?} does not parse: {e}")),
        };
        if let Err(why) = same_tree(t, &from_lib_or(&parsed2.or), true) {
            return Verdict::fail(format!("C08:parse:tree-differs:{sh}"), format!("{spaced:?} parses to a different tree: {why}; it prints as `{parsed2}`"));
        }
        // visitor order
        let mut got = Recorder::default();
        parsed2.accept_visitor(&mut got);
        let mut want = vec![];
        expected_visit(t, &mut want);
        if got.0 != want {
            return Verdict::fail(format!("C08:visitor-order:{sh}"), format!("visitor saw {:?}, the tree is {:?}", got.0, want));
        }
        // PartialEq of the library's own tree agrees
        if parsed != parsed2 && same_tree(&from_lib_or(&parsed.or), &from_lib_or(&parsed2.or), true).is_ok() {
            return Verdict::fail(format!("C08:filter-eq:{sh}"), format!("two parses of equivalent text are not == : `{parsed}` vs `{parsed2}`"));
        }
        Verdict::Pass
    });
    match r {
        Ok(v) => v,
        Err(p) => Verdict::fail(format!("C08:{}:{sh}", panic_sig(&p)), format!("panicked: {} at {}", p.msg, p.location)),
    }
}

pub fn tcase(depth: u32) -> BoxedStrategy<TCase> {
    bx((filter_or(depth, true), super::c04::choices()).prop_map(|(filter, choices)| TCase { filter, choices }))
}

/// wide filters: many sibling terms and parenthesised groups in one filter (hundreds to ~1000), flat or one level down.
/// (Seeded change C08-c: a nesting counter that is never decremented counts *all* groups of a filter.)
pub fn wide_tcase() -> BoxedStrategy<TCase> {
    let n = prop_oneof![4 => 2usize..40, 2 => 40usize..250, 3 => 250usize..330, 1 => 600usize..1100];
    let small = prop::collection::vec(term_leaf(true), 1..=2);
    let item = (any::<bool>(), small);
    bx((n.prop_flat_map(move |n| prop::collection::vec(item.clone(), n..=n)), 0u8..4, super::c04::choices()).prop_map(|(items, mode, choices)| {
        // each item: a bare term, or a parenthesised group of one or two terms
        let terms: Vec<FTerm> = items
            .into_iter()
            .map(|(group, mut ts)| {
                if group {
                    FTerm::Parens(FOr(vec![FAnd(ts)]))
                } else {
                    ts.truncate(1);
                    ts.pop().unwrap()
                }
            })
            .collect();
        let filter = match mode {
            0 => FOr(terms.into_iter().map(|t| FAnd(vec![t])).collect()), // a or b or c ...
            1 => FOr(vec![FAnd(terms)]),                                  // a and b and c ...
            2 => FOr(terms.chunks(3).map(|c| FAnd(c.to_vec())).collect()), // a and b and c or d and e and f ...
            _ => FOr(vec![FAnd(vec![FTerm::Parens(FOr(terms.into_iter().map(|t| FAnd(vec![t])).collect()))])]), // ( a or b ... )
        };
        TCase { filter, choices }
    }))
}

/// Filter texts at the edges of the literal grammar that the tree generator does not build (leap seconds, repeated
/// hours, '_' and signs in exponents, upper-case hex escapes, line breaks inside paths). For each: if it parses, its
/// printed form must parse to the same tree, and print the same again.
const EDGE_FILTERS: &[&str] = &[
    "t == 23:59:60", "t < 23:59:60.5", "ts >= 2016-12-31T23:59:60Z", "ts == 2016-12-31T23:59:60Z UTC", "ts == 2016-12-31T18:59:60-05:00 New_York",
    "ts == 2021-11-07T01:30:00-05:00 New_York", "ts == 2021-11-07T01:30:00-04:00 New_York", "ts == 2021-10-31T01:30:00Z London", "ts > 1971-06-01T11:15:00-00:45 Monrovia",
    "n == 1e+5", "n == 1E-5kW", "n == 1e1_0", "n == 1_000.5_5", "n == -0", "n == 5e-324", "n == 1.7976931348623157e308", "n == 9223372036854775808",
    "s == \"\\u00E9\\u20AC\"", "s == \"\\uD83D\\uDE00\"", "u == `a\\`b`", "r == @a \"Caf\\u00e9\"", "a->b\n->c", "a->b->c\n  and d", "not a->b\n->c->d == 1",
    "d == 2000-02-29", "d == 0000-01-01", "d == 9999-12-31", "c == ^a:b-c.d~e", "( ( a ) )", "a and b or c and d", "a  or\tb",
];

fn edge_filters(ctx: &mut Ctx) {
    for (i, text) in EDGE_FILTERS.iter().enumerate() {
        ctx.rec.evals += 1;
        let r = guarded(|| -> Verdict {
            let Ok(f1) = Filter::try_from(*text) else { return Verdict::Pass };
            let p1 = f1.to_string();
            let f2 = match Filter::try_from(p1.as_str()) {
                Ok(f) => f,
                Err(e) => return Verdict::fail("C08:edge:printed-text-rejected", format!("`{text}` parses and prints as `{p1}`, which does not parse: {e}")),
            };
            if let Err(why) = same_tree(&from_lib_or(&f1.or), &from_lib_or(&f2.or), true) {
                return Verdict::fail("C08:edge:tree-differs", format!("`{text}` -> `{p1}` parses to a different tree: {why}"));
            }
            let p2 = f2.to_string();
            if p2 != p1 {
                return Verdict::fail("C08:edge:print-not-stable", format!("`{text}` prints as `{p1}` and then as `{p2}`"));
            }
            Verdict::Pass
        });
        let v = match r {
            Ok(v) => v,
            Err(p) => Verdict::fail(format!("C08:edge:{}", panic_sig(&p)), p.msg),
        };
        let accepted = Filter::try_from(*text).is_ok();
        ctx.rec.class(if accepted { "edge-filter:accepted" } else { "edge-filter:rejected" });
        if accepted {
            ctx.rec.nontrivial(key_of(&format!("edge:{i}")));
        }
        ctx.report("edge-filter", v, serde_json::json!({"text": text}));
    }
}

pub fn run(ctx: &mut Ctx) {
    ctx.rule("generated: filter trees with all term kinds (has, not, six comparisons, *==, ^symbol, relationship), literals of every kind the syntax admits (strings with escapes, numbers with units, dates, times, timestamps with zones, refs with display names, uris, symbols, booleans), paths of 1-4 segments, names other than the keywords; oracles: (1) Filter::try_from(t.to_string()) equals t structurally (literals strictly: Ref dis and zone checked; *==/relation refs by id since Display omits dis), (2) the reference printer's text with random legal spacing and line breaks parses to exactly t (precedence, grouping, where a path ends), (3) a second print-parse round gives the same tree, (4) a Visitor sees the nodes of t in order, (5) each case first has up to three damaged prefixes of its text parsed (and rejected) on the same thread - a failed parse must not influence the next one; non-trivial: >= 2 terms or a multi-segment path or a literal needing escape/unit/zone/dis; distinct by text; a table of ~30 edge texts (leap seconds, repeated hours, exponent spellings, upper-case escapes, line breaks inside paths) must survive print-parse where accepted; a second generator makes *wide* filters: 2-1100 sibling terms, about half of them parenthesised groups, joined by or / and / both / inside one group");
    let depth = ctx.tier.pick(2, 3) as u32;
    ctx.run_sub::<TCase>("print-parse", ctx.tier.pick(80_000, 1_600_000), &move || tcase(depth), &check_case);
    edge_filters(ctx);
    ctx.run_sub::<TCase>("print-parse-wide", ctx.tier.pick(1_600, 32_000), &wide_tcase, &check_case);
}

pub fn replay(kind: &str, case: &J, rec: &mut Rec) -> Verdict {
    match kind {
        "edge-filter" => {
            let text = case["text"].as_str().unwrap_or("").to_string();
            match Filter::try_from(text.as_str()) {
                Err(_) => Verdict::Pass,
                Ok(f1) => {
                    let p1 = f1.to_string();
                    match Filter::try_from(p1.as_str()) {
                        Ok(f2) => match same_tree(&from_lib_or(&f1.or), &from_lib_or(&f2.or), true) {
                            Ok(()) => Verdict::Pass,
                            Err(why) => Verdict::fail("C08:edge:tree-differs", why),
                        },
                        Err(e) => Verdict::fail("C08:edge:printed-text-rejected", format!("`{text}` -> `{p1}`: {e}")),
                    }
                }
            }
        }
        "print-parse" | "print-parse-wide" => TCase::from_json(case).map(|c| check_case(&c, rec)).unwrap_or_else(|e| Verdict::fail("infra:bad-replay", e)),
        _ => Verdict::fail("infra:unknown-kind", kind),
    }
}
