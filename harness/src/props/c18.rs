//! C18 — The C API is memory-safe under its ownership protocol and tolerates null.
//! The call sequences of C17 run in an AddressSanitizer + LeakSanitizer build of the harness.

use super::c17::{run_isolated, Seq};
use crate::isolate::{run_probe_with, ProbeStatus};
use crate::runner::{key_of, verif_root, Case, Ctx, Rec, Verdict};
use libhaystack::c_api::{self, ResultType};
use libhaystack::filter::Filter;
use libhaystack::val::*;
use serde_json::{json, Value as J};
use std::ffi::{CStr, CString};
use std::os::raw::c_char;
use std::time::Duration;

pub fn asan_exe() -> String {
    verif_root().join("harness/target-asan/x86_64-unknown-linux-gnu/verif/hv").display().to_string()
}

fn asan_env() -> Vec<(String, String)> {
    vec![
        ("ASAN_OPTIONS".to_string(), "detect_leaks=1:exitcode=98:abort_on_error=0:detect_stack_use_after_return=0:symbolize=1".to_string()),
        ("LSAN_OPTIONS".to_string(), "exitcode=97".to_string()),
        ("ASAN_SYMBOLIZER_PATH".to_string(), "/usr/bin/llvm-symbolizer-14".to_string()),
    ]
}

// ---------------------------------------------------------------------------------------------
// null sweep: every pointer parameter of every non-destroy function, one at a time

fn took_error() -> bool {
    unsafe {
        let p = c_api::err::last_error_message();
        if p.is_null() {
            return false;
        }
        c_api::str::haystack_string_destroy(p as *mut c_char);
        // and only once
        let again = c_api::err::last_error_message();
        if !again.is_null() {
            c_api::str::haystack_string_destroy(again as *mut c_char);
            return false;
        }
        true
    }
}

fn free_str(p: *const c_char) -> bool {
    if p.is_null() {
        true
    } else {
        unsafe { c_api::str::haystack_string_destroy(p as *mut c_char) };
        false
    }
}

/// returns (function/param label, sentinel returned, error message retrievable)
pub fn null_sweep() -> Vec<(String, bool, bool)> {
    let mut out: Vec<(String, bool, bool)> = vec![];
    let nv: *const Value = std::ptr::null();
    let nm: *mut Value = std::ptr::null_mut();
    let ns: *const c_char = std::ptr::null();
    let nf: *const Filter = std::ptr::null();
    let cs = CString::new("a").unwrap();
    let tz = CString::new("UTC").unwrap();
    let mut date = Value::make_date(Date::from_ymd(2020, 1, 2).unwrap());
    let mut time = Value::make_time(Time::from_hms(1, 2, 3).unwrap());
    let mut list = Value::make_list(vec![Value::make_dict(Dict::new())]);
    let mut dict = Value::make_dict(Dict::new());
    let mut grid = Value::make_grid(Grid::make_from_dicts(vec![Dict::new()]));
    let mut any = Value::make_marker();
    let mut res = Value::Null;
    let dt = Value::make_datetime_from_iso("2020-01-01T00:00:00Z").unwrap();
    let filter = Filter::try_from("a").unwrap();
    macro_rules! case {
        ($name:expr, $call:expr, $sentinel:expr) => {{
            let r = unsafe { $call };
            let ok = $sentinel(r);
            let err = took_error();
            out.push(($name.to_string(), ok, err));
        }};
    }
    use c_api::value::*;
    // predicates
    case!("is_null(val)", haystack_value_is_null(nv), |r: bool| !r);
    case!("is_marker(val)", haystack_value_is_marker(nv), |r: bool| !r);
    case!("is_na(val)", haystack_value_is_na(nv), |r: bool| !r);
    case!("is_remove(val)", haystack_value_is_remove(nv), |r: bool| !r);
    case!("is_bool(val)", haystack_value_is_bool(nv), |r: bool| !r);
    case!("is_number(val)", haystack_value_is_number(nv), |r: bool| !r);
    case!("is_coord(val)", haystack_value_is_coord(nv), |r: bool| !r);
    case!("is_str(val)", haystack_value_is_str(nv), |r: bool| !r);
    case!("is_ref(val)", haystack_value_is_ref(nv), |r: bool| !r);
    case!("is_uri(val)", haystack_value_is_uri(nv), |r: bool| !r);
    case!("is_symbol(val)", haystack_value_is_symbol(nv), |r: bool| !r);
    case!("is_xstr(val)", haystack_value_is_xstr(nv), |r: bool| !r);
    case!("is_time(val)", haystack_value_is_time(nv), |r: bool| !r);
    case!("is_date(val)", haystack_value_is_date(nv), |r: bool| !r);
    case!("is_datetime(val)", haystack_value_is_datetime(nv), |r: bool| !r);
    case!("is_list(val)", haystack_value_is_list(nv), |r: bool| !r);
    case!("is_dict(val)", haystack_value_is_dict(nv), |r: bool| !r);
    case!("is_grid(val)", haystack_value_is_grid(nv), |r: bool| !r);
    // constructors
    let none = |r: Option<Box<Value>>| r.is_none();
    case!("make_number_with_unit(unit)", haystack_value_make_number_with_unit(1.0, ns), none);
    case!("make_str(val)", haystack_value_make_str(ns), none);
    case!("make_ref(val)", haystack_value_make_ref(ns), none);
    case!("make_uri(val)", haystack_value_make_uri(ns), none);
    case!("make_symbol(val)", haystack_value_make_symbol(ns), none);
    case!("make_ref_with_dis(val)", haystack_value_make_ref_with_dis(ns, cs.as_ptr()), none);
    case!("make_ref_with_dis(dis)", haystack_value_make_ref_with_dis(cs.as_ptr(), ns), none);
    case!("make_xstr(name)", haystack_value_make_xstr(ns, cs.as_ptr()), none);
    case!("make_xstr(data)", haystack_value_make_xstr(cs.as_ptr(), ns), none);
    case!("make_utc_datetime(date)", haystack_value_make_utc_datetime(nm, &mut time), none);
    case!("make_utc_datetime(time)", haystack_value_make_utc_datetime(&mut date, nm), none);
    case!("make_tz_datetime(date)", haystack_value_make_tz_datetime(nm, &mut time, tz.as_ptr()), none);
    case!("make_tz_datetime(time)", haystack_value_make_tz_datetime(&mut date, nm, tz.as_ptr()), none);
    case!("make_tz_datetime(tz)", haystack_value_make_tz_datetime(&mut date, &mut time, ns), none);
    case!("make_grid_from_rows(rows)", c_api::grid::haystack_value_make_grid_from_rows(nv), none);
    case!("make_grid_from_rows_with_meta(rows)", c_api::grid::haystack_value_make_grid_from_rows_with_meta(nv, &dict), none);
    case!("make_grid_from_rows_with_meta(meta)", c_api::grid::haystack_value_make_grid_from_rows_with_meta(&list, nv), none);
    case!("from_zinc_string(input)", c_api::zinc::haystack_value_from_zinc_string(ns), none);
    case!("from_json_string(input)", c_api::json::haystack_value_from_json_string(ns), none);
    case!("filter_parse(val)", c_api::filter::haystack_filter_parse(ns), |r: Option<Box<Filter>>| r.is_none());
    // numeric getters
    case!("get_number_value(val)", c_api::number::haystack_value_get_number_value(nv), |r: f64| r.is_nan());
    case!("get_coord_lat(val)", c_api::coord::haystack_value_get_coord_lat(nv), |r: f64| r.is_nan());
    case!("get_coord_long(val)", c_api::coord::haystack_value_get_coord_long(nv), |r: f64| r.is_nan());
    let umax = |r: u32| r == u32::MAX;
    case!("get_date_year(val)", c_api::date::haystack_value_get_date_year(nv), umax);
    case!("get_date_month(val)", c_api::date::haystack_value_get_date_month(nv), umax);
    case!("get_date_day(val)", c_api::date::haystack_value_get_date_day(nv), umax);
    case!("get_time_hour(val)", c_api::time::haystack_value_get_time_hour(nv), umax);
    case!("get_time_minutes(val)", c_api::time::haystack_value_get_time_minutes(nv), umax);
    case!("get_time_seconds(val)", c_api::time::haystack_value_get_time_seconds(nv), umax);
    case!("get_time_millis(val)", c_api::time::haystack_value_get_time_millis(nv), umax);
    let smax = |r: usize| r == usize::MAX;
    case!("get_str_len(val)", c_api::str::haystack_value_get_str_len(nv), smax);
    case!("get_ref_value_len(val)", c_api::reference::haystack_value_get_ref_value_len(nv), smax);
    case!("get_symbol_value_len(val)", c_api::symbol::haystack_value_get_symbol_value_len(nv), smax);
    case!("get_uri_value_len(val)", c_api::uri::haystack_value_get_uri_value_len(nv), smax);
    case!("get_list_len(val)", c_api::list::haystack_value_get_list_len(nm), smax);
    case!("get_dict_len(val)", c_api::dict::haystack_value_get_dict_len(nv), smax);
    case!("get_grid_len(val)", c_api::grid::haystack_value_get_grid_len(nv), smax);
    // string getters
    case!("get_str_value(val)", c_api::str::haystack_value_get_str_value(nv), free_str);
    case!("get_ref_value(val)", c_api::reference::haystack_value_get_ref_value(nv), free_str);
    case!("get_ref_dis(val)", c_api::reference::haystack_value_get_ref_dis(nv), free_str);
    case!("get_symbol_value(val)", c_api::symbol::haystack_value_get_symbol_value(nv), free_str);
    case!("get_uri_value(val)", c_api::uri::haystack_value_get_uri_value(nv), free_str);
    case!("get_xstr_type(val)", c_api::xstr::haystack_value_get_xstr_type(nv), free_str);
    case!("get_xstr_value(val)", c_api::xstr::haystack_value_get_xstr_value(nv), free_str);
    case!("get_number_unit(val)", c_api::number::haystack_value_get_number_unit(nv), free_str);
    case!("get_datetime_timezone(val)", c_api::datetime::haystack_value_get_datetime_timezone(nv), free_str);
    case!("to_zinc_string(val)", c_api::zinc::haystack_value_to_zinc_string(nv), free_str);
    case!("to_json_string(val)", c_api::json::haystack_value_to_json_string(nv), free_str);
    // ResultType calls
    let err = |r: ResultType| r == ResultType::ERR;
    case!("number_has_unit(val)", c_api::number::haystack_value_number_has_unit(nv), err);
    case!("get_datetime_date(val)", c_api::datetime::haystack_value_get_datetime_date(nv, true, &mut res), err);
    case!("get_datetime_date(result)", c_api::datetime::haystack_value_get_datetime_date(&dt, true, nm), err);
    case!("get_datetime_time(val)", c_api::datetime::haystack_value_get_datetime_time(nv, false, &mut res), err);
    case!("get_datetime_time(result)", c_api::datetime::haystack_value_get_datetime_time(&dt, false, nm), err);
    case!("push_list_entry(val)", c_api::list::haystack_value_push_list_entry(nm, &any), err);
    case!("push_list_entry(entry)", c_api::list::haystack_value_push_list_entry(&mut list, nv), err);
    let mut outp: *const Value = std::ptr::null();
    case!("get_list_entry_at(val)", c_api::list::haystack_value_get_list_entry_at(nv, 0, &mut outp), err);
    case!("get_list_entry_at(result)", c_api::list::haystack_value_get_list_entry_at(&list, 0, std::ptr::null_mut()), err);
    case!("set_list_entry_at(val)", c_api::list::haystack_value_set_list_entry_at(nm, 0, &mut any), err);
    case!("set_list_entry_at(entry)", c_api::list::haystack_value_set_list_entry_at(&mut list, 0, nm), err);
    case!("remove_list_entry_at(val)", c_api::list::haystack_value_remove_list_entry_at(nm, 0), err);
    case!("get_dict_keys(val)", c_api::dict::haystack_value_get_dict_keys(nv, &mut res), err);
    case!("get_dict_keys(result)", c_api::dict::haystack_value_get_dict_keys(&dict, nm), err);
    case!("insert_dict_entry(val)", c_api::dict::haystack_value_insert_dict_entry(nm, cs.as_ptr(), &any), err);
    case!("insert_dict_entry(key)", c_api::dict::haystack_value_insert_dict_entry(&mut dict, ns, &any), err);
    case!("insert_dict_entry(entry)", c_api::dict::haystack_value_insert_dict_entry(&mut dict, cs.as_ptr(), nv), err);
    case!("get_dict_entry(val)", c_api::dict::haystack_value_get_dict_entry(nm, cs.as_ptr(), &mut outp), err);
    case!("get_dict_entry(key)", c_api::dict::haystack_value_get_dict_entry(&mut dict, ns, &mut outp), err);
    case!("get_dict_entry(result)", c_api::dict::haystack_value_get_dict_entry(&mut dict, cs.as_ptr(), std::ptr::null_mut()), err);
    case!("remove_dict_entry(val)", c_api::dict::haystack_value_remove_dict_entry(nm, cs.as_ptr()), err);
    case!("remove_dict_entry(key)", c_api::dict::haystack_value_remove_dict_entry(&mut dict, ns), err);
    case!("get_grid_row_at(val)", c_api::grid::haystack_value_get_grid_row_at(nm, 0, &mut res), err);
    case!("get_grid_row_at(result)", c_api::grid::haystack_value_get_grid_row_at(&mut grid, 0, nm), err);
    case!("filter_match_dict(filter)", c_api::filter::haystack_filter_match_dict(nf, &dict), err);
    case!("filter_match_dict(dict)", c_api::filter::haystack_filter_match_dict(&filter, nv), err);
    case!("filter_first_match_in_grid(filter)", c_api::filter::haystack_filter_first_match_in_grid(nf, &grid, &mut res), err);
    case!("filter_first_match_in_grid(grid)", c_api::filter::haystack_filter_first_match_in_grid(&filter, nv, &mut res), err);
    case!("filter_first_match_in_grid(result)", c_api::filter::haystack_filter_first_match_in_grid(&filter, &grid, nm), err);
    case!("filter_match_all_grid(filter)", c_api::filter::haystack_filter_match_all_grid(nf, &grid, &mut res), err);
    case!("filter_match_all_grid(grid)", c_api::filter::haystack_filter_match_all_grid(&filter, nv, &mut res), err);
    case!("filter_match_all_grid(result)", c_api::filter::haystack_filter_match_all_grid(&filter, &grid, nm), err);
    // the values used as valid arguments must be untouched
    let _ = (&date, &time, &list, &dict, &grid, &any, &res, CStr::from_bytes_with_nul(b"x\0").is_ok());
    out
}

/// `hv probe null-sweep` (runs in the sanitizer build): prints one line per call
pub fn child_null_sweep() -> i32 {
    for (name, sentinel, err) in null_sweep() {
        println!("SWEEP {}", json!({"call": name, "sentinel": sentinel, "error_message": err}));
    }
    if super::c17::leak_check() {
        println!("LEAK");
    }
    println!("SWEEP-DONE");
    0
}

pub fn run(ctx: &mut Ctx) {
    ctx.rule("the call sequences of C17 (same generator, own seed stream) executed by an AddressSanitizer + LeakSanitizer build in child processes: any ASan report (use after free, double free, out of bounds), any leak found by a LeakSanitizer check after the protocol-following teardown of a sequence, and any abort is attributed to the sequence in flight, confirmed alone and shrunk; plus an exhaustive null sweep: every pointer parameter of every non-destroy function passed as null with all other arguments valid must give the documented sentinel and exactly one error message; non-trivial: as C17; distinct by sequence");
    ctx.assume("protocol: every handle and returned string destroyed exactly once, borrowed entry pointers only read while the container is alive and unmodified; filter handles (no destroy function in the API) are dropped by the harness");
    let exe = asan_exe();
    if !std::path::Path::new(&exe).exists() {
        ctx.inconclusive.push(format!("sanitizer build missing: {exe} (run ./setup.sh or ./check C18 ...)"));
        return;
    }
    // null sweep (exhaustive, finite)
    let env = asan_env();
    let envr: Vec<(&str, &str)> = env.iter().map(|(a, b)| (a.as_str(), b.as_str())).collect();
    let r = run_probe_with(Some(&exe), &["null-sweep".to_string()], None, Duration::from_secs(120), &envr);
    let mut n = 0;
    for line in r.stdout.lines() {
        if let Some(rest) = line.strip_prefix("SWEEP ") {
            if let Ok(j) = serde_json::from_str::<J>(rest) {
                n += 1;
                ctx.rec.evals += 1;
                ctx.rec.nontrivial(key_of(j["call"].as_str().unwrap_or("")));
                let call = j["call"].as_str().unwrap_or("?").to_string();
                if !j["sentinel"].as_bool().unwrap_or(false) {
                    ctx.report("null-sweep", Verdict::fail(format!("C18:null:{call}:no-sentinel"), format!("{call} = null does not return the documented failure sentinel")), j.clone());
                } else if !j["error_message"].as_bool().unwrap_or(false) {
                    ctx.report("null-sweep", Verdict::fail(format!("C18:null:{call}:no-error-message"), format!("{call} = null returns the sentinel but leaves no (single) error message")), j.clone());
                }
            }
        }
    }
    ctx.rec.class_n("null-sweep:calls", n);
    if !r.stdout.contains("SWEEP-DONE") || !matches!(r.status, ProbeStatus::Exit(0)) {
        ctx.report(
            "null-sweep",
            Verdict::fail("C18:null-sweep:crash", format!("the null sweep did not complete: {:?}\n{}", r.status, r.stderr_tail)),
            json!({"after": n}),
        );
    }
    if r.stdout.contains("LEAK") {
        ctx.report("null-sweep", Verdict::fail("C18:null-sweep:leak", "LeakSanitizer reports a leak after the null sweep"), json!({}));
    }
    ctx.rec.samples.push("null sweep: get_dict_entry(val=NULL), filter_match_all_grid(result=NULL), make_tz_datetime(tz=NULL) ...".into());
    // sequences under the sanitizers
    let total = ctx.tier.pick(16_000, 400_000);
    let iso = run_isolated("C18", ctx.seed, total, 40, Some(exe), env);
    ctx.rec.merge(iso.rec);
    for (v, c) in iso.violations {
        // semantic mismatches belong to C17; here only memory errors, leaks and aborts count
        if let Verdict::Fail { sig, .. } = &v {
            if sig.starts_with("C17:") && !sig.contains("crash") {
                ctx.rec.class("semantic-mismatch-seen(reported-by-C17)");
                continue;
            }
        }
        ctx.report("capi-seq", v, c);
    }
    ctx.inconclusive.extend(iso.inconclusive);
}

pub fn replay(kind: &str, case: &J, _rec: &mut Rec) -> Verdict {
    let exe = asan_exe();
    let env = asan_env();
    let envr: Vec<(&str, &str)> = env.iter().map(|(a, b)| (a.as_str(), b.as_str())).collect();
    match kind {
        "capi-seq" => {
            if Seq::from_json(case).is_err() {
                return Verdict::fail("infra:bad-replay", "ops");
            }
            let dir = verif_root().join("work");
            let _ = std::fs::create_dir_all(&dir);
            let path = dir.join(format!("c18-replay-{}.json", std::process::id()));
            let _ = std::fs::write(&path, case.to_string());
            let r = run_probe_with(Some(&exe), &["capi-one".to_string(), path.display().to_string()], None, Duration::from_secs(120), &envr);
            let _ = std::fs::remove_file(&path);
            match r.status {
                ProbeStatus::Exit(0) => Verdict::Pass,
                ProbeStatus::Exit(3) if !r.stdout.contains("C18:") => Verdict::Pass,
                other => Verdict::fail("C18:crash", format!("{other:?}\n{}\n{}", r.stdout.lines().last().unwrap_or(""), r.stderr_tail)),
            }
        }
        "null-sweep" => {
            let r = run_probe_with(Some(&exe), &["null-sweep".to_string()], None, Duration::from_secs(120), &envr);
            let call = case["call"].as_str().unwrap_or("");
            for line in r.stdout.lines() {
                if let Some(rest) = line.strip_prefix("SWEEP ") {
                    if let Ok(j) = serde_json::from_str::<J>(rest) {
                        if j["call"].as_str() == Some(call) && !(j["sentinel"].as_bool().unwrap_or(false) && j["error_message"].as_bool().unwrap_or(false)) {
                            return Verdict::fail(format!("C18:null:{call}"), rest.to_string());
                        }
                    }
                }
            }
            if r.stdout.contains("SWEEP-DONE") {
                Verdict::Pass
            } else {
                Verdict::fail("C18:null-sweep:crash", r.stderr_tail)
            }
        }
        _ => Verdict::fail("infra:unknown-kind", kind),
    }
}
