//! C API operation sequences: generator, interpreter over the `extern "C"` functions, and the
//! model (the same operations on plain Rust values). Shared by C17 and C18.

use crate::gen::value::{self as gv, GenCfg};
use crate::runner::{idx, Verdict};
use crate::rval::*;
use libhaystack::c_api::{self, ResultType};
use libhaystack::filter::{Filter, Filtered, ListFiltered};
use libhaystack::units::get_unit;
use libhaystack::val::*;
use proptest::prelude::*;
use serde_json::{json, Value as J};
use std::ffi::{CStr, CString};
use std::os::raw::c_char;

pub const SLOTS: usize = 8;
pub const FSLOTS: usize = 3;

#[derive(Clone, Debug, PartialEq)]
pub enum Txt {
    Null,
    S(String),
    /// bytes that are not UTF-8
    Bad,
}

impl Txt {
    fn to_json(&self) -> J {
        match self {
            Txt::Null => J::Null,
            Txt::S(s) => json!(s),
            Txt::Bad => json!({"bad_utf8": true}),
        }
    }
    fn from_json(j: &J) -> Txt {
        match j {
            J::Null => Txt::Null,
            J::String(s) => Txt::S(s.clone()),
            _ => Txt::Bad,
        }
    }
    fn cstring(&self) -> Option<CString> {
        match self {
            Txt::Null => None,
            Txt::S(s) => Some(CString::new(s.replace('\0', "")).unwrap()),
            Txt::Bad => Some(CString::new(vec![0xffu8, 0xfe, b'a']).unwrap()),
        }
    }
    /// the &str the C function sees, if any
    fn as_str(&self) -> Option<String> {
        match self {
            Txt::S(s) => Some(s.replace('\0', "")),
            _ => None,
        }
    }
}

#[derive(Clone, Debug, PartialEq)]
pub enum Ix {
    In(u16),
    Len,
    LenPlus1,
    Max,
}
impl Ix {
    fn resolve(&self, len: usize) -> usize {
        match self {
            Ix::In(i) => {
                if len == 0 {
                    0
                } else {
                    idx(*i, len)
                }
            }
            Ix::Len => len,
            Ix::LenPlus1 => len + 1,
            Ix::Max => usize::MAX,
        }
    }
    fn to_json(&self) -> J {
        match self {
            Ix::In(i) => json!(i),
            Ix::Len => json!("len"),
            Ix::LenPlus1 => json!("len+1"),
            Ix::Max => json!("max"),
        }
    }
    fn from_json(j: &J) -> Ix {
        match j {
            J::Number(n) => Ix::In(n.as_u64().unwrap_or(0) as u16),
            J::String(s) if s == "len" => Ix::Len,
            J::String(s) if s == "len+1" => Ix::LenPlus1,
            _ => Ix::Max,
        }
    }
}

#[derive(Clone, Debug, PartialEq)]
pub enum Op {
    MakeSimple(u8, u8),
    MakeBool(u8, bool),
    MakeNumber(u8, f64),
    MakeNumberUnit(u8, f64, Txt),
    MakeCoord(u8, f64, f64),
    /// kind: 0 str, 1 ref, 2 uri, 3 symbol
    MakeText(u8, u8, Txt),
    MakeRefDis(u8, Txt, Txt),
    MakeXStr(u8, Txt, Txt),
    MakeTime(u8, u32, u32, u32, Option<u32>),
    MakeDate(u8, i32, u32, u32),
    MakeUtcDt(u8, u8, u8),
    MakeTzDt(u8, u8, u8, Txt),
    GridFromRows(u8, u8, Option<u8>),
    FromZinc(u8, Txt),
    FromJson(u8, Txt),
    /// put a generated value into a slot (through from_zinc of its encoding would restrict it; this uses Box directly like haystack_value_init + Rust fill)
    Put(u8, RVal),
    Is(u8, u8),
    Get(u8, u8),
    ListLen(u8),
    ListPush(u8, u8),
    ListGet(u8, Ix, bool),
    ListSet(u8, Ix, u8),
    ListRemove(u8, Ix),
    /// push a *borrowed* entry of the list (pointer from get_list_entry_at at u16-index) onto the same list
    ListPushOwn(u8, u16),
    /// overwrite entry i of the list with a borrowed entry j of the same list
    ListSetOwn(u8, u16, u16),
    /// overwrite entry i of the list (itself a list) with a borrowed entry of *that entry* (a pointer two levels down)
    ListSetNested(u8, u16, u16),
    /// insert a borrowed entry of the dict (the n-th key) under another key of the same dict
    DictInsertOwn(u8, u16, Txt),
    /// insert, under an existing key (the n-th), a value that is `==` to the stored one but not the same value
    /// (same Ref id with another display name, same instant in another zone); the third field is a scratch slot
    DictInsertTwin(u8, u16, u8),
    /// keys of a dict that is an entry of a list, written into that very list (the dict pointer is borrowed from the result)
    DictKeysOwn(u8, u16),
    DictLen(u8),
    DictKeys(u8, u8),
    DictInsert(u8, Txt, u8),
    DictGet(u8, Txt, bool),
    DictRemove(u8, Txt),
    GridLen(u8),
    GridRowAt(u8, Ix, u8),
    DtDate(u8, bool, u8),
    DtTime(u8, bool, u8),
    ToZinc(u8),
    ToJson(u8),
    FilterParse(u8, Txt),
    FilterMatchDict(u8, u8),
    FilterFirst(u8, u8, u8),
    FilterAll(u8, u8, u8),
    LastError,
    Destroy(u8),
}

pub const GETTERS: usize = 24;

impl Op {
    pub fn to_json(&self) -> J {
        use Op::*;
        match self {
            MakeSimple(s, k) => json!(["MakeSimple", s, k]),
            MakeBool(s, b) => json!(["MakeBool", s, b]),
            MakeNumber(s, v) => json!(["MakeNumber", s, format!("{:016x}", v.to_bits())]),
            MakeNumberUnit(s, v, u) => json!(["MakeNumberUnit", s, format!("{:016x}", v.to_bits()), u.to_json()]),
            MakeCoord(s, a, b) => json!(["MakeCoord", s, format!("{:016x}", a.to_bits()), format!("{:016x}", b.to_bits())]),
            MakeText(s, k, t) => json!(["MakeText", s, k, t.to_json()]),
            MakeRefDis(s, a, b) => json!(["MakeRefDis", s, a.to_json(), b.to_json()]),
            MakeXStr(s, a, b) => json!(["MakeXStr", s, a.to_json(), b.to_json()]),
            MakeTime(s, h, m, sec, ms) => json!(["MakeTime", s, h, m, sec, ms]),
            MakeDate(s, y, m, d) => json!(["MakeDate", s, y, m, d]),
            MakeUtcDt(s, d, t) => json!(["MakeUtcDt", s, d, t]),
            MakeTzDt(s, d, t, z) => json!(["MakeTzDt", s, d, t, z.to_json()]),
            GridFromRows(s, r, m) => json!(["GridFromRows", s, r, m]),
            FromZinc(s, t) => json!(["FromZinc", s, t.to_json()]),
            FromJson(s, t) => json!(["FromJson", s, t.to_json()]),
            Put(s, v) => json!(["Put", s, to_json(v)]),
            Is(s, k) => json!(["Is", s, k]),
            Get(s, g) => json!(["Get", s, g]),
            ListLen(s) => json!(["ListLen", s]),
            ListPush(l, e) => json!(["ListPush", l, e]),
            ListGet(l, i, n) => json!(["ListGet", l, i.to_json(), n]),
            ListSet(l, i, e) => json!(["ListSet", l, i.to_json(), e]),
            ListRemove(l, i) => json!(["ListRemove", l, i.to_json()]),
            DictLen(s) => json!(["DictLen", s]),
            DictKeys(d, r) => json!(["DictKeys", d, r]),
            DictInsert(d, k, e) => json!(["DictInsert", d, k.to_json(), e]),
            ListPushOwn(l, i) => json!(["ListPushOwn", l, i]),
            ListSetOwn(l, i, j) => json!(["ListSetOwn", l, i, j]),
            ListSetNested(l, i, k) => json!(["ListSetNested", l, i, k]),
            DictInsertOwn(d, n, k) => json!(["DictInsertOwn", d, n, k.to_json()]),
            DictInsertTwin(d, n, t) => json!(["DictInsertTwin", d, n, t]),
            DictKeysOwn(l, i) => json!(["DictKeysOwn", l, i]),
            DictGet(d, k, n) => json!(["DictGet", d, k.to_json(), n]),
            DictRemove(d, k) => json!(["DictRemove", d, k.to_json()]),
            GridLen(s) => json!(["GridLen", s]),
            GridRowAt(g, i, r) => json!(["GridRowAt", g, i.to_json(), r]),
            DtDate(s, u, r) => json!(["DtDate", s, u, r]),
            DtTime(s, u, r) => json!(["DtTime", s, u, r]),
            ToZinc(s) => json!(["ToZinc", s]),
            ToJson(s) => json!(["ToJson", s]),
            FilterParse(f, t) => json!(["FilterParse", f, t.to_json()]),
            FilterMatchDict(f, d) => json!(["FilterMatchDict", f, d]),
            FilterFirst(f, g, r) => json!(["FilterFirst", f, g, r]),
            FilterAll(f, g, r) => json!(["FilterAll", f, g, r]),
            LastError => json!(["LastError"]),
            Destroy(s) => json!(["Destroy", s]),
        }
    }
    pub fn from_json(j: &J) -> Result<Op, String> {
        use Op::*;
        let a = j.as_array().ok_or("op must be an array")?;
        let name = a.first().and_then(|x| x.as_str()).ok_or("op name")?;
        let u = |i: usize| a.get(i).and_then(|x| x.as_u64()).unwrap_or(0);
        let u8_ = |i: usize| u(i) as u8;
        let f = |i: usize| f64::from_bits(u64::from_str_radix(a.get(i).and_then(|x| x.as_str()).unwrap_or("0"), 16).unwrap_or(0));
        let t = |i: usize| Txt::from_json(a.get(i).unwrap_or(&J::Null));
        let ix = |i: usize| Ix::from_json(a.get(i).unwrap_or(&J::Null));
        let b = |i: usize| a.get(i).and_then(|x| x.as_bool()).unwrap_or(false);
        Ok(match name {
            "MakeSimple" => MakeSimple(u8_(1), u8_(2)),
            "MakeBool" => MakeBool(u8_(1), b(2)),
            "MakeNumber" => MakeNumber(u8_(1), f(2)),
            "MakeNumberUnit" => MakeNumberUnit(u8_(1), f(2), t(3)),
            "MakeCoord" => MakeCoord(u8_(1), f(2), f(3)),
            "MakeText" => MakeText(u8_(1), u8_(2), t(3)),
            "MakeRefDis" => MakeRefDis(u8_(1), t(2), t(3)),
            "MakeXStr" => MakeXStr(u8_(1), t(2), t(3)),
            "MakeTime" => MakeTime(u8_(1), u(2) as u32, u(3) as u32, u(4) as u32, a.get(5).and_then(|x| x.as_u64()).map(|x| x as u32)),
            "MakeDate" => MakeDate(u8_(1), a.get(2).and_then(|x| x.as_i64()).unwrap_or(0) as i32, u(3) as u32, u(4) as u32),
            "MakeUtcDt" => MakeUtcDt(u8_(1), u8_(2), u8_(3)),
            "MakeTzDt" => MakeTzDt(u8_(1), u8_(2), u8_(3), t(4)),
            "GridFromRows" => GridFromRows(u8_(1), u8_(2), a.get(3).and_then(|x| x.as_u64()).map(|x| x as u8)),
            "FromZinc" => FromZinc(u8_(1), t(2)),
            "FromJson" => FromJson(u8_(1), t(2)),
            "Put" => Put(u8_(1), from_json(a.get(2).unwrap_or(&J::Null))?),
            "Is" => Is(u8_(1), u8_(2)),
            "Get" => Get(u8_(1), u8_(2)),
            "ListLen" => ListLen(u8_(1)),
            "ListPush" => ListPush(u8_(1), u8_(2)),
            "ListGet" => ListGet(u8_(1), ix(2), b(3)),
            "ListSet" => ListSet(u8_(1), ix(2), u8_(3)),
            "ListRemove" => ListRemove(u8_(1), ix(2)),
            "ListPushOwn" => ListPushOwn(u8_(1), u(2) as u16),
            "ListSetOwn" => ListSetOwn(u8_(1), u(2) as u16, u(3) as u16),
            "ListSetNested" => ListSetNested(u8_(1), u(2) as u16, u(3) as u16),
            "DictInsertOwn" => DictInsertOwn(u8_(1), u(2) as u16, t(3)),
            "DictInsertTwin" => DictInsertTwin(u8_(1), u(2) as u16, u8_(3)),
            "DictKeysOwn" => DictKeysOwn(u8_(1), u(2) as u16),
            "DictLen" => DictLen(u8_(1)),
            "DictKeys" => DictKeys(u8_(1), u8_(2)),
            "DictInsert" => DictInsert(u8_(1), t(2), u8_(3)),
            "DictGet" => DictGet(u8_(1), t(2), b(3)),
            "DictRemove" => DictRemove(u8_(1), t(2)),
            "GridLen" => GridLen(u8_(1)),
            "GridRowAt" => GridRowAt(u8_(1), ix(2), u8_(3)),
            "DtDate" => DtDate(u8_(1), b(2), u8_(3)),
            "DtTime" => DtTime(u8_(1), b(2), u8_(3)),
            "ToZinc" => ToZinc(u8_(1)),
            "ToJson" => ToJson(u8_(1)),
            "FilterParse" => FilterParse(u8_(1), t(2)),
            "FilterMatchDict" => FilterMatchDict(u8_(1), u8_(2)),
            "FilterFirst" => FilterFirst(u8_(1), u8_(2), u8_(3)),
            "FilterAll" => FilterAll(u8_(1), u8_(2), u8_(3)),
            "LastError" => LastError,
            "Destroy" => Destroy(u8_(1)),
            other => return Err(format!("unknown op {other}")),
        })
    }
    pub fn is_container_mutation(&self) -> bool {
        matches!(self, Op::ListPush(..) | Op::ListSet(..) | Op::ListRemove(..) | Op::DictInsert(..) | Op::DictRemove(..) | Op::ListPushOwn(..) | Op::ListSetOwn(..) | Op::ListSetNested(..) | Op::DictInsertOwn(..) | Op::DictInsertTwin(..) | Op::DictKeysOwn(..))
    }
    pub fn is_container_read(&self) -> bool {
        matches!(self, Op::ListLen(_) | Op::ListGet(..) | Op::DictLen(_) | Op::DictKeys(..) | Op::DictGet(..) | Op::ToZinc(_) | Op::ToJson(_) | Op::GridFromRows(..))
    }
}

// ---------------------------------------------------------------------------------------------
// generator

fn slot() -> BoxedStrategy<u8> {
    // low 3 bits: a raw slot; high 5 bits: how the interpreter picks the handle (see Machine::sel)
    any::<u8>().boxed()
}
fn fslot() -> BoxedStrategy<u8> {
    (0u8..FSLOTS as u8).boxed()
}
/// long texts of multi-byte characters at varying byte alignments: error messages quote caller
/// input, and anything that cuts or copies such a message by bytes must respect char boundaries
fn long_mb() -> BoxedStrategy<String> {
    (0usize..4, prop::sample::select(vec!['é', '€', '😀', 'ß', '漢']), 60usize..160)
        .prop_map(|(pad, ch, n)| {
            let mut s = "x".repeat(pad);
            for _ in 0..n {
                s.push(ch);
            }
            s
        })
        .boxed()
}

fn txt() -> BoxedStrategy<Txt> {
    prop_oneof![
        1 => long_mb().prop_map(Txt::S),
        1 => Just(Txt::Null),
        1 => Just(Txt::Bad),
        6 => prop::sample::select(vec!["a", "b", "dis", "id", "site", "x y", "", "kW", "m", "°F", "New_York", "UTC", "Nowhere", "Calcutta", "Foo", "c"]).prop_map(|s| Txt::S(s.to_string())),
        3 => gv::ustring(8).prop_map(Txt::S),
    ]
    .boxed()
}
fn ix() -> BoxedStrategy<Ix> {
    prop_oneof![6 => any::<u16>().prop_map(Ix::In), 1 => Just(Ix::Len), 1 => Just(Ix::LenPlus1), 1 => Just(Ix::Max)].boxed()
}
fn small_value() -> BoxedStrategy<RVal> {
    let cfg = GenCfg { depth: 2, wf: true, max_str: 6, nan: true };
    gv::top_value(cfg)
}
/// values that a decoder can return and whose text cannot cross the C boundary as a C string (an interior NUL):
/// every string getter must fail cleanly on them, with a retrievable message
fn nul_value() -> BoxedStrategy<RVal> {
    let t = || prop::sample::select(vec!["\0", "a\0b", "\0tail", "head\0", "é\0日"]).prop_map(String::from);
    prop_oneof![
        2 => t().prop_map(RVal::Str),
        2 => t().prop_map(RVal::Uri),
        2 => t().prop_map(|v| RVal::XStr("Foo".into(), v)),
        1 => t().prop_map(|v| RVal::XStr(v, "x".into())),
        2 => t().prop_map(|d| RVal::Ref("a".into(), Some(d))),
        1 => t().prop_map(|i| RVal::Ref(i, None)),
        1 => t().prop_map(RVal::Symbol),
        1 => t().prop_map(|v| RVal::List(vec![RVal::Str(v.clone()), RVal::XStr("Foo".into(), v)])),
        1 => t().prop_map(|k| RVal::Dict([(k, RVal::Marker), ("ok".to_string(), RVal::num(1.0))].into_iter().collect())),
    ]
    .boxed()
}

fn doc_text() -> BoxedStrategy<Txt> {
    // Zinc / JSON documents: valid ones (from generated values), broken ones, and documents whose
    // error messages carry unusual characters
    prop_oneof![
        4 => small_value().prop_map(|v| Txt::S(crate::refimpl::zinc::write(&v, &mut crate::refimpl::zinc::Ch::canonical()))),
        4 => small_value().prop_map(|v| Txt::S(crate::refimpl::hayson::write(&v, &mut crate::refimpl::zinc::Ch::canonical()))),
        1 => (long_mb(), 0u8..4).prop_map(|(s, k)| Txt::S(match k {
            0 => format!("5{s}"),
            1 => format!("{{\"_kind\":\"{s}\"}}"),
            2 => format!("{{\"_kind\":\"number\",\"val\":1,\"unit\":\"{s}\"}}"),
            _ => format!("[\"{s}\", {s}"),
        })),
        2 => prop::sample::select(vec!["[1,2", "{a:", "ver:\"3.0\"\na\n1,2\n", "@", "{\"_kind\":\"nope\"}", "{\"_kind\":\"\\u0001\"}", "{\"_kind\":\"\\u0000\"}", "\u{1}", "5zz", "{\"_kind\":\"number\",\"val\":1,\"unit\":\"\\u0000\"}",
            "{\"_kind\":\"xstr\",\"type\":\"Foo\",\"val\":\"a\\u0000b\"}", "Foo(\"a\\u0000b\")", "\"a\\u0000b\"", "@a \"x\\u0000y\"", "{\"_kind\":\"uri\",\"val\":\"a\\u0000\"}", "{\"_kind\":\"ref\",\"val\":\"a\",\"dis\":\"\\u0000\"}", "[\"\\u0000\", 23:59:60, 12:00:60.5]",
            "{\"_kind\":\"grid\",\"meta\":{\"ver\":\"3.0\"},\"cols\":[{\"name\":\"a\"}],\"rows\":[{\"a\":1,\"b\":2},{\"a\":{\"_kind\":\"marker\"},\"dis\":\"x\"}]}",
            "{\"_kind\":\"grid\",\"cols\":[{\"name\":\"b\",\"meta\":{\"dis\":\"B\"}}],\"rows\":[{\"a\":1},{\"b\":1,\"id\":{\"_kind\":\"ref\",\"val\":\"r\"}}]}",
            "{\"_kind\":\"grid\",\"cols\":[],\"rows\":[{\"a\":1}]}",
            "\n42kW", "\r\n[1]", "\u{a0}1", "\u{c}T", "  \t 5", "\n", " ", "{\"_kind\":\"time\",\"val\":\"23:59:60.25\"}"]).prop_map(|s| Txt::S(s.to_string())),
        1 => txt(),
    ]
    .boxed()
}
fn filter_text() -> BoxedStrategy<Txt> {
    prop_oneof![
        5 => prop::sample::select(vec!["a", "not a", "a == 1", "a != 1", "a < 2", "dis == \"x\"", "a and b", "a or b", "a->b", "(a", "==", "id == @r", "a == \"\u{1}\"", "b >= 1m"]).prop_map(|s| Txt::S(s.to_string())),
        2 => crate::gen::filter::filter_or(1, false).prop_map(|f| Txt::S(crate::gen::filter::print(&f, &[]).0)),
        1 => long_mb().prop_map(|s| Txt::S(format!("a \"{s}\""))),
        1 => txt(),
    ]
    .boxed()
}

pub fn op() -> BoxedStrategy<Op> {
    use Op::*;
    prop_oneof![
        4 => (slot(), 0u8..7).prop_map(|(s, k)| MakeSimple(s, k)),
        1 => (slot(), any::<bool>()).prop_map(|(s, b)| MakeBool(s, b)),
        2 => (slot(), gv::finite_f64()).prop_map(|(s, v)| MakeNumber(s, v)),
        2 => (slot(), gv::finite_f64(), txt()).prop_map(|(s, v, u)| MakeNumberUnit(s, v, u)),
        1 => (slot(), -90.0f64..90.0, -180.0f64..180.0).prop_map(|(s, a, b)| MakeCoord(s, a, b)),
        4 => (slot(), 0u8..4, txt()).prop_map(|(s, k, t)| MakeText(s, k, t)),
        1 => (slot(), txt(), txt()).prop_map(|(s, a, b)| MakeRefDis(s, a, b)),
        1 => (slot(), txt(), txt()).prop_map(|(s, a, b)| MakeXStr(s, a, b)),
        2 => (slot(), 0u32..26, 0u32..62, prop_oneof![6 => 0u32..62, 1 => Just(59u32)], prop::option::of(prop_oneof![5 => 0u32..1100, 1 => 1000u32..2100])).prop_map(|(s, h, m, sec, ms)| MakeTime(s, h, m, sec, ms)),
        2 => (slot(), prop_oneof![10 => 0i32..=9999, 1 => -60i32..0, 1 => 10_000i32..10_060, 1 => prop::sample::select(vec![-262_143i32, 262_142, -1, 10_000, i32::MIN, i32::MAX])], 0u32..14, 0u32..33).prop_map(|(s, y, m, d)| MakeDate(s, y, m, d)),
        2 => (slot(), slot(), slot()).prop_map(|(s, d, t)| MakeUtcDt(s, d, t)),
        2 => (slot(), slot(), slot(), txt()).prop_map(|(s, d, t, z)| MakeTzDt(s, d, t, z)),
        3 => (slot(), slot(), prop::option::of(slot())).prop_map(|(s, r, m)| GridFromRows(s, r, m)),
        3 => (slot(), doc_text()).prop_map(|(s, t)| FromZinc(s, t)),
        3 => (slot(), doc_text()).prop_map(|(s, t)| FromJson(s, t)),
        6 => (slot(), small_value()).prop_map(|(s, v)| Put(s, v)),
        1 => (slot(), nul_value()).prop_map(|(s, v)| Put(s, v)),
        4 => (slot(), 0u8..18).prop_map(|(s, k)| Is(s, k)),
        8 => (slot(), 0u8..GETTERS as u8).prop_map(|(s, g)| Get(s, g)),
        2 => slot().prop_map(ListLen),
        5 => (slot(), slot()).prop_map(|(l, e)| ListPush(l, e)),
        4 => (slot(), ix(), any::<bool>()).prop_map(|(l, i, n)| ListGet(l, i, n)),
        4 => (slot(), ix(), slot()).prop_map(|(l, i, e)| ListSet(l, i, e)),
        3 => (slot(), ix()).prop_map(|(l, i)| ListRemove(l, i)),
        3 => (slot(), any::<u16>()).prop_map(|(l, i)| ListPushOwn(l, i)),
        1 => (slot(), any::<u16>(), any::<u16>()).prop_map(|(l, i, j)| ListSetOwn(l, i, j)),
        2 => (slot(), any::<u16>(), any::<u16>()).prop_map(|(l, i, k)| ListSetNested(l, i, k)),
        2 => (slot(), any::<u16>(), txt()).prop_map(|(d, n, k)| DictInsertOwn(d, n, k)),
        3 => (slot(), any::<u16>(), 0u8..8).prop_map(|(d, n, t)| DictInsertTwin(d, n, t)),
        2 => (slot(), any::<u16>()).prop_map(|(l, i)| DictKeysOwn(l, i)),
        2 => slot().prop_map(DictLen),
        3 => (slot(), slot()).prop_map(|(d, r)| DictKeys(d, r)),
        5 => (slot(), txt(), slot()).prop_map(|(d, k, e)| DictInsert(d, k, e)),
        4 => (slot(), txt(), any::<bool>()).prop_map(|(d, k, n)| DictGet(d, k, n)),
        3 => (slot(), txt()).prop_map(|(d, k)| DictRemove(d, k)),
        2 => slot().prop_map(GridLen),
        3 => (slot(), ix(), slot()).prop_map(|(g, i, r)| GridRowAt(g, i, r)),
        2 => (slot(), any::<bool>(), slot()).prop_map(|(s, u, r)| DtDate(s, u, r)),
        2 => (slot(), any::<bool>(), slot()).prop_map(|(s, u, r)| DtTime(s, u, r)),
        3 => slot().prop_map(ToZinc),
        3 => slot().prop_map(ToJson),
        3 => (fslot(), filter_text()).prop_map(|(f, t)| FilterParse(f, t)),
        3 => (fslot(), slot()).prop_map(|(f, d)| FilterMatchDict(f, d)),
        2 => (fslot(), slot(), slot()).prop_map(|(f, g, r)| FilterFirst(f, g, r)),
        2 => (fslot(), slot(), slot()).prop_map(|(f, g, r)| FilterAll(f, g, r)),
        4 => Just(LastError),
        3 => slot().prop_map(Destroy),
    ]
    .boxed()
}

pub fn ops(max: usize) -> BoxedStrategy<Vec<Op>> {
    // a few handles are filled first (containers, dates, times, records) so that later calls meet live values of the right kind
    let cfg = GenCfg { depth: 1, wf: true, max_str: 6, nan: true };
    let inner = gv::value(GenCfg { depth: 0, ..cfg });
    let incons: BoxedStrategy<RVal> = (prop::collection::vec(gv::dict_of(cfg, inner.clone(), 3), 1..4), any::<u8>()).prop_map(|(mut rows, k)| {
            for (i, r) in rows.iter_mut().enumerate() {
                r.insert(["a", "b", "dis", "id"][(k as usize + i) % 4].to_string(), if i % 2 == 0 { RVal::num(1.0) } else { RVal::Str("x".into()) });
            }
            let cols = if k % 3 == 0 { vec![] } else { vec![RCol { name: "a".into(), meta: if k % 2 == 0 { None } else { Some([("dis".to_string(), RVal::Str("A".into()))].into_iter().collect()) } }] };
            RVal::Grid(RGrid { meta: None, cols, rows })
        })
    .boxed();
    let seedv = prop_oneof![
        3 => prop::collection::vec(inner.clone(), 0..4).prop_map(RVal::List),
        3 => gv::dict_of(cfg, inner.clone(), 4).prop_map(RVal::Dict),
        2 => prop::collection::vec(gv::dict_of(cfg, inner.clone(), 3).prop_map(RVal::Dict), 1..4).prop_map(RVal::List),
        2 => gv::grid_of(cfg, inner.clone()).prop_map(RVal::Grid),
        1 => gv::date(cfg),
        // dates the constructors accept although no text encoding can write them
        1 => (prop::sample::select(vec![-43i32, -1, 10_000, 12_345, 0, 9_999, -9_999]), 1u32..=12, 1u32..=28).prop_map(|(y, m, d)| RVal::Date(y, m, d)),
        1 => gv::time(),
        2 => gv::datetime(cfg),
        2 => small_value(),
        // grids as the Hayson decoder may return them: row tags that are no declared column, no columns at all
        2 => incons.clone(),
        // lists of lists of lists (borrowed entry pointers can point two and three levels down)
        2 => prop::collection::vec(prop::collection::vec(prop::collection::vec(inner.clone(), 0..4).prop_map(RVal::List), 0..4).prop_map(RVal::List), 1..4).prop_map(RVal::List),
    ];
    // one sequence in six starts with the scenario that needs three things at once: such a grid in a slot, a filter that
    // its rows can match, and the grid-level filter calls on exactly that pair
    let scenario = (0u8..6, slot(), fslot(), slot(), incons, prop::sample::select(vec!["a", "b", "dis", "id", "not a", "a == 1", "dis == \"x\"", "a or b or dis or id"]));
    (prop::collection::vec((slot(), seedv), 0..6), prop::collection::vec(op(), 1..=max), scenario)
        .prop_map(|(pre, mut rest, (on, gs, fs, rs, grid, ftext))| {
            let mut v: Vec<Op> = pre.into_iter().map(|(s, val)| Op::Put(s, val)).collect();
            if on == 0 {
                v.push(Op::Put(gs, grid));
                v.push(Op::FilterParse(fs, Txt::S(ftext.to_string())));
                v.push(Op::FilterAll(fs, gs, rs));
                v.push(Op::FilterFirst(fs, gs, rs));
            }
            v.append(&mut rest);
            v
        })
        .boxed()
}

// ---------------------------------------------------------------------------------------------
// interpreter + model

pub struct Machine {
    /// C side: raw handles owned per the protocol
    handles: Vec<*mut Value>,
    filters: Vec<Option<Box<Filter>>>,
    /// model side: the same values maintained with plain Rust operations
    model: Vec<Option<Value>>,
    mfilters: Vec<Option<Filter>>,
    pending_error: bool,
    /// a caller that does not look at error messages right away: they are read only by the LastError op and at the end
    /// (one sequence in four; the message-related assertions are skipped for it, the memory-related ones are the point)
    pub defer_errors: bool,
    pub soft_unexpected_error_after_success: u64,
    pub failing_ops: u64,
    pub aliasing_skipped: u64,
    pub ok_ops: std::collections::BTreeMap<String, u64>,
}

fn take_cstr(p: *const c_char) -> Option<String> {
    if p.is_null() {
        None
    } else {
        unsafe {
            let s = CStr::from_ptr(p).to_string_lossy().to_string();
            c_api::str::haystack_string_destroy(p as *mut c_char);
            Some(s)
        }
    }
}

/// a value that libhaystack's `==` cannot tell from `v` although it is a different value (None: `v` has no such twin)
fn twin_of(v: &Value) -> Option<Value> {
    match v {
        Value::Ref(r) => Some(Value::Ref(Ref { value: r.value.clone(), dis: if r.dis.is_some() { None } else { Some("twin".into()) } })),
        Value::DateTime(dt) => {
            let p = project_dt(dt);
            let other = if p.tz == "UTC" { "Asia/Tokyo" } else { "UTC" };
            Some(build(&crate::gen::value::make_dt(other, p.secs, p.nanos)))
        }
        Value::List(l) => {
            let mut out: Vec<Value> = l.iter().cloned().collect();
            for x in out.iter_mut() {
                if let Some(t) = twin_of(x) {
                    *x = t;
                    return Some(Value::make_list(out));
                }
            }
            None
        }
        Value::Dict(d) => {
            let mut out = d.clone();
            for (_, x) in out.iter_mut() {
                if let Some(t) = twin_of(x) {
                    *x = t;
                    return Some(Value::make_dict(out));
                }
            }
            None
        }
        _ => None,
    }
}

fn eq_val(a: &Value, b: &Value) -> bool {
    diff(&project(a), &project(b)).diffs.is_empty() && project(a).kind() == project(b).kind()
}

/// expected outcome of an op
enum Expect {
    /// failure: documented sentinel + error message, nothing changes
    Fail,
    Ok,
}

macro_rules! bail {
    ($op:expr, $($arg:tt)*) => {
        return Verdict::fail(format!("C17:{}", op_name($op)), format!($($arg)*))
    };
}

pub fn op_name(op: &Op) -> String {
    op.to_json()[0].as_str().unwrap_or("?").to_string()
}

#[derive(Clone, Copy, PartialEq)]
pub enum W {
    Any,
    List,
    Dict,
    Grid,
    Rows,
    Number,
    Str,
    Ref,
    Symbol,
    Uri,
    XStr,
    Coord,
    Date,
    Time,
    DateTime,
}

fn matches_w(v: &Value, w: W) -> bool {
    match w {
        W::Any => true,
        W::List => v.is_list(),
        W::Dict => v.is_dict(),
        W::Grid => v.is_grid(),
        W::Rows => matches!(v, Value::List(l) if !l.is_empty() && l.iter().all(|x| x.is_dict())),
        W::Number => v.is_number(),
        W::Str => v.is_str(),
        W::Ref => v.is_ref(),
        W::Symbol => v.is_symbol(),
        W::Uri => v.is_uri(),
        W::XStr => v.is_xstr(),
        W::Coord => v.is_coord(),
        W::Date => v.is_date(),
        W::Time => v.is_time(),
        W::DateTime => v.is_datetime(),
    }
}

impl Machine {
    /// Resolve a generated handle selector against the current pool: mostly a live handle of the wanted
    /// kind (so calls meet valid arguments), sometimes the raw slot (any kind), sometimes an empty slot (null).
    /// A pure function of the op list and the state, so a sequence replays identically.
    fn sel(&self, b: u8, want: W) -> u8 {
        let raw = b & 7;
        let mode = b >> 3;
        if mode < 22 {
            let c: Vec<u8> = (0..SLOTS as u8).filter(|i| self.model[*i as usize].as_ref().map_or(false, |v| matches_w(v, want))).collect();
            if c.is_empty() {
                raw
            } else {
                c[mode as usize % c.len()]
            }
        } else if mode < 28 {
            raw
        } else {
            (0..SLOTS as u8).find(|i| self.model[*i as usize].is_none()).unwrap_or(raw)
        }
    }

    pub fn new() -> Machine {
        Machine {
            handles: vec![std::ptr::null_mut(); SLOTS],
            filters: (0..FSLOTS).map(|_| None).collect(),
            model: (0..SLOTS).map(|_| None).collect(),
            mfilters: (0..FSLOTS).map(|_| None).collect(),
            pending_error: false,
            defer_errors: false,
            soft_unexpected_error_after_success: 0,
            failing_ops: 0,
            aliasing_skipped: 0,
            ok_ops: Default::default(),
        }
    }

    fn h(&self, s: u8) -> *mut Value {
        self.handles[s as usize % SLOTS]
    }
    fn m(&self, s: u8) -> Option<&Value> {
        self.model[s as usize % SLOTS].as_ref()
    }
    fn fptr(&self, f: u8) -> *const Filter {
        match &self.filters[f as usize % FSLOTS] {
            Some(b) => &**b as *const Filter,
            None => std::ptr::null(),
        }
    }

    /// store a freshly made handle (C constructor result) and its model value into a slot
    fn store(&mut self, s: u8, made: Option<Box<Value>>, expect: Option<Value>, op: &Op) -> Verdict {
        let s = s as usize % SLOTS;
        match (made, expect) {
            (Some(b), Some(v)) => {
                if !eq_val(&b, &v) {
                    // free before reporting
                    drop(b);
                    bail!(op, "{:?} produced {}, the Rust API gives {}", op.to_json(), render(&project(&v)), "a different value");
                }
                let raw = Box::into_raw(b);
                if !self.handles[s].is_null() {
                    unsafe { c_api::value::haystack_value_destroy(self.handles[s]) };
                }
                self.handles[s] = raw;
                self.model[s] = Some(v);
                self.after(Expect::Ok, op)
            }
            (None, None) => self.after(Expect::Fail, op),
            (Some(b), None) => {
                let got = render(&project(&b));
                drop(b);
                bail!(op, "{:?} returned a value ({got}) where the Rust API reports an error", op.to_json());
            }
            (None, Some(v)) => {
                let msg = take_cstr(unsafe { c_api::err::last_error_message() });
                bail!(op, "{:?} returned null ({msg:?}) where the Rust API gives {}", op.to_json(), render(&project(&v)));
            }
        }
    }

    /// the error-message protocol after an op
    fn after(&mut self, e: Expect, op: &Op) -> Verdict {
        if self.defer_errors {
            if matches!(e, Expect::Fail) {
                self.failing_ops += 1;
            } else {
                *self.ok_ops.entry(op_name(op)).or_insert(0) += 1;
            }
            return self.snapshot(op);
        }
        match e {
            Expect::Fail => {
                self.failing_ops += 1;
                let m = take_cstr(unsafe { c_api::err::last_error_message() });
                if m.is_none() {
                    bail!(op, "{:?} failed but no error message can be retrieved", op.to_json());
                }
                let again = take_cstr(unsafe { c_api::err::last_error_message() });
                if again.is_some() {
                    bail!(op, "{:?}: the error message is returned twice", op.to_json());
                }
                self.pending_error = false;
            }
            Expect::Ok => {
                *self.ok_ops.entry(op_name(op)).or_insert(0) += 1;
                let m = take_cstr(unsafe { c_api::err::last_error_message() });
                if m.is_some() && !self.pending_error {
                    self.soft_unexpected_error_after_success += 1;
                }
                self.pending_error = false;
            }
        }
        self.snapshot(op)
    }

    /// every pooled handle still equals its model value
    fn snapshot(&self, op: &Op) -> Verdict {
        for s in 0..SLOTS {
            match (self.handles[s].is_null(), &self.model[s]) {
                (true, None) => {}
                (false, Some(v)) => {
                    let hv = unsafe { &*self.handles[s] };
                    if !eq_val(hv, v) {
                        bail!(op, "after {:?} handle {s} holds {} but the same operations on Rust values give {}", op.to_json(), render(&project(hv)), render(&project(v)));
                    }
                }
                _ => bail!(op, "handle/model presence mismatch in slot {s}"),
            }
        }
        Verdict::Pass
    }

    fn expect_rt(&mut self, got: ResultType, want: Option<bool>, op: &Op) -> Verdict {
        let w = match want {
            None => ResultType::ERR,
            Some(true) => ResultType::TRUE,
            Some(false) => ResultType::FALSE,
        };
        if got != w {
            bail!(op, "{:?} returned {got:?}, expected {w:?}", op.to_json());
        }
        self.after(if want.is_none() { Expect::Fail } else { Expect::Ok }, op)
    }

    fn expect_str(&mut self, got: *const c_char, want: Result<Option<String>, ()>, op: &Op) -> Verdict {
        let g = take_cstr(got);
        match want {
            Err(()) => {
                if g.is_some() {
                    bail!(op, "{:?} returned {g:?}, expected a null pointer and an error", op.to_json());
                }
                self.after(Expect::Fail, op)
            }
            Ok(w) => {
                if g != w {
                    bail!(op, "{:?} returned {g:?}, the Rust API gives {w:?}", op.to_json());
                }
                self.after(Expect::Ok, op)
            }
        }
    }

    pub fn step(&mut self, op: &Op) -> Verdict {
        use Op::*;
        unsafe {
            match op {
                MakeSimple(s, k) => {
                    let (b, v): (Box<Value>, Value) = match k % 7 {
                        0 => (c_api::value::haystack_value_init(), Value::Null),
                        1 => (c_api::value::haystack_value_make_marker(), Value::Marker),
                        2 => (c_api::value::haystack_value_make_na(), Value::Na),
                        3 => (c_api::value::haystack_value_make_remove(), Value::Remove),
                        4 => (c_api::value::haystack_value_make_list(), Value::make_list(vec![])),
                        5 => (c_api::value::haystack_value_make_dict(), Value::make_dict(Dict::new())),
                        _ => (c_api::value::haystack_value_make_grid(), Value::make_grid(Grid::make_empty())),
                    };
                    self.store(*s, Some(b), Some(v), op)
                }
                MakeBool(s, b) => self.store(*s, Some(c_api::value::haystack_value_make_bool(*b)), Some(Value::make_bool(*b)), op),
                MakeNumber(s, v) => self.store(*s, Some(c_api::value::haystack_value_make_number(*v)), Some(Value::make_number(*v)), op),
                MakeNumberUnit(s, v, u) => {
                    let c = u.cstring();
                    let made = c_api::value::haystack_value_make_number_with_unit(*v, c.as_ref().map_or(std::ptr::null(), |c| c.as_ptr()));
                    let want = u.as_str().and_then(|n| get_unit(&n)).map(|unit| Value::make_number_unit(*v, unit));
                    self.store(*s, made, want, op)
                }
                MakeCoord(s, a, b) => self.store(*s, Some(c_api::value::haystack_value_make_coord(*a, *b)), Some(Value::make_coord_from(*a, *b)), op),
                MakeText(s, k, t) => {
                    let c = t.cstring();
                    let p = c.as_ref().map_or(std::ptr::null(), |c| c.as_ptr());
                    let (made, want) = match k % 4 {
                        0 => (c_api::value::haystack_value_make_str(p), t.as_str().map(|x| Value::make_str(&x))),
                        1 => (c_api::value::haystack_value_make_ref(p), t.as_str().map(|x| Value::make_ref(&x))),
                        2 => (c_api::value::haystack_value_make_uri(p), t.as_str().map(|x| Value::make_uri(&x))),
                        _ => (c_api::value::haystack_value_make_symbol(p), t.as_str().map(|x| Value::make_symbol(&x))),
                    };
                    self.store(*s, made, want, op)
                }
                MakeRefDis(s, a, b) => {
                    let (ca, cb) = (a.cstring(), b.cstring());
                    let made = c_api::value::haystack_value_make_ref_with_dis(ca.as_ref().map_or(std::ptr::null(), |c| c.as_ptr()), cb.as_ref().map_or(std::ptr::null(), |c| c.as_ptr()));
                    let want = match (a.as_str(), b.as_str()) {
                        (Some(x), Some(y)) => Some(Value::make_ref_with_dis(&x, &y)),
                        _ => None,
                    };
                    self.store(*s, made, want, op)
                }
                MakeXStr(s, a, b) => {
                    let (ca, cb) = (a.cstring(), b.cstring());
                    let made = c_api::value::haystack_value_make_xstr(ca.as_ref().map_or(std::ptr::null(), |c| c.as_ptr()), cb.as_ref().map_or(std::ptr::null(), |c| c.as_ptr()));
                    let want = match (a.as_str(), b.as_str()) {
                        (Some(x), Some(y)) => Some(Value::make_xstr_from(&x, &y)),
                        _ => None,
                    };
                    self.store(*s, made, want, op)
                }
                MakeTime(s, h, m, sec, ms) => {
                    let (made, want) = match ms {
                        None => (c_api::value::haystack_value_make_time(*h, *m, *sec), Time::from_hms(*h, *m, *sec).ok().map(Value::make_time)),
                        Some(ms) => (c_api::value::haystack_value_make_time_millis(*h, *m, *sec, *ms), Time::from_hms_milli(*h, *m, *sec, *ms).ok().map(Value::make_time)),
                    };
                    self.store(*s, made, want, op)
                }
                MakeDate(s, y, m, d) => self.store(*s, c_api::value::haystack_value_make_date(*y, *m, *d), Date::from_ymd(*y, *m, *d).ok().map(Value::make_date), op),
                MakeUtcDt(s, d, t) => {
                    let (d, t) = (&self.sel(*d, W::Date), &self.sel(*t, W::Time));

                    let made = c_api::value::haystack_value_make_utc_datetime(self.h(*d), self.h(*t));
                    let want = match (self.m(*d), self.m(*t)) {
                        (Some(Value::Date(dd)), Some(Value::Time(tt))) => {
                            use chrono::TimeZone;
                            let ndt = chrono::NaiveDateTime::new(**dd, **tt);
                            Some(Value::make_datetime(chrono::Utc.from_utc_datetime(&ndt).into()))
                        }
                        _ => None,
                    };
                    self.store(*s, made, want, op)
                }
                MakeTzDt(s, d, t, z) => {
                    let (d, t) = (&self.sel(*d, W::Date), &self.sel(*t, W::Time));

                    let c = z.cstring();
                    let made = c_api::value::haystack_value_make_tz_datetime(self.h(*d), self.h(*t), c.as_ref().map_or(std::ptr::null(), |c| c.as_ptr()));
                    let want = match (self.m(*d), self.m(*t), z.as_str()) {
                        (Some(Value::Date(dd)), Some(Value::Time(tt)), Some(zone)) => {
                            use chrono::{Offset, TimeZone};
                            let ndt = chrono::NaiveDateTime::new(**dd, **tt);
                            let utc = chrono::Utc.from_utc_datetime(&ndt).with_timezone(&chrono::Utc.fix());
                            libhaystack::timezone::make_date_time_with_tz(&utc, &zone).ok().map(|x| Value::DateTime(x.into()))
                        }
                        _ => None,
                    };
                    // the fields may be read as UTC (as above) or as the zone's wall clock: accept either instant
                    let mut want = want;
                    if let (Some(b), Some(w)) = (&made, &want) {
                        if !eq_val(b, w) {
                            if let (Value::DateTime(g), Value::DateTime(x)) = (&**b, w) {
                                if g.naive_local() == x.naive_utc() && g.timezone_short_name() == x.timezone_short_name() {
                                    want = Some((**b).clone());
                                }
                            }
                        }
                    }
                    self.store(*s, made, want, op)
                }
                GridFromRows(s, r, meta) => {
                    let r = &self.sel(*r, W::Rows);
                    let meta_v = meta.map(|m| self.sel(m, W::Dict));
                    let meta = &meta_v;

                    let made = match meta {
                        None => c_api::grid::haystack_value_make_grid_from_rows(self.h(*r)),
                        Some(m) => c_api::grid::haystack_value_make_grid_from_rows_with_meta(self.h(*r), self.h(*m)),
                    };
                    let rows: Option<Vec<Dict>> = match self.m(*r) {
                        Some(Value::List(l)) => {
                            let d: Vec<Dict> = l.iter().filter_map(|v| if let Value::Dict(d) = v { Some(d.clone()) } else { None }).collect();
                            // a list carrying non-dict entries is a wrong-kind argument: an error, or a grid of the dict entries
                            if d.is_empty() {
                                None
                            } else {
                                Some(d)
                            }
                        }
                        _ => None,
                    };
                    let want = match (rows, meta) {
                        (Some(rows), None) => Some(Value::make_grid(Grid::make_from_dicts(rows))),
                        (Some(rows), Some(m)) => match self.m(*m) {
                            Some(Value::Dict(md)) => Some(Value::make_grid(Grid::make_from_dicts_with_meta(rows, md.clone()))),
                            _ => None,
                        },
                        _ => None,
                    };
                    let mixed = matches!(self.m(*r), Some(Value::List(l)) if l.iter().any(|v| !v.is_dict()) && l.iter().any(|v| v.is_dict()));
                    if mixed && made.is_none() {
                        // rejecting a list with non-dict entries is the other acceptable reading
                        return self.store(*s, None, None, op);
                    }
                    self.store(*s, made, want, op)
                }
                FromZinc(s, t) => {
                    let c = t.cstring();
                    let made = c_api::zinc::haystack_value_from_zinc_string(c.as_ref().map_or(std::ptr::null(), |c| c.as_ptr()));
                    let want = t.as_str().and_then(|x| libhaystack::encoding::zinc::decode::from_str(&x).ok());
                    self.store(*s, made, want, op)
                }
                FromJson(s, t) => {
                    let c = t.cstring();
                    let made = c_api::json::haystack_value_from_json_string(c.as_ref().map_or(std::ptr::null(), |c| c.as_ptr()));
                    let want = t.as_str().and_then(|x| serde_json::from_str::<Value>(&x).ok());
                    self.store(*s, made, want, op)
                }
                Put(s, v) => {
                    // a handle obtained from haystack_value_init and filled by decoding would restrict values;
                    // a Box<Value> made in Rust is exactly what every constructor hands out
                    let val = build(v);
                    self.store(*s, Some(Box::new(val.clone())), Some(val), op)
                }
                Is(s, k) => {
                    let s = &self.sel(*s, W::Any);

                    let p = self.h(*s) as *const Value;
                    use c_api::value::*;
                    let got = match k % 18 {
                        0 => haystack_value_is_null(p),
                        1 => haystack_value_is_marker(p),
                        2 => haystack_value_is_na(p),
                        3 => haystack_value_is_remove(p),
                        4 => haystack_value_is_bool(p),
                        5 => haystack_value_is_number(p),
                        6 => haystack_value_is_coord(p),
                        7 => haystack_value_is_str(p),
                        8 => haystack_value_is_ref(p),
                        9 => haystack_value_is_uri(p),
                        10 => haystack_value_is_symbol(p),
                        11 => haystack_value_is_xstr(p),
                        12 => haystack_value_is_time(p),
                        13 => haystack_value_is_date(p),
                        14 => haystack_value_is_datetime(p),
                        15 => haystack_value_is_list(p),
                        16 => haystack_value_is_dict(p),
                        _ => haystack_value_is_grid(p),
                    };
                    match self.m(*s) {
                        None => {
                            if got {
                                bail!(op, "{:?} on a null handle returned true", op.to_json());
                            }
                            self.after(Expect::Fail, op)
                        }
                        Some(v) => {
                            let want = match k % 18 {
                                0 => v.is_null(),
                                1 => v.is_marker(),
                                2 => v.is_na(),
                                3 => v.is_remove(),
                                4 => v.is_bool(),
                                5 => v.is_number(),
                                6 => v.is_coord(),
                                7 => v.is_str(),
                                8 => v.is_ref(),
                                9 => v.is_uri(),
                                10 => v.is_symbol(),
                                11 => v.is_xstr(),
                                12 => v.is_time(),
                                13 => v.is_date(),
                                14 => v.is_datetime(),
                                15 => v.is_list(),
                                16 => v.is_dict(),
                                _ => v.is_grid(),
                            };
                            if got != want {
                                bail!(op, "{:?} returned {got} for a {} value", op.to_json(), project(v).kind());
                            }
                            self.after(Expect::Ok, op)
                        }
                    }
                }
                Get(s, g) => {
                    let want = match *g as usize % GETTERS {
                        0 | 1 | 2 => W::Number,
                        3 | 4 => W::Str,
                        5 | 6 | 7 => W::Ref,
                        8 | 9 => W::Symbol,
                        10 | 11 => W::Uri,
                        12 | 13 => W::XStr,
                        14 | 15 => W::Coord,
                        16 | 17 | 18 => W::Date,
                        19 | 20 | 21 | 22 => W::Time,
                        _ => W::DateTime,
                    };
                    let s = self.sel(*s, want);
                    self.getter(s, *g, op)
                }
                ListLen(s) => {
                    let s = &self.sel(*s, W::List);

                    let got = c_api::list::haystack_value_get_list_len(self.h(*s));
                    let want = match self.m(*s) {
                        Some(Value::List(l)) => Some(l.len()),
                        _ => None,
                    };
                    self.expect_usize(got, want, op)
                }
                ListPush(l, e) => {
                    let (l, e) = (&self.sel(*l, W::List), &self.sel(*e, W::Any));

                    if l == e && !self.h(*l).is_null() {
                        self.aliasing_skipped += 1;
                        return Verdict::Pass;
                    }
                    let got = c_api::list::haystack_value_push_list_entry(self.h(*l), self.h(*e));
                    let entry = self.m(*e).cloned();
                    let want = match (&mut self.model[*l as usize % SLOTS], entry) {
                        (Some(Value::List(list)), Some(v)) => {
                            list.push(v);
                            Some(true)
                        }
                        _ => None,
                    };
                    self.expect_rt(got, want, op)
                }
                ListGet(l, i, null_result) => {
                    let l = &self.sel(*l, W::List);

                    let len = match self.m(*l) {
                        Some(Value::List(x)) => x.len(),
                        _ => 0,
                    };
                    let index = i.resolve(len);
                    let mut out: *const Value = std::ptr::null();
                    let res: *mut *const Value = if *null_result { std::ptr::null_mut() } else { &mut out };
                    let got = c_api::list::haystack_value_get_list_entry_at(self.h(*l), index, res);
                    let want = match self.m(*l) {
                        Some(Value::List(x)) if !*null_result => x.get(index).cloned(),
                        _ => None,
                    };
                    match want {
                        Some(v) => {
                            if got != ResultType::TRUE || out.is_null() {
                                bail!(op, "{:?} (index {index} of {len}) returned {got:?}", op.to_json());
                            }
                            // the borrowed entry is read while the list is alive and unmodified
                            if !eq_val(&*out, &v) {
                                bail!(op, "{:?}: entry {index} is {}, expected {}", op.to_json(), render(&project(&*out)), render(&project(&v)));
                            }
                            self.after(Expect::Ok, op)
                        }
                        None => self.expect_rt(got, None, op),
                    }
                }
                ListSet(l, i, e) => {
                    let (l, e) = (&self.sel(*l, W::List), &self.sel(*e, W::Any));

                    if l == e && !self.h(*l).is_null() {
                        self.aliasing_skipped += 1;
                        return Verdict::Pass;
                    }
                    let len = match self.m(*l) {
                        Some(Value::List(x)) => x.len(),
                        _ => 0,
                    };
                    let index = i.resolve(len);
                    let got = c_api::list::haystack_value_set_list_entry_at(self.h(*l), index, self.h(*e));
                    let entry = self.m(*e).cloned();
                    let want = match (&mut self.model[*l as usize % SLOTS], entry) {
                        (Some(Value::List(list)), Some(v)) if index < list.len() => {
                            list[index] = v;
                            Some(true)
                        }
                        _ => None,
                    };
                    self.expect_rt(got, want, op)
                }
                ListSetNested(l, i, k) => {
                    let l = &self.sel(*l, W::List);
                    // entries of the list that are non-empty lists themselves
                    let inner: Vec<(usize, usize)> = match self.m(*l) {
                        Some(Value::List(x)) => x.iter().enumerate().filter_map(|(n, e)| if let Value::List(m) = e { (!m.is_empty()).then_some((n, m.len())) } else { None }).collect(),
                        _ => vec![],
                    };
                    if inner.is_empty() {
                        return Verdict::Pass;
                    }
                    let (at, len) = inner[idx(*i, inner.len())];
                    let sub = idx(*k, len);
                    let mut p1: *const Value = std::ptr::null();
                    if c_api::list::haystack_value_get_list_entry_at(self.h(*l), at, &mut p1) != ResultType::TRUE || p1.is_null() {
                        bail!(op, "{:?}: get_list_entry_at({at}) failed", op.to_json());
                    }
                    let mut p2: *const Value = std::ptr::null();
                    if c_api::list::haystack_value_get_list_entry_at(p1 as *mut Value, sub, &mut p2) != ResultType::TRUE || p2.is_null() {
                        bail!(op, "{:?}: get_list_entry_at(entry {at}, {sub}) failed", op.to_json());
                    }
                    // both borrowed pointers are valid: nothing was modified since they were handed out
                    let got = c_api::list::haystack_value_set_list_entry_at(self.h(*l), at, p2 as *mut Value);
                    if let Some(Value::List(list)) = &mut self.model[*l as usize % SLOTS] {
                        if let Value::List(m) = &list[at] {
                            let v = m[sub].clone();
                            list[at] = v;
                        }
                    }
                    let v = self.expect_rt(got, Some(true), op);
                    if v.is_fail() {
                        return v;
                    }
                    if let (Some(Value::List(list)), false) = (self.m(*l).cloned(), self.h(*l).is_null()) {
                        if !eq_val(&*self.h(*l), &Value::List(list)) {
                            bail!(op, "{:?}: the list differs from the model afterwards: {}", op.to_json(), render(&project(&*self.h(*l))));
                        }
                    }
                    v
                }
                ListPushOwn(l, i) | ListSetOwn(l, i, _) => {
                    // the protocol lets a borrowed entry pointer be used while its container is alive and
                    // unmodified - e.g. as the `entry` argument of a call on that same container
                    let l = &self.sel(*l, W::List);
                    let len = match self.m(*l) {
                        Some(Value::List(x)) => x.len(),
                        _ => 0,
                    };
                    if len == 0 {
                        return Verdict::Pass;
                    }
                    let src = idx(*i, len);
                    let mut out: *const Value = std::ptr::null();
                    if c_api::list::haystack_value_get_list_entry_at(self.h(*l), src, &mut out) != ResultType::TRUE || out.is_null() {
                        bail!(op, "{:?}: get_list_entry_at({src} of {len}) failed", op.to_json());
                    }
                    let (got, want) = match op {
                        ListSetOwn(_, _, j) => {
                            let dst = idx(*j, len);
                            let got = c_api::list::haystack_value_set_list_entry_at(self.h(*l), dst, out as *mut Value);
                            if let Some(Value::List(list)) = &mut self.model[*l as usize % SLOTS] {
                                let v = list[src].clone();
                                list[dst] = v;
                            }
                            (got, Some(true))
                        }
                        _ => {
                            let got = c_api::list::haystack_value_push_list_entry(self.h(*l), out);
                            if let Some(Value::List(list)) = &mut self.model[*l as usize % SLOTS] {
                                let v = list[src].clone();
                                list.push(v);
                            }
                            (got, Some(true))
                        }
                    };
                    let v = self.expect_rt(got, want, op);
                    if v.is_fail() {
                        return v;
                    }
                    // the whole list is read back (a stale entry pointer shows as a wrong element even without ASan)
                    if let (Some(Value::List(list)), false) = (self.m(*l).cloned(), self.h(*l).is_null()) {
                        if !eq_val(&*self.h(*l), &Value::List(list)) {
                            bail!(op, "{:?}: the list differs from the model afterwards: {}", op.to_json(), render(&project(&*self.h(*l))));
                        }
                    }
                    v
                }
                DictKeysOwn(l, i) => {
                    let l = &self.sel(*l, W::List);
                    let dicts: Vec<usize> = match self.m(*l) {
                        Some(Value::List(x)) => x.iter().enumerate().filter(|(_, e)| matches!(e, Value::Dict(_))).map(|(n, _)| n).collect(),
                        _ => vec![],
                    };
                    if dicts.is_empty() {
                        return Verdict::Pass;
                    }
                    let at = dicts[idx(*i, dicts.len())];
                    let mut p: *const Value = std::ptr::null();
                    if c_api::list::haystack_value_get_list_entry_at(self.h(*l), at, &mut p) != ResultType::TRUE || p.is_null() {
                        bail!(op, "{:?}: get_list_entry_at({at}) failed", op.to_json());
                    }
                    // the borrowed dict is valid when the call starts; the call may replace the list's content by the keys
                    let got = c_api::dict::haystack_value_get_dict_keys(p as *mut Value, self.h(*l));
                    let keys: Option<Value> = match self.m(*l) {
                        Some(Value::List(x)) => match &x[at] {
                            Value::Dict(d) => Some(Value::make_list(d.keys().map(|k| Value::make_str(k)).collect())),
                            _ => None,
                        },
                        _ => None,
                    };
                    if let Some(k) = keys {
                        self.model[*l as usize % SLOTS] = Some(k);
                    }
                    self.expect_rt(got, Some(true), op)
                }
                DictInsertTwin(d, n, tmp) => {
                    let d = &self.sel(*d, W::Dict);
                    let entries: Vec<(String, Value)> = match self.m(*d) {
                        Some(Value::Dict(x)) => x.iter().map(|(k, v)| (k.clone(), v.clone())).collect(),
                        _ => vec![],
                    };
                    let twins: Vec<(String, Value)> = entries.iter().filter_map(|(k, v)| twin_of(v).map(|t| (k.clone(), t))).collect();
                    if twins.is_empty() || (*tmp as usize % SLOTS) == (*d as usize % SLOTS) {
                        return Verdict::Pass;
                    }
                    let (key, twin) = twins[idx(*n, twins.len())].clone();
                    let Ok(ckey) = std::ffi::CString::new(key.clone()) else { return Verdict::Pass };
                    let v = self.store(*tmp, Some(Box::new(twin.clone())), Some(twin.clone()), op);
                    if v.is_fail() {
                        return v;
                    }
                    let got = c_api::dict::haystack_value_insert_dict_entry(self.h(*d), ckey.as_ptr(), self.h(*tmp));
                    if let Some(Value::Dict(dict)) = &mut self.model[*d as usize % SLOTS] {
                        dict.insert(key, twin);
                    }
                    // (the snapshot after the call compares every handle with its model value field by field)
                    self.expect_rt(got, Some(true), op)
                }
                DictInsertOwn(d, n, k) => {
                    let d = &self.sel(*d, W::Dict);
                    let keys: Vec<String> = match self.m(*d) {
                        Some(Value::Dict(x)) => x.keys().cloned().collect(),
                        _ => vec![],
                    };
                    let (Some(dst), false) = (k.as_str(), keys.is_empty()) else { return Verdict::Pass };
                    let src = keys[idx(*n, keys.len())].clone();
                    let Ok(csrc) = std::ffi::CString::new(src.clone()) else { return Verdict::Pass };
                    let mut out: *const Value = std::ptr::null();
                    if c_api::dict::haystack_value_get_dict_entry(self.h(*d), csrc.as_ptr(), &mut out) != ResultType::TRUE || out.is_null() {
                        bail!(op, "{:?}: get_dict_entry({src:?}) failed", op.to_json());
                    }
                    let c = k.cstring();
                    let got = c_api::dict::haystack_value_insert_dict_entry(self.h(*d), c.as_ref().map_or(std::ptr::null(), |c| c.as_ptr()), out);
                    if let Some(Value::Dict(dict)) = &mut self.model[*d as usize % SLOTS] {
                        let v = dict.get(&src).cloned().unwrap();
                        dict.insert(dst, v);
                    }
                    let v = self.expect_rt(got, Some(true), op);
                    if v.is_fail() {
                        return v;
                    }
                    if let (Some(Value::Dict(dict)), false) = (self.m(*d).cloned(), self.h(*d).is_null()) {
                        if !eq_val(&*self.h(*d), &Value::Dict(dict)) {
                            bail!(op, "{:?}: the dict differs from the model afterwards: {}", op.to_json(), render(&project(&*self.h(*d))));
                        }
                    }
                    v
                }
                ListRemove(l, i) => {
                    let l = &self.sel(*l, W::List);

                    let len = match self.m(*l) {
                        Some(Value::List(x)) => x.len(),
                        _ => 0,
                    };
                    let index = i.resolve(len);
                    let got = c_api::list::haystack_value_remove_list_entry_at(self.h(*l), index);
                    let want = match &mut self.model[*l as usize % SLOTS] {
                        Some(Value::List(list)) if index < list.len() => {
                            list.remove(index);
                            Some(true)
                        }
                        _ => None,
                    };
                    self.expect_rt(got, want, op)
                }
                DictLen(s) => {
                    let s = &self.sel(*s, W::Dict);

                    let got = c_api::dict::haystack_value_get_dict_len(self.h(*s));
                    let want = match self.m(*s) {
                        Some(Value::Dict(d)) => Some(d.len()),
                        _ => None,
                    };
                    self.expect_usize(got, want, op)
                }
                DictKeys(d, r) => {
                    let (d, r) = (&self.sel(*d, W::Dict), &self.sel(*r, W::Any));

                    if d == r && !self.h(*d).is_null() {
                        self.aliasing_skipped += 1;
                        return Verdict::Pass;
                    }
                    let got = c_api::dict::haystack_value_get_dict_keys(self.h(*d), self.h(*r));
                    let keys: Option<Value> = match (self.m(*d), self.m(*r)) {
                        (Some(Value::Dict(dict)), Some(_)) => Some(Value::make_list(dict.keys().map(|k| Value::make_str(k)).collect())),
                        _ => None,
                    };
                    let want = keys.is_some().then_some(true);
                    if let Some(k) = keys {
                        self.model[*r as usize % SLOTS] = Some(k);
                    }
                    self.expect_rt(got, want, op)
                }
                DictInsert(d, k, e) => {
                    let (d, e) = (&self.sel(*d, W::Dict), &self.sel(*e, W::Any));

                    if d == e && !self.h(*d).is_null() {
                        self.aliasing_skipped += 1;
                        return Verdict::Pass;
                    }
                    let c = k.cstring();
                    let got = c_api::dict::haystack_value_insert_dict_entry(self.h(*d), c.as_ref().map_or(std::ptr::null(), |c| c.as_ptr()), self.h(*e));
                    let entry = self.m(*e).cloned();
                    let want = match (&mut self.model[*d as usize % SLOTS], k.as_str(), entry) {
                        (Some(Value::Dict(dict)), Some(key), Some(v)) => {
                            dict.insert(key, v);
                            Some(true)
                        }
                        _ => None,
                    };
                    self.expect_rt(got, want, op)
                }
                DictGet(d, k, null_result) => {
                    let d = &self.sel(*d, W::Dict);

                    let c = k.cstring();
                    let mut out: *const Value = std::ptr::null();
                    let res: *mut *const Value = if *null_result { std::ptr::null_mut() } else { &mut out };
                    let got = c_api::dict::haystack_value_get_dict_entry(self.h(*d), c.as_ref().map_or(std::ptr::null(), |c| c.as_ptr()), res);
                    match (self.m(*d), k.as_str()) {
                        (Some(Value::Dict(dict)), Some(key)) if !*null_result => match dict.get(&key).cloned() {
                            Some(v) => {
                                if got != ResultType::TRUE || out.is_null() {
                                    bail!(op, "{:?} returned {got:?} for a present key", op.to_json());
                                }
                                if !eq_val(&*out, &v) {
                                    bail!(op, "{:?}: entry is {}, expected {}", op.to_json(), render(&project(&*out)), render(&project(&v)));
                                }
                                self.after(Expect::Ok, op)
                            }
                            None => self.expect_rt(got, Some(false), op),
                        },
                        _ => self.expect_rt(got, None, op),
                    }
                }
                DictRemove(d, k) => {
                    let d = &self.sel(*d, W::Dict);

                    let c = k.cstring();
                    let got = c_api::dict::haystack_value_remove_dict_entry(self.h(*d), c.as_ref().map_or(std::ptr::null(), |c| c.as_ptr()));
                    let want = match (&mut self.model[*d as usize % SLOTS], k.as_str()) {
                        (Some(Value::Dict(dict)), Some(key)) => {
                            dict.remove(&key);
                            Some(true)
                        }
                        _ => None,
                    };
                    self.expect_rt(got, want, op)
                }
                GridLen(s) => {
                    let s = &self.sel(*s, W::Grid);

                    let got = c_api::grid::haystack_value_get_grid_len(self.h(*s));
                    let want = match self.m(*s) {
                        Some(Value::Grid(g)) => Some(g.len()),
                        _ => None,
                    };
                    self.expect_usize(got, want, op)
                }
                GridRowAt(g, i, r) => {
                    let (g, r) = (&self.sel(*g, W::Grid), &self.sel(*r, W::Any));

                    if g == r && !self.h(*g).is_null() {
                        self.aliasing_skipped += 1;
                        return Verdict::Pass;
                    }
                    let len = match self.m(*g) {
                        Some(Value::Grid(x)) => x.len(),
                        _ => 0,
                    };
                    let index = i.resolve(len);
                    let got = c_api::grid::haystack_value_get_grid_row_at(self.h(*g), index, self.h(*r));
                    let row: Option<Value> = match (self.m(*g), self.m(*r)) {
                        (Some(Value::Grid(grid)), Some(_)) => grid.rows.get(index).map(|d| Value::Dict(d.clone())),
                        _ => None,
                    };
                    let want = row.is_some().then_some(true);
                    if let Some(v) = row {
                        self.model[*r as usize % SLOTS] = Some(v);
                    }
                    self.expect_rt(got, want, op)
                }
                DtDate(s, utc, r) | DtTime(s, utc, r) => {
                    let (s, r) = (&self.sel(*s, W::DateTime), &self.sel(*r, W::Any));

                    if s == r && !self.h(*s).is_null() {
                        self.aliasing_skipped += 1;
                        return Verdict::Pass;
                    }
                    let is_date = matches!(op, DtDate(..));
                    let got = if is_date {
                        c_api::datetime::haystack_value_get_datetime_date(self.h(*s), *utc, self.h(*r))
                    } else {
                        c_api::datetime::haystack_value_get_datetime_time(self.h(*s), *utc, self.h(*r))
                    };
                    let res: Option<Value> = match (self.m(*s), self.m(*r)) {
                        (Some(Value::DateTime(dt)), Some(_)) => {
                            let n = if *utc { dt.naive_utc() } else { dt.naive_local() };
                            Some(if is_date { Value::Date(Date::from(n.date())) } else { Value::Time(Time::from(n.time())) })
                        }
                        _ => None,
                    };
                    let want = res.is_some().then_some(true);
                    if let Some(v) = res {
                        self.model[*r as usize % SLOTS] = Some(v);
                    }
                    self.expect_rt(got, want, op)
                }
                ToZinc(s) => {
                    let s = &self.sel(*s, W::Any);

                    let got = c_api::zinc::haystack_value_to_zinc_string(self.h(*s));
                    let want = match self.m(*s) {
                        None => Err(()),
                        Some(v) => match libhaystack::encoding::zinc::encode::to_zinc_string(v) {
                            Ok(t) if !t.contains('\0') => Ok(Some(t)),
                            _ => Err(()),
                        },
                    };
                    self.expect_str(got, want, op)
                }
                ToJson(s) => {
                    let s = &self.sel(*s, W::Any);

                    let got = c_api::json::haystack_value_to_json_string(self.h(*s));
                    let want = match self.m(*s) {
                        None => Err(()),
                        Some(v) => match serde_json::to_string(v) {
                            Ok(t) if !t.contains('\0') => Ok(Some(t)),
                            _ => Err(()),
                        },
                    };
                    self.expect_str(got, want, op)
                }
                FilterParse(f, t) => {
                    let c = t.cstring();
                    let made = c_api::filter::haystack_filter_parse(c.as_ref().map_or(std::ptr::null(), |c| c.as_ptr()));
                    let want = t.as_str().and_then(|x| Filter::try_from(x.as_str()).ok());
                    let fi = *f as usize % FSLOTS;
                    match (made, want) {
                        (Some(b), Some(w)) => {
                            if b.to_string() != w.to_string() {
                                bail!(op, "{:?}: parsed filter prints as `{b}`, Filter::try_from gives `{w}`", op.to_json());
                            }
                            self.filters[fi] = Some(b);
                            self.mfilters[fi] = Some(w);
                            self.after(Expect::Ok, op)
                        }
                        (None, None) => self.after(Expect::Fail, op),
                        (a, b) => bail!(op, "{:?}: C API returned {} but Filter::try_from {}", op.to_json(), if a.is_some() { "a filter" } else { "null" }, if b.is_some() { "succeeds" } else { "fails" }),
                    }
                }
                FilterMatchDict(f, d) => {
                    let d = &self.sel(*d, W::Dict);

                    let got = c_api::filter::haystack_filter_match_dict(self.fptr(*f), self.h(*d));
                    let want = match (&self.mfilters[*f as usize % FSLOTS], self.m(*d)) {
                        (Some(flt), Some(Value::Dict(dict))) => Some(dict.filter(flt)),
                        _ => None,
                    };
                    self.expect_rt(got, want, op)
                }
                FilterFirst(f, g, r) => {
                    let (g, r) = (&self.sel(*g, W::Grid), &self.sel(*r, W::Any));

                    if g == r && !self.h(*g).is_null() {
                        self.aliasing_skipped += 1;
                        return Verdict::Pass;
                    }
                    let got = c_api::filter::haystack_filter_first_match_in_grid(self.fptr(*f), self.h(*g), self.h(*r));
                    let res: Option<Option<Value>> = match (&self.mfilters[*f as usize % FSLOTS], self.m(*g), self.m(*r)) {
                        (Some(flt), Some(Value::Grid(grid)), Some(_)) => Some(grid.filter(flt).map(|d| Value::Dict(d.clone()))),
                        _ => None,
                    };
                    let want = res.as_ref().map(|x| x.is_some());
                    if let Some(Some(v)) = res {
                        self.model[*r as usize % SLOTS] = Some(v);
                    }
                    self.expect_rt(got, want, op)
                }
                FilterAll(f, g, r) => {
                    let (g, r) = (&self.sel(*g, W::Grid), &self.sel(*r, W::Any));

                    if g == r && !self.h(*g).is_null() {
                        self.aliasing_skipped += 1;
                        return Verdict::Pass;
                    }
                    let got = c_api::filter::haystack_filter_match_all_grid(self.fptr(*f), self.h(*g), self.h(*r));
                    let res: Option<Value> = match (&self.mfilters[*f as usize % FSLOTS], self.m(*g), self.m(*r)) {
                        (Some(flt), Some(Value::Grid(grid)), Some(_)) => {
                            let rows: Vec<Dict> = grid.filter_all(flt).into_iter().cloned().collect();
                            Some(Value::Grid(match &grid.meta {
                                Some(m) => Grid::make_from_dicts_with_meta(rows, m.clone()),
                                None => Grid::make_from_dicts(rows),
                            }))
                        }
                        _ => None,
                    };
                    let want = res.as_ref().map(|v| matches!(v, Value::Grid(g) if !g.is_empty()));
                    if let Some(v) = res {
                        self.model[*r as usize % SLOTS] = Some(v);
                    }
                    self.expect_rt(got, want, op)
                }
                LastError => {
                    let m = take_cstr(c_api::err::last_error_message());
                    if self.defer_errors {
                        // whatever is pending is read now - possibly long after the failing call and after the handles it
                        // was about were destroyed; the text is not asserted
                        return Verdict::Pass;
                    }
                    if m.is_some() {
                        bail!(op, "last_error_message() returned {m:?} although every error was already retrieved");
                    }
                    Verdict::Pass
                }
                Destroy(s) => {
                    let i = *s as usize % SLOTS;
                    if !self.handles[i].is_null() {
                        c_api::value::haystack_value_destroy(self.handles[i]);
                        self.handles[i] = std::ptr::null_mut();
                        self.model[i] = None;
                    }
                    self.snapshot(op)
                }
            }
        }
    }

    fn expect_usize(&mut self, got: usize, want: Option<usize>, op: &Op) -> Verdict {
        match want {
            Some(w) => {
                if got != w {
                    bail!(op, "{:?} returned {got}, the Rust API gives {w}", op.to_json());
                }
                self.after(Expect::Ok, op)
            }
            None => {
                if got != usize::MAX {
                    bail!(op, "{:?} returned {got}, expected usize::MAX and an error", op.to_json());
                }
                self.after(Expect::Fail, op)
            }
        }
    }

    fn expect_f64(&mut self, got: f64, want: Option<f64>, op: &Op) -> Verdict {
        match want {
            Some(w) => {
                if !(got.to_bits() == w.to_bits() || (got.is_nan() && w.is_nan())) {
                    bail!(op, "{:?} returned {got:?}, the Rust API gives {w:?}", op.to_json());
                }
                self.after(Expect::Ok, op)
            }
            None => {
                if !got.is_nan() {
                    bail!(op, "{:?} returned {got:?}, expected NaN and an error", op.to_json());
                }
                self.after(Expect::Fail, op)
            }
        }
    }

    fn expect_u32(&mut self, got: u32, want: Option<u32>, op: &Op) -> Verdict {
        match want {
            Some(w) => {
                if got != w {
                    bail!(op, "{:?} returned {got}, the Rust API gives {w}", op.to_json());
                }
                self.after(Expect::Ok, op)
            }
            None => {
                if got != u32::MAX {
                    bail!(op, "{:?} returned {got}, expected u32::MAX and an error", op.to_json());
                }
                self.after(Expect::Fail, op)
            }
        }
    }

    fn getter(&mut self, s: u8, g: u8, op: &Op) -> Verdict {
        use chrono::{Datelike, Timelike};
        let p = self.h(s) as *const Value;
        let m = self.m(s).cloned();
        // a string getter: Ok(Some) value, Ok(None) documented "absent" null without error, Err = failure
        let strv = |x: Option<&String>| -> Result<Option<String>, ()> {
            match x {
                Some(s) if s.contains('\0') => Err(()),
                Some(s) => Ok(Some(s.clone())),
                None => Err(()),
            }
        };
        unsafe {
            match g as usize % GETTERS {
                0 => {
                    let w = match &m {
                        Some(Value::Number(n)) => Some(n.value),
                        _ => None,
                    };
                    self.expect_f64(c_api::number::haystack_value_get_number_value(p), w, op)
                }
                1 => {
                    let w = match &m {
                        Some(Value::Number(n)) => Some(n.unit.is_some()),
                        _ => None,
                    };
                    self.expect_rt(c_api::number::haystack_value_number_has_unit(p), w, op)
                }
                2 => {
                    let w = match &m {
                        Some(Value::Number(n)) => Ok(n.unit.map(|u| u.symbol().to_string())),
                        _ => Err(()),
                    };
                    self.expect_str(c_api::number::haystack_value_get_number_unit(p), w, op)
                }
                3 => {
                    let w = match &m {
                        Some(Value::Str(x)) => Some(x.value.len()),
                        _ => None,
                    };
                    self.expect_usize(c_api::str::haystack_value_get_str_len(p), w, op)
                }
                4 => {
                    let w = match &m {
                        Some(Value::Str(x)) => strv(Some(&x.value)),
                        _ => Err(()),
                    };
                    self.expect_str(c_api::str::haystack_value_get_str_value(p), w, op)
                }
                5 => {
                    let w = match &m {
                        Some(Value::Ref(x)) => Some(x.value.len()),
                        _ => None,
                    };
                    self.expect_usize(c_api::reference::haystack_value_get_ref_value_len(p), w, op)
                }
                6 => {
                    let w = match &m {
                        Some(Value::Ref(x)) => strv(Some(&x.value)),
                        _ => Err(()),
                    };
                    self.expect_str(c_api::reference::haystack_value_get_ref_value(p), w, op)
                }
                7 => {
                    let w = match &m {
                        Some(Value::Ref(x)) => match &x.dis {
                            None => Ok(None),
                            Some(d) => strv(Some(d)),
                        },
                        _ => Err(()),
                    };
                    self.expect_str(c_api::reference::haystack_value_get_ref_dis(p), w, op)
                }
                8 => {
                    let w = match &m {
                        Some(Value::Symbol(x)) => Some(x.value.len()),
                        _ => None,
                    };
                    self.expect_usize(c_api::symbol::haystack_value_get_symbol_value_len(p), w, op)
                }
                9 => {
                    let w = match &m {
                        Some(Value::Symbol(x)) => strv(Some(&x.value)),
                        _ => Err(()),
                    };
                    self.expect_str(c_api::symbol::haystack_value_get_symbol_value(p), w, op)
                }
                10 => {
                    let w = match &m {
                        Some(Value::Uri(x)) => Some(x.value.len()),
                        _ => None,
                    };
                    self.expect_usize(c_api::uri::haystack_value_get_uri_value_len(p), w, op)
                }
                11 => {
                    let w = match &m {
                        Some(Value::Uri(x)) => strv(Some(&x.value)),
                        _ => Err(()),
                    };
                    self.expect_str(c_api::uri::haystack_value_get_uri_value(p), w, op)
                }
                12 => {
                    let w = match &m {
                        Some(Value::XStr(x)) => strv(Some(&x.r#type)),
                        _ => Err(()),
                    };
                    self.expect_str(c_api::xstr::haystack_value_get_xstr_type(p), w, op)
                }
                13 => {
                    let w = match &m {
                        Some(Value::XStr(x)) => strv(Some(&x.value)),
                        _ => Err(()),
                    };
                    self.expect_str(c_api::xstr::haystack_value_get_xstr_value(p), w, op)
                }
                14 => {
                    let w = match &m {
                        Some(Value::Coord(c)) => Some(c.lat),
                        _ => None,
                    };
                    self.expect_f64(c_api::coord::haystack_value_get_coord_lat(p), w, op)
                }
                15 => {
                    let w = match &m {
                        Some(Value::Coord(c)) => Some(c.long),
                        _ => None,
                    };
                    self.expect_f64(c_api::coord::haystack_value_get_coord_long(p), w, op)
                }
                16 | 17 | 18 => {
                    let w = match &m {
                        Some(Value::Date(d)) if (0..=9999).contains(&d.year()) => Some(match g as usize % GETTERS {
                            16 => d.year() as u32,
                            17 => d.month(),
                            _ => d.day(),
                        }),
                        Some(Value::Date(_)) => {
                            // a year outside 0..=9999 through a u32 getter: the value is not asserted, the calls are
                            // still made (no call may abort), and month / day are what they are
                            let _ = c_api::date::haystack_value_get_date_year(p);
                            let (mo, da) = (c_api::date::haystack_value_get_date_month(p), c_api::date::haystack_value_get_date_day(p));
                            if let Some(Value::Date(d)) = &m {
                                if mo != d.month() || da != d.day() {
                                    bail!(op, "{:?}: month/day getters return {mo}/{da} for {}", op.to_json(), d.to_string());
                                }
                            }
                            return self.after(Expect::Ok, op);
                        }
                        _ => None,
                    };
                    let got = match g as usize % GETTERS {
                        16 => c_api::date::haystack_value_get_date_year(p),
                        17 => c_api::date::haystack_value_get_date_month(p),
                        _ => c_api::date::haystack_value_get_date_day(p),
                    };
                    self.expect_u32(got, w, op)
                }
                19 | 20 | 21 | 22 => {
                    let w = match &m {
                        Some(Value::Time(t)) => Some(match g as usize % GETTERS {
                            19 => t.hour(),
                            20 => t.minute(),
                            21 => t.second(),
                            _ => t.nanosecond() / 1_000_000,
                        }),
                        _ => None,
                    };
                    let got = match g as usize % GETTERS {
                        19 => c_api::time::haystack_value_get_time_hour(p),
                        20 => c_api::time::haystack_value_get_time_minutes(p),
                        21 => c_api::time::haystack_value_get_time_seconds(p),
                        _ => c_api::time::haystack_value_get_time_millis(p),
                    };
                    self.expect_u32(got, w, op)
                }
                _ => {
                    let w = match &m {
                        Some(Value::DateTime(d)) => Ok(Some(d.timezone_short_name())),
                        _ => Err(()),
                    };
                    self.expect_str(c_api::datetime::haystack_value_get_datetime_timezone(p), w, op)
                }
            }
        }
    }

    /// protocol-following teardown: every handle destroyed exactly once
    pub fn teardown(&mut self) {
        for i in 0..SLOTS {
            if !self.handles[i].is_null() {
                unsafe { c_api::value::haystack_value_destroy(self.handles[i]) };
                self.handles[i] = std::ptr::null_mut();
                self.model[i] = None;
            }
        }
        for f in self.filters.iter_mut() {
            *f = None; // filter handles have no destroy function in the API; the harness drops them
        }
        // drain a pending error message so that nothing is left allocated in the thread local
        let _ = take_cstr(unsafe { c_api::err::last_error_message() });
    }
}

pub fn run_sequence(ops: &[Op]) -> (Verdict, Machine) {
    let mut m = Machine::new();
    m.defer_errors = ops.iter().map(|o| crate::runner::key_of(&o.to_json().to_string())).fold(0u64, |a, b| a ^ b.rotate_left(7)) % 3 == 0;
    let mut v = Verdict::Pass;
    for op in ops {
        v = m.step(op);
        if v.is_fail() {
            break;
        }
    }
    m.teardown();
    (v, m)
}


// ---------------------------------------------------------------------------------------------
// "the retrievable message is that of the latest failure" - checked without looking at wording:
// the message read after [x (unread), y] must be the message read after [y] alone.

pub fn failing_call_pub(k: u8) {
    failing_call(k)
}

fn failing_call(k: u8) {
    unsafe {
        match k % 7 {
            0 => {
                let _ = c_api::list::haystack_value_get_list_len(std::ptr::null_mut());
            }
            1 => {
                let c = CString::new("[1, 2").unwrap();
                let _ = c_api::zinc::haystack_value_from_zinc_string(c.as_ptr());
            }
            2 => {
                let c = CString::new("nosuchunit").unwrap();
                let _ = c_api::value::haystack_value_make_number_with_unit(1.0, c.as_ptr());
            }
            3 => {
                let _ = c_api::value::haystack_value_make_date(2020, 13, 1);
            }
            4 => {
                let c = CString::new("(a ==").unwrap();
                let _ = c_api::filter::haystack_filter_parse(c.as_ptr());
            }
            5 => {
                let v = Value::Marker;
                let p = c_api::str::haystack_value_get_str_value(&v);
                if !p.is_null() {
                    c_api::str::haystack_string_destroy(p as *mut c_char);
                }
            }
            _ => {
                let c = CString::new("{\"_kind\":\"nope\"}").unwrap();
                let _ = c_api::json::haystack_value_from_json_string(c.as_ptr());
            }
        }
    }
}

pub fn error_message_is_latest(x: u8, y: u8) -> Verdict {
    let read = || take_cstr(unsafe { c_api::err::last_error_message() });
    let _ = read(); // start clean
    failing_call(y);
    let alone_y = read();
    failing_call(x);
    let alone_x = read();
    if alone_x.is_none() || alone_y.is_none() {
        return Verdict::fail("C17:error-message:missing", format!("failing call #{} or #{} left no error message", x % 7, y % 7));
    }
    if alone_x == alone_y {
        return Verdict::Pass; // same wording: nothing to tell apart
    }
    failing_call(x); // not read
    failing_call(y);
    let after_both = read();
    let again = read();
    if after_both != alone_y {
        return Verdict::fail(
            "C17:error-message:not-the-latest-failure",
            format!("after two failing calls the retrievable message is {after_both:?}; the last failing call alone reports {alone_y:?} (the earlier one: {alone_x:?})"),
        );
    }
    if again.is_some() {
        return Verdict::fail("C17:error-message:returned-twice", format!("{again:?}"));
    }
    Verdict::Pass
}
