//! C03 — Decoders are total: any input gives a value or an error, never a crash or hang.

use super::c04::{choices, spellable, Spelled};
use super::common::*;
use crate::gen::mutate::{self, Mutation, JSON_TOKENS, ZINC_TOKENS};
use crate::gen::readers::{plan, PlanReader, ReaderPlan};
use crate::gen::value::{top_value, GenCfg};
use crate::isolate::{run_probes, ProbeStatus};
use crate::refimpl::{hayson as rh, zinc as rz};
use crate::runner::{bx, fueled, guarded, idx, key_of, panic_sig, Case, Ctx, PanicInfo, Rec, Verdict};
use crate::rval::*;
use libhaystack::encoding::zinc::decode::parser::Parser;
use libhaystack::encoding::zinc::decode::{from_str, parse_grid_iterator};
use libhaystack::val::Value;
use proptest::prelude::*;
use serde_json::{json, Value as J};
use std::time::Duration;

#[derive(Clone, Debug)]
pub struct Doc {
    pub bytes: Vec<u8>,
    pub plan: ReaderPlan,
    pub origin: String,
}

fn hex(b: &[u8]) -> String {
    b.iter().map(|x| format!("{x:02x}")).collect()
}
fn unhex(s: &str) -> Vec<u8> {
    (0..s.len() / 2).filter_map(|i| u8::from_str_radix(&s[2 * i..2 * i + 2], 16).ok()).collect()
}

impl Case for Doc {
    fn to_json(&self) -> J {
        json!({"hex": hex(&self.bytes), "text": String::from_utf8_lossy(&self.bytes), "plan": self.plan.to_json(), "origin": self.origin})
    }
    fn from_json(j: &J) -> Result<Self, String> {
        Ok(Doc {
            bytes: unhex(j["hex"].as_str().ok_or("hex")?),
            plan: ReaderPlan::from_json(&j["plan"]),
            origin: j["origin"].as_str().unwrap_or("").to_string(),
        })
    }
}

fn show(bytes: &[u8]) -> String {
    trunc(&format!("{:?}", String::from_utf8_lossy(bytes)), 240)
}

fn crash(what: &str, p: &PanicInfo, bytes: &[u8]) -> Verdict {
    if p.fuel {
        Verdict::fail(format!("C03:{what}:hang:fuel"), format!("{what} does not terminate (fuel exhausted) on {}", show(bytes)))
    } else {
        Verdict::fail(
            format!("C03:{what}:{}", panic_sig(p)),
            format!("{what} panicked on {}: {} at {}", show(bytes), p.msg, p.location),
        )
    }
}

/// Outcome of a decoder call: accepted / rejected (both fine) — a crash is a Verdict::Fail.
#[derive(PartialEq, Clone, Copy)]
pub enum Out {
    Accepted,
    AcceptedScalar,
    Rejected,
}

pub fn zinc_from_str(text: &str) -> Result<Out, Verdict> {
    match fueled(text.len(), || from_str(text)) {
        Ok(Ok(v)) => Ok(if matches!(v, Value::List(_) | Value::Dict(_) | Value::Grid(_)) { Out::Accepted } else { Out::AcceptedScalar }),
        Ok(Err(_)) => Ok(Out::Rejected),
        Err(p) => Err(crash("zinc:from_str", &p, text.as_bytes())),
    }
}

pub fn zinc_reader(bytes: &[u8], plan: &ReaderPlan) -> Result<Out, Verdict> {
    let r = fueled(bytes.len(), || {
        let mut rd = PlanReader::new(bytes, plan);
        let mut parser = match Parser::make(&mut rd) {
            Ok(p) => p,
            Err(_) => return Out::Rejected,
        };
        match parser.parse_value() {
            Ok(_) => Out::Accepted,
            Err(_) => {
                // a caller whose reader timed out asks again: every call returns a value or an error
                if plan.fail_every > 0 {
                    for _ in 0..24 {
                        let _ = parser.parse_value();
                    }
                }
                Out::Rejected
            }
        }
    });
    r.map_err(|p| crash("zinc:Parser::parse_value(reader)", &p, bytes))
}

pub fn zinc_iter(bytes: &[u8], plan: &ReaderPlan) -> Result<(Out, usize), Verdict> {
    let r = fueled(bytes.len(), || {
        let mut rd = PlanReader::new(bytes, plan);
        let mut parser = match Parser::make(&mut rd) {
            Ok(p) => p,
            Err(_) => return (Out::Rejected, 0),
        };
        let it = match parse_grid_iterator(&mut parser) {
            Ok(it) => it,
            Err(_) => return (Out::Rejected, 0),
        };
        let mut rows = 0usize;
        let mut errors = 0usize;
        for row in it {
            match row {
                Ok(_) => rows += 1,
                // *what* the iterator yields after its first error is not specified; with a reader that
                // only timed out the caller keeps pulling, and every further call must still return
                // (a row, an error, or the end) - bounded here, since an endless run of errors is allowed
                Err(_) if plan.fail_every > 0 && errors < 48 => errors += 1,
                Err(_) => return (Out::Rejected, rows),
            }
            if rows > bytes.len() + 8 {
                break;
            }
        }
        if errors > 0 {
            return (Out::Rejected, rows);
        }
        (Out::Accepted, rows)
    });
    r.map_err(|p| crash("zinc:parse_grid_iterator", &p, bytes))
}

pub fn json_decode(bytes: &[u8]) -> Result<Out, Verdict> {
    let r = guarded(|| serde_json::from_slice::<Value>(bytes));
    let o = match r {
        Ok(Ok(v)) => {
            if matches!(v, Value::List(_) | Value::Dict(_) | Value::Grid(_)) {
                Out::Accepted
            } else {
                Out::AcceptedScalar
            }
        }
        Ok(Err(_)) => Out::Rejected,
        Err(p) => return Err(crash("hayson:from_slice", &p, bytes)),
    };
    if let Ok(text) = std::str::from_utf8(bytes) {
        if let Err(p) = guarded(|| serde_json::from_str::<Value>(text)) {
            return Err(crash("hayson:from_str", &p, bytes));
        }
    }
    Ok(o)
}

/// All decoder entry points over one input.
pub fn check_bytes(bytes: &[u8], plan: &ReaderPlan, rec: &mut Rec, count_nontrivial: bool) -> Verdict {
    let mut accepted_any = false;
    let mut scalar_only = false;
    if let Ok(text) = std::str::from_utf8(bytes) {
        match zinc_from_str(text) {
            Ok(Out::Accepted) => accepted_any = true,
            Ok(Out::AcceptedScalar) => scalar_only = true,
            Ok(Out::Rejected) => {}
            Err(v) => return v,
        }
    } else {
        rec.class("input:not-utf8");
    }
    match zinc_reader(bytes, plan) {
        Ok(Out::Accepted) => {}
        Ok(_) => {}
        Err(v) => return v,
    }
    match zinc_iter(bytes, plan) {
        Ok((Out::Accepted, rows)) => {
            rec.class("zinc-iter:completed");
            if rows > 0 {
                rec.class("zinc-iter:yielded-rows");
            }
        }
        Ok(_) => {}
        Err(v) => return v,
    }
    let mut j_acc = false;
    match json_decode(bytes) {
        Ok(Out::Accepted) => j_acc = true,
        Ok(Out::AcceptedScalar) => scalar_only = true,
        Ok(Out::Rejected) => {}
        Err(v) => return v,
    }
    if accepted_any {
        rec.class("zinc:accepted");
    } else {
        rec.class("zinc:rejected-or-scalar");
    }
    if j_acc {
        rec.class("hayson:accepted");
    }
    if plan.fail_at.is_some() {
        rec.class("reader:io-fault");
    }
    if plan.fail_every > 0 {
        rec.class("reader:times-out-repeatedly(caller-retries)");
    }
    if plan.splits() {
        rec.class("reader:chunked/interrupted");
    }
    if count_nontrivial && !bytes.is_empty() && !(scalar_only && !accepted_any && !j_acc) {
        rec.nontrivial(crate::runner::fnv64(bytes));
    }
    Verdict::Pass
}

fn check_doc(d: &Doc, rec: &mut Rec) -> Verdict {
    rec.class(&format!("origin:{}", d.origin));
    rec.sample(|| format!("[{}] {}", d.origin, show(&d.bytes)));
    check_bytes(&d.bytes, &d.plan, rec, true)
}

// ---------------------------------------------------------------------------------------------
// sources

fn arbitrary_bytes() -> BoxedStrategy<Vec<u8>> {
    let zalpha: Vec<u8> = b" \t\r\n,:[]{}<>\"`@^\\$-+._/()0123456789abcdefTFNMRAver:INFaZC\xc2\xb0\xe2\x82\xac".to_vec();
    let jalpha: Vec<u8> = b" \n,:[]{}\"\\-+.0123456789eE_kindvalutzrowscolsmetanameltgfx".to_vec();
    prop_oneof![
        2 => prop::collection::vec(any::<u8>(), 0..64),
        1 => prop::collection::vec(any::<u8>(), 0..4096),
        4 => prop::collection::vec(prop::sample::select(zalpha), 0..96),
        2 => prop::collection::vec(prop::sample::select(jalpha), 0..96),
        3 => prop::collection::vec((any::<u16>(), any::<bool>()), 1..24).prop_map(|v| {
            let mut out = vec![];
            for (i, z) in v {
                let toks = if z { ZINC_TOKENS } else { JSON_TOKENS };
                out.extend_from_slice(toks[idx(i, toks.len())].as_bytes());
            }
            out
        }),
    ]
    .boxed()
}

fn zinc_doc(depth: u32) -> BoxedStrategy<Vec<u8>> {
    bx((top_value(GenCfg::wf(depth)), choices()).prop_map(|(v, c)| {
        let mut r = Rec::new();
        r.on = false;
        let v = spellable(&v, &mut r);
        rz::write(&v, &mut rz::Ch::new(&c)).into_bytes()
    }))
}

fn grid_doc() -> BoxedStrategy<Vec<u8>> {
    // documents that are grids (top level, or nested in a list), small values inside
    let cfg = GenCfg::wf(1);
    bx((crate::gen::value::grid_of(cfg, crate::gen::value::value(cfg)), choices(), any::<bool>()).prop_map(|(g, c, nest)| {
        let v = if nest { RVal::List(vec![RVal::Grid(g)]) } else { RVal::Grid(g) };
        let mut r = Rec::new();
        r.on = false;
        let v = spellable(&v, &mut r);
        rz::write(&v, &mut rz::Ch::new(&c)).into_bytes()
    }))
}

fn hayson_doc(depth: u32) -> BoxedStrategy<Vec<u8>> {
    bx((top_value(GenCfg::wf(depth)), choices()).prop_map(|(v, c)| rh::write(&v, &mut rz::Ch::new(&c)).into_bytes()))
}

/// literals made of escape sequences: \\uXXXX with surrogate / boundary code units, short escapes, broken ones
pub fn escape_body() -> BoxedStrategy<String> {
    let unit = prop_oneof![
        4 => (prop::sample::select(vec!["d800", "d83d", "dbff", "dc00", "de00", "dfff", "0000", "ffff", "fffe", "0041", "00e9", "d7ff", "e000", "D83D", "DC00", "00B0"])).prop_map(|h| format!("\\u{h}")),
        2 => "[0-9a-fA-F]{4}".prop_map(|h| format!("\\u{h}")),
        1 => "[0-9a-fA-Fg-z]{0,3}".prop_map(|h| format!("\\u{h}")),
        2 => prop::sample::select(vec!["\\n", "\\t", "\\\\", "\\\"", "\\$", "\\b", "\\f", "\\`", "\\'", "\\x", "\\", "a", "é", "\u{10000}"]).prop_map(String::from),
    ];
    prop::collection::vec(unit, 0..8).prop_map(|units| units.concat()).boxed()
}

fn escape_soup() -> BoxedStrategy<Vec<u8>> {
    (escape_body(), 0u8..6)
        .prop_map(|(body, wrap)| {
            match wrap {
                0 => format!("\"{body}\""),
                1 => format!("`{body}`"),
                2 => format!("@a \"{body}\""),
                3 => format!("Foo(\"{body}\")"),
                4 => format!("[\"{body}\", `{body}`]"),
                _ => format!("ver:\"3.0\"\na\n\"{body}\"\n"),
            }
            .into_bytes()
        })
        .boxed()
}

/// Timestamps assembled from boundary parts: days and hours on which named zones skip or repeat local time, the
/// ends of the year range, leap seconds, offsets in and out of range, known / unknown / absent zone names.
pub fn timestamp_text() -> BoxedStrategy<String> {
    let date = prop::sample::select(vec![
        "2021-03-14", "2021-11-07", "2021-03-28", "2021-10-31", "2021-04-04", "2021-10-03", "0000-01-01", "9999-12-31", "2020-02-29", "2021-02-29", "2021-13-01", "1883-11-18", "1970-01-01",
        "1900-02-29", "2100-02-29", "2000-02-29", "0100-02-29", "2400-02-29", "2021-04-31", "2021-00-10", "2021-06-00",
    ]);
    let time = prop::sample::select(vec!["02:30:00", "01:30:00", "02:00:00", "03:00:00", "01:59:59.999999999", "23:59:60", "24:00:00", "00:00:00", "12:00:00.5", "2:30:00", "02:30"]);
    let offset = prop::sample::select(vec!["Z", "+00:00", "-00:00", "-05:00", "-04:00", "+01:00", "+02:00", "+10:30", "+11:00", "+24:00", "+99:99", "-24:00", "+14:00", "+15:00", "+5:00", "+0530", "-00:45", ""]);
    let zone = prop::sample::select(vec![" New_York", " London", " Berlin", " UTC", " Nowhere", "", " Sydney", " Lord_Howe", " GMT+5", " EST", " Monrovia", " Kiritimati", " new_york", "  Paris"]);
    (date, time, offset, zone, 0u8..8)
        .prop_map(|(d, t, o, z, form)| match form {
            0 => d.to_string(),       // a bare date
            1 => format!("{d}T{t}"), // no zone at all
            _ => format!("{d}T{t}{o}{z}"),
        })
        .boxed()
}

fn timestamp_soup() -> BoxedStrategy<Vec<u8>> {
    (timestamp_text(), 0u8..5)
        .prop_map(|(ts, wrap)| {
            match wrap {
                0 => ts,
                1 => format!("[{ts}]"),
                2 => format!("{{a:{ts} b}}"),
                3 => format!("ver:\"3.0\"\nts,v\n{ts},1\n{ts},2\n"),
                _ => format!("[{ts}, {ts}, \"x\"]"),
            }
            .into_bytes()
        })
        .boxed()
}

/// Hayson scalars assembled from parts: every `_kind` name (also the four that are kinds but have no object form)
/// with members from a small pool, and dateTime objects whose `val` is a timestamp from the boundary soup (without
/// a zone name), with or without `tz`
fn hayson_soup() -> BoxedStrategy<Vec<u8>> {
    let kind = prop::sample::select(vec!["marker", "na", "remove", "number", "ref", "uri", "symbol", "date", "time", "dateTime", "coord", "xstr", "dict", "grid", "str", "bool", "list", "null", "Number", ""]);
    let member = prop::sample::select(vec![
        "", ",\"val\":1", ",\"val\":\"x\"", ",\"val\":true", ",\"val\":[1]", ",\"val\":null", ",\"val\":\"NaN\",\"unit\":\"kW\"", ",\"dis\":\"d\"", ",\"type\":\"T\",\"val\":\"v\"",
        ",\"lat\":1,\"lng\":{\"_kind\":\"number\",\"val\":\"INF\"}", ",\"cols\":[],\"rows\":[]", ",\"tz\":\"New_York\"", ",\"val\":\"12:00:60\"", ",\"val\":\"2021-02-30\"",
    ]);
    let stamp = (timestamp_text(), prop::sample::select(vec!["", ",\"tz\":\"New_York\"", ",\"tz\":\"UTC\"", ",\"tz\":\"Nowhere\"", ",\"tz\":\"\""])).prop_map(|(ts, tz)| {
        let bare = ts.split(' ').next().unwrap_or("").to_string();
        format!("{{\"_kind\":\"dateTime\",\"val\":\"{bare}\"{tz}}}")
    });
    let obj = prop_oneof![3 => (kind, member).prop_map(|(k, m)| format!("{{\"_kind\":\"{k}\"{m}}}")), 2 => stamp];
    (obj, 0u8..4)
        .prop_map(|(o, wrap)| match wrap {
            0 => o,
            1 => format!("[{o}]"),
            2 => format!("{{\"a\":{o},\"b\":{o}}}"),
            _ => format!("{{\"_kind\":\"grid\",\"cols\":[{{\"name\":\"a\"}}],\"rows\":[{{\"a\":{o}}}]}}"),
        }.into_bytes())
        .boxed()
}

fn doc_strategy(depth: u32) -> BoxedStrategy<Doc> {
    let muts = || mutate::mutations(3);
    prop_oneof![
        2 => hayson_soup().prop_map(|bytes| Doc { bytes, plan: ReaderPlan::default(), origin: "hayson-soup".into() }),
        2 => (timestamp_soup(), plan(true)).prop_map(|(bytes, plan)| Doc { bytes, plan, origin: "zinc-timestamp-soup".into() }),
        2 => (escape_soup(), plan(false)).prop_map(|(bytes, plan)| Doc { bytes, plan, origin: "zinc-escape-soup".into() }),
        3 => (arbitrary_bytes(), plan(true)).prop_map(|(bytes, plan)| Doc { bytes, plan, origin: "arbitrary-bytes".into() }),
        2 => (zinc_doc(depth), plan(true)).prop_map(|(bytes, plan)| Doc { bytes, plan, origin: "zinc-valid".into() }),
        4 => (zinc_doc(depth), muts(), plan(true)).prop_map(|(mut bytes, m, plan)| { mutate::apply_all(&mut bytes, &m, ZINC_TOKENS); Doc { bytes, plan, origin: "zinc-mutant".into() } }),
        4 => (grid_doc(), prop::collection::vec((9u8..14, any::<u16>(), any::<u16>()).prop_map(|(op, pos, arg)| Mutation { op: if op == 13 { 8 } else { op }, pos, arg }), 1..4), plan(true)).prop_map(|(mut bytes, m, plan)| { mutate::apply_all(&mut bytes, &m, ZINC_TOKENS); Doc { bytes, plan, origin: "zinc-damaged-grid".into() } }),
        2 => (grid_doc(), any::<u16>(), plan(true)).prop_map(|(mut bytes, cut, plan)| { let n = idx(cut, bytes.len() + 1); bytes.truncate(n); Doc { bytes, plan, origin: "zinc-grid-truncated".into() } }),
        1 => hayson_doc(depth).prop_map(|bytes| Doc { bytes, plan: ReaderPlan::default(), origin: "hayson-valid".into() }),
        3 => (hayson_doc(depth), muts()).prop_map(|(mut bytes, m)| { mutate::apply_all(&mut bytes, &m, JSON_TOKENS); Doc { bytes, plan: ReaderPlan::default(), origin: "hayson-mutant".into() } }),
    ]
    .boxed()
}

/// Every prefix (truncation point) of a generated valid document.
fn check_prefixes(c: &Spelled, rec: &mut Rec) -> Verdict {
    let mut scratch = Rec::new();
    scratch.on = false;
    let v = spellable(&c.v, &mut scratch);
    let z = rz::write(&v, &mut rz::Ch::new(&c.choices)).into_bytes();
    let h = rh::write(&v, &mut rz::Ch::new(&c.choices)).into_bytes();
    let plan = ReaderPlan::default();
    rec.sample(|| format!("all prefixes of {}", show(&z)));
    for (label, doc) in [("zinc", &z), ("hayson", &h)] {
        if doc.len() > 320 {
            rec.class("prefixes:skipped-long-doc");
            continue;
        }
        for cut in 0..=doc.len() {
            rec.evals += if rec.on { 1 } else { 0 };
            let r = check_bytes(&doc[..cut], &plan, rec, true);
            if r.is_fail() {
                return r;
            }
        }
        rec.class(&format!("prefixes:{label}-doc-swept"));
    }
    Verdict::Pass
}

// ---------------------------------------------------------------------------------------------
// corpus files shipped with the repository

const CORPUS: [(&str, bool); 3] = [
    ("/repo/tests/defs/defs.zinc", true),
    ("/repo/benches/zinc/points.zinc", true),
    ("/repo/benches/json/points.json", false),
];

#[derive(Clone, Debug)]
pub struct CorpusCase {
    file: usize,
    /// window start (fraction) and length so that the full, slow files are only parsed a few times
    cut: u16,
    window: u16,
    muts: Vec<Mutation>,
}
impl Case for CorpusCase {
    fn to_json(&self) -> J {
        json!({"file": self.file, "cut": self.cut, "window": self.window, "muts": self.muts.iter().map(|m| m.to_json()).collect::<Vec<_>>()})
    }
    fn from_json(j: &J) -> Result<Self, String> {
        Ok(CorpusCase {
            file: j["file"].as_u64().unwrap_or(0) as usize,
            cut: j["cut"].as_u64().unwrap_or(0) as u16,
            window: j["window"].as_u64().unwrap_or(0) as u16,
            muts: j["muts"].as_array().map(|a| a.iter().map(Mutation::from_json).collect()).unwrap_or_default(),
        })
    }
}

pub fn corpus_file(i: usize) -> &'static Vec<u8> {
    static FILES: std::sync::OnceLock<Vec<Vec<u8>>> = std::sync::OnceLock::new();
    &FILES.get_or_init(|| CORPUS.iter().map(|(p, _)| std::fs::read(p).unwrap_or_default()).collect())[i]
}

fn check_corpus(c: &CorpusCase, rec: &mut Rec) -> Verdict {
    let full = corpus_file(c.file % 3);
    if full.is_empty() {
        rec.class("corpus:file-missing");
        return Verdict::Pass;
    }
    // keep the grid header (first two lines) and a window of whole lines, then truncate/mutate
    let is_zinc = CORPUS[c.file % 3].1;
    let mut bytes: Vec<u8>;
    if is_zinc {
        let mut line_ends: Vec<usize> = full.iter().enumerate().filter(|(_, b)| **b == b'\n').map(|(i, _)| i + 1).collect();
        if line_ends.len() < 3 {
            line_ends = vec![full.len()];
        }
        let header_end = line_ends[1.min(line_ends.len() - 1)];
        let first = 2 + idx(c.cut, line_ends.len().saturating_sub(2).max(1));
        let count = 1 + (c.window as usize % 40);
        let start = line_ends[(first - 1).min(line_ends.len() - 1)];
        let end = line_ends[(first - 1 + count).min(line_ends.len() - 1)];
        bytes = full[..header_end].to_vec();
        bytes.extend_from_slice(&full[start.min(end)..end]);
        if c.window % 3 == 0 {
            // cut inside the last line
            let n = bytes.len();
            bytes.truncate(n - (c.cut as usize % 30).min(n));
        }
    } else {
        let n = idx(c.cut, full.len() + 1).min(60_000);
        bytes = full[..n].to_vec();
    }
    mutate::apply_all(&mut bytes, &c.muts, if is_zinc { ZINC_TOKENS } else { JSON_TOKENS });
    rec.class(&format!("corpus:{}", CORPUS[c.file % 3].0.rsplit('/').next().unwrap()));
    rec.sample(|| format!("corpus {} bytes={} …{}", CORPUS[c.file % 3].0, bytes.len(), show(&bytes[bytes.len().saturating_sub(80)..])));
    check_bytes(&bytes, &ReaderPlan::default(), rec, true)
}

// ---------------------------------------------------------------------------------------------
// nesting-depth ladder (child processes: a stack overflow aborts the process)

pub const OPENERS: [&str; 11] = ["zinc-list", "zinc-dict", "zinc-grid", "zinc-grid-meta", "zinc-grid-col-meta", "zinc-bare-grid", "zinc-mixed", "json-list", "json-dict", "json-grid-rows", "json-coord-in-list"];

pub fn ladder_doc(opener: &str, depth: usize, closed: bool) -> String {
    let mut s = String::new();
    match opener {
        "zinc-list" => {
            s.push_str(&"[".repeat(depth));
            if closed {
                s.push_str(&"]".repeat(depth));
            }
        }
        "zinc-dict" => {
            s.push_str(&"{a:".repeat(depth));
            if closed {
                s.push('1');
                s.push_str(&"}".repeat(depth));
            }
        }
        "zinc-grid" => {
            s.push('[');
            s.push_str(&"<<\nver:\"3.0\"\na\n".repeat(depth));
            if closed {
                s.push('1');
                s.push_str(&"\n>>".repeat(depth));
                s.push(']');
            }
        }
        "zinc-grid-meta" => {
            s.push_str(&"ver:\"3.0\" m:[<<\n".repeat(depth));
            if closed {
                s.push_str("ver:\"3.0\"\na\n1\n");
                s.push_str(&">>]\na\n1\n".repeat(depth));
            }
        }
        "zinc-grid-col-meta" => {
            // a grid as the value of a column meta tag, again and again (the deepest recursion path of the decoder)
            s.push_str(&"ver:\"3.0\"\na m:<<\n".repeat(depth));
            if closed {
                s.push_str("ver:\"3.0\"\na\n1\n");
                s.push_str(&">>\n1\n".repeat(depth));
            }
        }
        "zinc-bare-grid" => {
            // a cell that starts with the `ver` id is read as a grid without << >> markers
            s.push_str(&"ver:\"3.0\"\na\n".repeat(depth));
            if closed {
                s.push_str("1\n");
            }
        }
        "zinc-mixed" => {
            // every opener in turn
            for i in 0..depth {
                s.push_str(["[", "{a:", "<<\nver:\"3.0\"\na\n", "ver:\"3.0\" m:", "ver:\"3.0\"\nb c:"][i % 5]);
            }
            if closed {
                s.push('1');
            }
        }
        "json-list" => {
            s.push_str(&"[".repeat(depth));
            if closed {
                s.push_str(&"]".repeat(depth));
            }
        }
        "json-coord-in-list" => {
            // lists around a coord whose members are number *objects* (accepted), one of them not finite
            s.push_str(&"[".repeat(depth));
            s.push_str("{\"_kind\":\"coord\",\"lat\":{\"_kind\":\"number\",\"val\":\"NaN\"},\"lng\":{\"_kind\":\"number\",\"val\":\"-INF\"}}");
            if closed {
                s.push_str(&"]".repeat(depth));
            }
        }
        "json-dict" => {
            s.push_str(&"{\"a\":".repeat(depth));
            if closed {
                s.push('1');
                s.push_str(&"}".repeat(depth));
            }
        }
        _ => {
            s.push_str(&"{\"_kind\":\"grid\",\"cols\":[{\"name\":\"a\"}],\"rows\":[{\"a\":".repeat(depth));
            if closed {
                s.push('1');
                s.push_str(&"}]}".repeat(depth));
            }
        }
    }
    s
}

/// Executed in the child process.
pub fn probe_ladder(args: &[String]) -> i32 {
    let opener = args.first().cloned().unwrap_or_default();
    let depth: usize = args.get(1).and_then(|s| s.parse().ok()).unwrap_or(1);
    let closed = args.get(2).map_or(true, |s| s == "1");
    let thread = args.get(3).map_or(false, |s| s == "1");
    let doc = ladder_doc(&opener, depth, closed);
    let work = move || -> i32 {
        let r = if opener.starts_with("zinc") {
            fueled(doc.len(), || {
                let v = from_str(&doc);
                let ok = v.is_ok();
                // dropping a deep value recurses too; do it inside the guarded region
                drop(v);
                ok
            })
        } else {
            guarded(|| {
                let v = serde_json::from_str::<Value>(&doc);
                let ok = v.is_ok();
                drop(v);
                ok
            })
        };
        match r {
            Ok(ok) => {
                println!("returned {}", if ok { "Ok" } else { "Err" });
                0
            }
            Err(p) if p.fuel => {
                println!("fuel exhausted: the decoder keeps reading tokens at end of input");
                5
            }
            Err(p) => {
                println!("panic: {} at {}", p.msg, p.location);
                3
            }
        }
    };
    if thread {
        // std::thread default stack (2 MiB)
        std::thread::spawn(work).join().unwrap_or(4)
    } else {
        work()
    }
}

fn run_ladder(ctx: &mut Ctx) {
    // powers of two, plus the band just below and above the decoders' documented limit of 256 levels (128 for JSON)
    let mut depths: Vec<usize> = (0..=17).map(|i| 1usize << i).collect();
    depths.extend([100, 120, 127, 129, 200, 240, 250, 253, 255, 257]);
    let mut jobs = vec![];
    let mut meta = vec![];
    for op in OPENERS {
        for &d in &depths {
            for closed in [true, false] {
                for thread in [false, true] {
                    jobs.push(vec!["ladder".to_string(), op.to_string(), d.to_string(), if closed { "1" } else { "0" }.to_string(), if thread { "1" } else { "0" }.to_string()]);
                    meta.push((op, d, closed, thread));
                }
            }
        }
    }
    let mut results = run_probes(jobs, Duration::from_secs(30), 16);
    // Stack use per nesting level is what an *unoptimised* build makes of it (that is what `cargo test` and most
    // debugging sessions run): the band just below the limit is probed again with the dev-profile build of this
    // harness on a 2 MiB thread, when ./check has built one (HV_DEBUG_EXE)
    if let Ok(exe) = std::env::var("HV_DEBUG_EXE") {
        if std::path::Path::new(&exe).exists() {
            let mut jobs2 = vec![];
            for op in OPENERS {
                for d in [200usize, 240, 250, 253, 255, 257, 1024] {
                    jobs2.push(vec!["ladder".to_string(), op.to_string(), d.to_string(), "1".to_string(), "1".to_string()]);
                    meta.push((op, d, true, true));
                }
            }
            ctx.rec.class_n("ladder:unoptimised-build-probes", jobs2.len() as u64);
            results.extend(crate::isolate::run_probes_with(Some(&exe), jobs2, Duration::from_secs(60), 16));
        }
    }
    for (r, (op, d, closed, thread)) in results.iter().zip(meta.iter()) {
        ctx.rec.evals += 1;
        ctx.rec.class(&format!("ladder:{op}"));
        if *d >= 2 {
            ctx.rec.nontrivial(key_of(&format!("ladder:{op}:{d}:{closed}:{thread}")));
        }
        let case = json!({"opener": op, "depth": d, "closed": closed, "thread_stack": thread});
        let stack = if *thread { "2MiB-thread" } else { "main" };
        match &r.status {
            ProbeStatus::Exit(0) => {
                if r.stdout.contains("Ok") {
                    ctx.rec.class("ladder:accepted");
                } else {
                    ctx.rec.class("ladder:rejected");
                }
            }
            ProbeStatus::Exit(5) => ctx.report(
                "ladder",
                Verdict::fail(format!("C03:ladder:hang:fuel:{op}"), format!("decoder does not terminate (fuel exhausted) at nesting depth {d} ({op}, closed={closed}, {stack})")),
                case,
            ),
            ProbeStatus::Exit(3) => ctx.report(
                "ladder",
                Verdict::fail(format!("C03:ladder:panic:{op}"), format!("decoder panicked at nesting depth {d} ({op}, closed={closed}, {stack}): {}", r.stdout.trim())),
                case,
            ),
            ProbeStatus::Signal(sig) => ctx.report(
                "ladder",
                Verdict::fail(
                    format!("C03:ladder:abort:{op}"),
                    format!("process killed by signal {sig} at nesting depth {d} ({op}, closed={closed}, {stack}): {}", r.stderr_tail.lines().last().unwrap_or("")),
                ),
                case,
            ),
            ProbeStatus::Timeout => {
                // confirm in isolation before calling it a hang
                let again = crate::isolate::run_probe(
                    &["ladder".to_string(), op.to_string(), d.to_string(), if *closed { "1" } else { "0" }.to_string(), if *thread { "1" } else { "0" }.to_string()],
                    None,
                    Duration::from_secs(120),
                    &[],
                );
                if again.status == ProbeStatus::Timeout {
                    ctx.report("ladder", Verdict::fail(format!("C03:ladder:hang:{op}"), format!("decoder did not return within 120 s at nesting depth {d} ({op}, closed={closed}, {stack})")), case);
                } else {
                    ctx.inconclusive.push(format!("ladder watchdog hit for {op} depth {d} did not reproduce"));
                }
            }
            other => ctx.inconclusive.push(format!("ladder probe {op} depth {d}: {other:?} {}", r.stderr_tail)),
        }
    }
}

pub fn run(ctx: &mut Ctx) {
    ctx.rule("inputs: arbitrary bytes (uniform and biased to the Zinc/JSON alphabets and token dictionaries), grammar-generated valid Zinc/Hayson documents, every prefix of them (<= 320 B, exhaustively), 1-3 mutations (bit flip/insert/delete/duplicate/token splice/truncate/line-ending rewrite/extra or missing cell/deleted or duplicated line/unbalanced bracket), damaged and truncated grids, Hayson objects of every `_kind` name with members from a pool and dateTime objects around boundary timestamps, timestamps assembled from boundary parts (skipped / repeated local hours, range ends, leap seconds, offsets in and out of range, known / unknown zone names), windows of the repository's corpus files truncated and mutated, and a nesting ladder 1..131072 (powers of two and the band around the 128 / 256 level limits) for 11 openers closed and unclosed in child processes on the main and a 2 MiB thread stack (the band 200-257 also with the unoptimised build of the harness, whose frames are the large ones); readers: from_str, Parser::parse_value and parse_grid_iterator (to the first Err/None) over readers with generated chunk sizes, Interrupted returns, I/O faults of seven error kinds (once, for ever, or a timeout on every n-th call after which the caller asks again: up to 24 more parse_value calls / 48 more rows pulled), serde_json from_slice/from_str; oracle: returns Ok or Err - no panic, no fuel exhaustion (64*(len+16) scanner/lexer reads), no abort, no confirmed hang; non-trivial: input not empty and not merely a bare scalar; distinct by input hash");
    ctx.assume("fuel ticks at every Scanner::read / Lexer::read (hook) bound every parsing loop; what the row iterator does after its first error is not asserted");
    let depth = ctx.tier.pick(2, 3) as u32;
    run_ladder(ctx);
    ctx.run_sub::<Doc>("doc", ctx.tier.pick(320_000, 6_400_000), &move || doc_strategy(depth), &check_doc);
    ctx.run_sub::<Spelled>(
        "prefixes",
        ctx.tier.pick(1_600, 32_000),
        &move || bx((top_value(GenCfg::wf(depth)), choices()).prop_map(|(v, choices)| Spelled { v, choices })),
        &check_prefixes,
    );
    ctx.run_sub::<CorpusCase>(
        "corpus",
        ctx.tier.pick(1_600, 32_000),
        &|| bx((0usize..3, any::<u16>(), any::<u16>(), mutate::mutations(3)).prop_map(|(file, cut, window, muts)| CorpusCase { file, cut, window, muts })),
        &check_corpus,
    );
}

pub fn replay(kind: &str, case: &J, rec: &mut Rec) -> Verdict {
    match kind {
        "doc" => Doc::from_json(case).map(|v| check_doc(&v, rec)).unwrap_or_else(|e| Verdict::fail("infra:bad-replay", e)),
        "prefixes" => Spelled::from_json(case).map(|v| check_prefixes(&v, rec)).unwrap_or_else(|e| Verdict::fail("infra:bad-replay", e)),
        "corpus" => CorpusCase::from_json(case).map(|v| check_corpus(&v, rec)).unwrap_or_else(|e| Verdict::fail("infra:bad-replay", e)),
        "ladder" => {
            let args = vec![
                "ladder".to_string(),
                case["opener"].as_str().unwrap_or("zinc-list").to_string(),
                case["depth"].as_u64().unwrap_or(1).to_string(),
                if case["closed"].as_bool().unwrap_or(true) { "1" } else { "0" }.to_string(),
                if case["thread_stack"].as_bool().unwrap_or(false) { "1" } else { "0" }.to_string(),
            ];
            let r = crate::isolate::run_probe(&args, None, Duration::from_secs(120), &[]);
            match r.status {
                ProbeStatus::Exit(0) => Verdict::Pass,
                other => Verdict::fail("C03:ladder", format!("{other:?} {} {}", r.stdout.trim(), r.stderr_tail)),
            }
        }
        _ => Verdict::fail("infra:unknown-kind", kind),
    }
}

/// libFuzzer input layout of the `zinc_decode` target: first byte = reader plan, rest = document
pub fn split_fuzz_input(data: &[u8]) -> (ReaderPlan, &[u8]) {
    match data.split_first() {
        Some((b, rest)) => (
            ReaderPlan {
                chunks: if b & 1 == 1 { vec![1 + (b >> 4)] } else { vec![] },
                interrupt_every: (b >> 1) & 3,
                fail_at: None,
                fail_forever: false,
                // bit 3: a reader that times out on every third call (the caller asks again)
                fail_every: if b & 8 != 0 { 3 } else { 0 },
                fault_kind: 0,
            },
            rest,
        ),
        None => (ReaderPlan::default(), data),
    }
}
