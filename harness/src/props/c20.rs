//! C20 — Display names follow the documented precedence and macro substitution.

use super::common::*;
use crate::gen::value::{self as gv, GenCfg};
use crate::runner::{bx, guarded, key_of, panic_sig, Case, Ctx, Rec, Verdict};
use crate::rval::*;
use libhaystack::val::{dict_to_dis, dis_macro, HaystackDict, Value};
use proptest::prelude::*;
use serde_json::{json, Value as J};
use std::borrow::Cow;
use std::collections::BTreeMap;

const DISPLAY_TAGS: [&str; 8] = ["dis", "disMacro", "disKey", "name", "def", "tag", "navName", "id"];

#[derive(Clone, Debug)]
pub struct DisCase {
    pub record: RDict,
    pub localized: BTreeMap<String, String>,
    pub default: Option<String>,
    /// a stand-alone pattern for the macro function itself
    pub pattern: String,
}

impl Case for DisCase {
    fn to_json(&self) -> J {
        json!({"record": to_json(&RVal::Dict(self.record.clone())), "localized": self.localized, "default": self.default, "pattern": self.pattern})
    }
    fn from_json(j: &J) -> Result<Self, String> {
        Ok(DisCase {
            record: match from_json(&j["record"])? {
                RVal::Dict(d) => d,
                _ => return Err("record".into()),
            },
            localized: j["localized"].as_object().map(|o| o.iter().map(|(k, v)| (k.clone(), v.as_str().unwrap_or("").to_string())).collect()).unwrap_or_default(),
            default: j["default"].as_str().map(String::from),
            pattern: j["pattern"].as_str().unwrap_or("").to_string(),
        })
    }
}

// ----- the model ---------------------------------------------------------------------------

/// display text of a tag value
fn display(v: &RVal) -> String {
    match v {
        RVal::Str(s) => s.clone(),
        RVal::Ref(id, dis) => dis.clone().unwrap_or_else(|| id.clone()),
        other => build(other).to_string(),
    }
}

fn is_start(c: char) -> bool {
    c.is_ascii_lowercase()
}
fn is_name(c: char) -> bool {
    c.is_ascii_alphanumeric() || c == '_'
}

/// hand-written scanner for `$tag`, `${tag}`, `$<key>`
pub fn macro_model(pattern: &str, rec: &RDict, loc: &BTreeMap<String, String>) -> String {
    let cs: Vec<char> = pattern.chars().collect();
    let mut out = String::new();
    let mut i = 0;
    while i < cs.len() {
        if cs[i] != '$' {
            out.push(cs[i]);
            i += 1;
            continue;
        }
        // `$name` with a name of at least two characters
        if i + 2 < cs.len() + 0 && is_start(cs[i + 1]) && i + 2 < cs.len() && is_name(cs[i + 2]) {
            let mut j = i + 1;
            while j < cs.len() && is_name(cs[j]) {
                j += 1;
            }
            let name: String = cs[i + 1..j].iter().collect();
            match rec.get(&name) {
                Some(v) => out.push_str(&display(v)),
                None => out.extend(cs[i..j].iter()),
            }
            i = j;
            continue;
        }
        if i + 1 < cs.len() && cs[i + 1] == '{' {
            // `${name}`
            let mut j = i + 2;
            if j < cs.len() && is_start(cs[j]) {
                let st = j;
                while j < cs.len() && is_name(cs[j]) {
                    j += 1;
                }
                if j - st >= 2 && j < cs.len() && cs[j] == '}' {
                    let name: String = cs[st..j].iter().collect();
                    match rec.get(&name) {
                        Some(v) => out.push_str(&display(v)),
                        None => out.extend(cs[i..=j].iter()),
                    }
                    i = j + 1;
                    continue;
                }
            }
        }
        if i + 1 < cs.len() && cs[i + 1] == '<' {
            // `$<key>`
            let mut j = i + 2;
            while j < cs.len() && cs[j] != '>' {
                j += 1;
            }
            if j < cs.len() && j > i + 2 {
                let key: String = cs[i + 2..j].iter().collect();
                match loc.get(&key) {
                    Some(t) => out.push_str(t),
                    None => out.extend(cs[i..=j].iter()),
                }
                i = j + 1;
                continue;
            }
        }
        out.push('$');
        i += 1;
    }
    out
}

fn str_or_display(v: &RVal) -> String {
    match v {
        RVal::Str(s) => s.clone(),
        other => build(other).to_string(),
    }
}

pub fn dis_model(c: &DisCase) -> String {
    let r = &c.record;
    if let Some(v) = r.get("dis") {
        return str_or_display(v);
    }
    if let Some(v) = r.get("disMacro") {
        return match v {
            RVal::Str(p) => macro_model(p, r, &c.localized),
            other => str_or_display(other),
        };
    }
    if let Some(v) = r.get("disKey") {
        if let RVal::Str(k) = v {
            if let Some(t) = c.localized.get(k) {
                return t.clone();
            }
        }
        return str_or_display(v);
    }
    for t in ["name", "def", "tag", "navName"] {
        if let Some(v) = r.get(t) {
            return str_or_display(v);
        }
    }
    if let Some(v) = r.get("id") {
        return match v {
            RVal::Ref(id, dis) => dis.clone().unwrap_or_else(|| id.clone()),
            other => str_or_display(other),
        };
    }
    c.default.clone().unwrap_or_default()
}

// ----- generators --------------------------------------------------------------------------

fn tag2() -> BoxedStrategy<String> {
    // tag names of at least two characters (what `$a` with a one-letter tag should do is left open)
    prop_oneof![
        4 => prop::sample::select(vec!["foo", "bar", "siteRef", "equipRef", "navName", "dis", "name", "id", "x_1", "aB"]).prop_map(String::from),
        1 => "[a-z][A-Za-z0-9_]{1,6}",
    ]
    .boxed()
}

fn pattern() -> BoxedStrategy<String> {
    let piece = prop_oneof![
        4 => tag2().prop_map(|t| format!("${t}")),
        3 => tag2().prop_map(|t| format!("${{{t}}}")),
        // keys that are also tag names: `$foo`, `${foo}` and `$<foo>` are three different questions about one word
        3 => prop::sample::select(vec!["key", "pod::key", "a b", "k2", "x>", "", "foo", "bar", "dis", "name", "navName", "aB"]).prop_map(|k| format!("$<{k}>")),
        3 => prop::sample::select(vec!["$", "{", "}", "<", ">", " ", "$$", "${", "$<", "$}", "${}", "$<>", "$1", "$_", "$A", "$ab$cd", "é", "→", "-", ".", "\n"]).prop_map(String::from),
        2 => "[a-z]{1}".prop_map(|t| format!("${t} ")),
        3 => "[ a-zA-Z0-9_]{0,6}",
        1 => gv::ustring(4),
    ];
    // mostly short patterns; one in twenty has 40-200 pieces (dozens to hundreds of macros in one pattern)
    prop_oneof![
        19 => prop::collection::vec(piece.clone(), 0..8).prop_map(|v| v.concat()),
        1 => prop::collection::vec(piece, 40..200).prop_map(|v| v.concat()),
    ]
    .boxed()
}

fn tag_value() -> BoxedStrategy<RVal> {
    let cfg = GenCfg::any(0);
    prop_oneof![
        4 => gv::ustring(8).prop_map(RVal::Str),
        2 => gv::ref_id().prop_map(|i| RVal::Ref(i, None)),
        2 => (gv::ref_id(), gv::ustring(6)).prop_map(|(i, d)| RVal::Ref(i, Some(d))),
        // ids as a decoder of another format may hand them over (blanks, slashes, non-ASCII)
        1 => prop_oneof![gv::ustring(6), prop::sample::select(vec!["Room 101", "a/b", "é", "", " "]).prop_map(String::from)].prop_map(|i| RVal::Ref(i, None)),
        3 => gv::scalar(cfg).prop_filter("non-null", |v| !matches!(v, RVal::Null)),
        1 => prop::collection::vec(gv::scalar(cfg), 0..3).prop_map(RVal::List),
    ]
    .boxed()
}

fn dis_case() -> BoxedStrategy<DisCase> {
    let display_tags = prop::collection::btree_map(prop::sample::select(DISPLAY_TAGS.to_vec()).prop_map(String::from), prop_oneof![3 => tag_value(), 2 => pattern().prop_map(RVal::Str)], 0..4);
    // the text of an ordinary tag may itself look like a pattern (`$<key>`, `$foo`): substituted text is not scanned again
    let others = prop::collection::btree_map(tag2(), prop_oneof![4 => tag_value(), 1 => pattern().prop_map(RVal::Str), 1 => (gv::ref_id(), pattern()).prop_map(|(i, p)| RVal::Ref(i, Some(p)))], 0..5);
    let loc = prop::collection::btree_map(prop::sample::select(vec!["key", "pod::key", "a b", "k2", "foo", "bar", "dis", "name", "navName", "aB", "notUsed"]).prop_map(String::from), gv::ustring(6), 0..6);
    bx((display_tags, others, loc, prop::option::of(gv::ustring(5)), pattern(), any::<u8>()).prop_map(|(mut d, o, localized, default, pattern, pick)| {
        for (k, v) in o {
            d.entry(k).or_insert(v);
        }
        // make disMacro / disKey carry patterns and keys often
        if pick % 3 == 0 {
            d.insert("disMacro".into(), RVal::Str(pattern.clone()));
            d.remove("dis");
        }
        if pick % 5 == 1 {
            d.insert("disKey".into(), RVal::Str(["key", "k2", "nope"][pick as usize % 3].into()));
        }
        DisCase { record: d, localized, default, pattern }
    }))
}

fn check_case(c: &DisCase, rec: &mut Rec) -> Verdict {
    let present: Vec<&str> = DISPLAY_TAGS.iter().copied().filter(|t| c.record.contains_key(*t)).collect();
    rec.class(&format!("display-tags-present:{}", present.len()));
    if let Some(first) = present.first() {
        rec.class(&format!("first:{first}"));
    } else {
        rec.class("first:none(default)");
    }
    let (mut resolvable, mut unresolvable) = (0, 0);
    let pat_for_class = match c.record.get("disMacro") {
        Some(RVal::Str(p)) if !c.record.contains_key("dis") => p.clone(),
        _ => c.pattern.clone(),
    };
    for piece in pat_for_class.split('$').skip(1) {
        let name: String = piece.trim_start_matches('{').chars().take_while(|ch| is_name(*ch)).collect();
        if name.len() >= 2 {
            if c.record.contains_key(&name) {
                resolvable += 1;
            } else {
                unresolvable += 1;
            }
        }
    }
    if present.len() >= 2 || (resolvable >= 1 && unresolvable >= 1) {
        rec.nontrivial(key_of(&c.to_json().to_string()));
    }
    if resolvable >= 1 && unresolvable >= 1 {
        rec.class("macro:resolvable+unresolvable");
    }
    rec.sample(|| format!("{} | pattern {:?}", trunc(&render(&RVal::Dict(c.record.clone())), 200), trunc(&c.pattern, 80)));
    let d = build_dict(&c.record);
    let loc = &c.localized;
    let r = guarded(|| -> Verdict {
        // 1. the macro function on its own
        let get_value = |name: &str| -> Option<Cow<'_, Value>> { d.get(name).map(Cow::Borrowed) };
        let get_loc = |key: &str| -> Option<Cow<'_, str>> { loc.get(key).map(|s| Cow::Borrowed(s.as_str())) };
        let got = dis_macro(&c.pattern, get_value, get_loc).to_string();
        let want = macro_model(&c.pattern, &c.record, loc);
        if got != want {
            return Verdict::fail("C20:dis_macro:differs", format!("dis_macro({:?}) over {} gives {:?}, expected {:?}", c.pattern, trunc(&render(&RVal::Dict(c.record.clone())), 200), got, want));
        }
        if !c.pattern.contains('$') && got != c.pattern {
            return Verdict::fail("C20:dis_macro:no-dollar-changed", format!("{:?} -> {:?}", c.pattern, got));
        }
        // 1b. callbacks that compute display names themselves (resolving `$equipRef` through the referenced record's
        // dis(), a localiser built on a template): the same answer, and no panic, when substitution is re-entered
        let get_value_re = |name: &str| -> Option<Cow<'_, Value>> {
            std::hint::black_box(d.dis().len());
            std::hint::black_box(dis_macro("$foo ${bar} $<key>", |n: &str| d.get(n).map(Cow::Borrowed), |_k: &str| None::<Cow<'_, str>>).len());
            d.get(name).map(Cow::Borrowed)
        };
        let get_loc_re = |key: &str| -> Option<Cow<'_, str>> {
            std::hint::black_box(dis_macro("$dis $<k2>", |n: &str| d.get(n).map(Cow::Borrowed), |_k: &str| None::<Cow<'_, str>>).len());
            loc.get(key).map(|s| Cow::Borrowed(s.as_str()))
        };
        let got_re = dis_macro(&c.pattern, get_value_re, get_loc_re).to_string();
        if got_re != want {
            return Verdict::fail("C20:dis_macro:differs-with-re-entrant-callbacks", format!("dis_macro({:?}) with callbacks that call dis()/dis_macro gives {:?}, expected {:?}", c.pattern, got_re, want));
        }
        // 2. the record's display string
        let get_loc2 = |key: &str| -> Option<Cow<'_, str>> { loc.get(key).map(|s| Cow::Borrowed(s.as_str())) };
        let got = dict_to_dis(&d, &get_loc2, c.default.as_deref().map(Cow::Borrowed)).to_string();
        let want = dis_model(c);
        if got != want {
            return Verdict::fail(
                format!("C20:dict_to_dis:differs:first={}", present.first().copied().unwrap_or("none")),
                format!("dict_to_dis of {} gives {:?}, the precedence chain gives {:?}", trunc(&render(&RVal::Dict(c.record.clone())), 300), got, want),
            );
        }
        // 3. Dict::dis() = no localisation, empty default
        let plain = DisCase { localized: BTreeMap::new(), default: None, ..c.clone() };
        let got = d.dis().to_string();
        let want = dis_model(&plain);
        if got != want {
            return Verdict::fail("C20:Dict::dis:differs", format!("Dict::dis of {} gives {:?}, expected {:?}", trunc(&render(&RVal::Dict(c.record.clone())), 300), got, want));
        }
        Verdict::Pass
    });
    match r {
        Ok(v) => v,
        Err(p) => Verdict::fail(format!("C20:{}", panic_sig(&p)), format!("display name computation panicked: {} at {}", p.msg, p.location)),
    }
}

/// one-letter names after `$` are left open by the documentation: only "does not panic" is checked
fn check_one_letter(c: &DisCase, rec: &mut Rec) -> Verdict {
    let mut record = c.record.clone();
    record.insert("a".into(), RVal::Str("A".into()));
    record.insert("b".into(), RVal::Null);
    let d = build_dict(&record);
    let pattern = format!("$a {} ${{b}} $b", c.pattern);
    rec.nontrivial(key_of(&pattern));
    match guarded(|| {
        let _ = dis_macro(&pattern, |n: &str| d.get(n).map(Cow::Borrowed), |_k: &str| None::<Cow<'_, str>>).len();
        let _ = d.dis().len();
    }) {
        Ok(()) => Verdict::Pass,
        Err(p) => Verdict::fail(format!("C20:one-letter:{}", panic_sig(&p)), format!("panicked on {pattern:?}: {}", p.msg)),
    }
}

pub fn run(ctx: &mut Ctx) {
    ctx.rule("generated: records over the eight display tags (absent / Str / Ref with and without dis / other kinds / patterns) plus ordinary tags, disMacro patterns over $ { } < > identifiers (present and absent tags) spaces and non-ASCII, a localisation function defined on a generated key subset, optional default; oracle: first present of dis, disMacro, disKey, name, def, tag, navName, id else the default; a hand-written macro scanner ($tag greedy, ${tag}, $<key>; resolvable -> display text, else verbatim); text without $ unchanged; never panics; non-trivial: >= 2 display tags present, or a pattern with a resolvable and an unresolvable macro; distinct by case");
    ctx.assume("tag names after $ have at least two characters and display tags are not Null in the asserted cases (one-letter names / Null tags only checked for absence of panics); the display text of a non-Str, non-Ref value is Value::to_string()");
    ctx.run_sub::<DisCase>("display", ctx.tier.pick(160_000, 3_200_000), &dis_case, &check_case);
    ctx.run_sub::<DisCase>("one-letter-no-panic", ctx.tier.pick(16_000, 320_000), &dis_case, &check_one_letter);
}

pub fn replay(kind: &str, case: &J, rec: &mut Rec) -> Verdict {
    match kind {
        "display" => DisCase::from_json(case).map(|c| check_case(&c, rec)).unwrap_or_else(|e| Verdict::fail("infra:bad-replay", e)),
        "one-letter-no-panic" => DisCase::from_json(case).map(|c| check_one_letter(&c, rec)).unwrap_or_else(|e| Verdict::fail("infra:bad-replay", e)),
        _ => Verdict::fail("infra:unknown-kind", kind),
    }
}
