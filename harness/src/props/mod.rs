use crate::runner::{Ctx, Rec, Verdict};
use serde_json::Value as J;

pub mod c01;
pub mod c02;
pub mod c03;
pub mod c04;
pub mod c05;
pub mod c06;
pub mod c07;
pub mod c08;
pub mod c09;
pub mod c10;
pub mod c11;
pub mod c12;
pub mod c13;
pub mod c14;
pub mod ns_model;
pub mod c15;
pub mod c16;
pub mod c17;
pub mod c18;
pub mod capi;
pub mod c19;
pub mod c20;
pub mod common;

pub const ALL: &[&str] = &["C01", "C02", "C03", "C04", "C05", "C06", "C07", "C08", "C09", "C10", "C11", "C12", "C13", "C14", "C15", "C16", "C17", "C18", "C19", "C20"];

pub fn run(prop: &str, ctx: &mut Ctx) -> bool {
    match prop {
        "C01" => c01::run(ctx),
        "C02" => c02::run(ctx),
        "C03" => c03::run(ctx),
        "C04" => c04::run(ctx),
        "C05" => c05::run(ctx),
        "C06" => c06::run(ctx),
        "C07" => c07::run(ctx),
        "C08" => c08::run(ctx),
        "C09" => c09::run(ctx),
        "C10" => c10::run(ctx),
        "C11" => c11::run(ctx),
        "C12" => c12::run(ctx),
        "C13" => c13::run(ctx),
        "C14" => c14::run(ctx),
        "C15" => c15::run(ctx),
        "C16" => c16::run(ctx),
        "C17" => c17::run(ctx),
        "C18" => c18::run(ctx),
        "C19" => c19::run(ctx),
        "C20" => c20::run(ctx),
        _ => return false,
    }
    true
}

pub fn replay(prop: &str, kind: &str, case: &J, rec: &mut Rec) -> Verdict {
    match prop {
        "C01" => c01::replay(kind, case, rec),
        "C02" => c02::replay(kind, case, rec),
        "C03" => c03::replay(kind, case, rec),
        "C04" => c04::replay(kind, case, rec),
        "C05" => c05::replay(kind, case, rec),
        "C06" => c06::replay(kind, case, rec),
        "C07" => c07::replay(kind, case, rec),
        "C08" => c08::replay(kind, case, rec),
        "C09" => c09::replay(kind, case, rec),
        "C10" => c10::replay(kind, case, rec),
        "C11" => c11::replay(kind, case, rec),
        "C12" => c12::replay(kind, case, rec),
        "C13" => c13::replay(kind, case, rec),
        "C14" => c14::replay(kind, case, rec),
        "C15" => c15::replay(kind, case, rec),
        "C16" => c16::replay(kind, case, rec),
        "C17" => c17::replay(kind, case, rec),
        "C18" => c18::replay(kind, case, rec),
        "C19" => c19::replay(kind, case, rec),
        "C20" => c20::replay(kind, case, rec),
        _ => Verdict::fail("infra:unknown-property", prop),
    }
}

/// Child-process probes (`hv probe <name> ...`): returns the process exit code.
pub fn probe(args: &[String]) -> i32 {
    match args.first().map(|s| s.as_str()) {
        Some("ladder") => c03::probe_ladder(&args[1..]),
        Some("filter-ladder") => c09::probe_ladder(&args[1..]),
        Some("c14-schedule") => c14::probe_schedule(&args[1..]),
        Some("replay-file") => {
            // `hv probe replay-file <prop> <file>`: exit 0 pass, 3 fail (used by the hang watchdog with a timeout)
            let (Some(p), Some(f)) = (args.get(1), args.get(2)) else { return 2 };
            let Ok(text) = std::fs::read_to_string(f) else { return 2 };
            let Ok(j) = serde_json::from_str::<J>(&text) else { return 2 };
            let mut rec = crate::runner::Rec::new();
            match replay(p, j["kind"].as_str().unwrap_or(""), &j["case"], &mut rec) {
                Verdict::Pass => 0,
                Verdict::Fail { .. } => 3,
            }
        }
        Some("capi") => c17::child(&args[1..]),
        Some("capi-one") => c17::child_one(&args[1..]),
        Some("null-sweep") => c18::child_null_sweep(),
        _ => {
            eprintln!("unknown probe {args:?}");
            2
        }
    }
}
