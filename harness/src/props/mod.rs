use crate::runner::{Ctx, Rec, Verdict};
use serde_json::Value as J;

pub mod c01;
pub mod c02;
pub mod c03;
pub mod c04;
pub mod c05;
pub mod c06;
pub mod c07;
pub mod c08;
pub mod c09;
pub mod c10;
pub mod c11;
pub mod c12;
pub mod c13;
pub mod c14;
pub mod ns_model;
pub mod c15;
pub mod c16;
pub mod c17;
pub mod c18;
pub mod capi;
pub mod c19;
pub mod c20;
pub mod common;

pub const ALL: &[&str] = &["C01", "C02", "C03", "C04", "C05", "C06", "C07", "C08", "C09", "C10", "C11", "C12", "C13", "C14", "C15", "C16", "C17", "C18", "C19", "C20"];

pub fn run(prop: &str, ctx: &mut Ctx) -> bool {
    match prop {
        "C01" => c01::run(ctx),
        "C02" => c02::run(ctx),
        "C03" => c03::run(ctx),
        "C04" => c04::run(ctx),
        "C05" => c05::run(ctx),
        "C06" => c06::run(ctx),
        "C07" => c07::run(ctx),
        "C08" => c08::run(ctx),
        "C09" => c09::run(ctx),
        "C10" => c10::run(ctx),
        "C11" => c11::run(ctx),
        "C12" => c12::run(ctx),
        "C13" => c13::run(ctx),
        "C14" => c14::run(ctx),
        "C15" => c15::run(ctx),
        "C16" => c16::run(ctx),
        "C17" => c17::run(ctx),
        "C18" => c18::run(ctx),
        "C19" => c19::run(ctx),
        "C20" => c20::run(ctx),
        _ => return false,
    }
    true
}

pub fn replay(prop: &str, kind: &str, case: &J, rec: &mut Rec) -> Verdict {
    match prop {
        "C01" => c01::replay(kind, case, rec),
        "C02" => c02::replay(kind, case, rec),
        "C03" => c03::replay(kind, case, rec),
        "C04" => c04::replay(kind, case, rec),
        "C05" => c05::replay(kind, case, rec),
        "C06" => c06::replay(kind, case, rec),
        "C07" => c07::replay(kind, case, rec),
        "C08" => c08::replay(kind, case, rec),
        "C09" => c09::replay(kind, case, rec),
        "C10" => c10::replay(kind, case, rec),
        "C11" => c11::replay(kind, case, rec),
        "C12" => c12::replay(kind, case, rec),
        "C13" => c13::replay(kind, case, rec),
        "C14" => c14::replay(kind, case, rec),
        "C15" => c15::replay(kind, case, rec),
        "C16" => c16::replay(kind, case, rec),
        "C17" => c17::replay(kind, case, rec),
        "C18" => c18::replay(kind, case, rec),
        "C19" => c19::replay(kind, case, rec),
        "C20" => c20::replay(kind, case, rec),
        _ => Verdict::fail("infra:unknown-property", prop),
    }
}

/// Child-process probes (`hv probe <name> ...`): returns the process exit code.
pub fn probe(args: &[String]) -> i32 {
    match args.first().map(|s| s.as_str()) {
        Some("ladder") => c03::probe_ladder(&args[1..]),
        Some("filter-ladder") => c09::probe_ladder(&args[1..]),
        Some("c14-schedule") => c14::probe_schedule(&args[1..]),
        Some("c14-guards") => c14::probe_guards(),
        Some("replay-file") => {
            // `hv probe replay-file <prop> <file>`: exit 0 pass, 3 fail (used by the hang watchdog with a timeout)
            let (Some(p), Some(f)) = (args.get(1), args.get(2)) else { return 2 };
            let Ok(text) = std::fs::read_to_string(f) else { return 2 };
            let Ok(j) = serde_json::from_str::<J>(&text) else { return 2 };
            let mut rec = crate::runner::Rec::new();
            match replay(p, j["kind"].as_str().unwrap_or(""), &j["case"], &mut rec) {
                Verdict::Pass => 0,
                Verdict::Fail { .. } => 3,
            }
        }
        Some("c10-capi") => c10::probe_capi_encoders(&args[1..]),
        Some("capi") => c17::child(&args[1..]),
        Some("capi-one") => c17::child_one(&args[1..]),
        Some("null-sweep") => c18::child_null_sweep(),
        _ => {
            eprintln!("unknown probe {args:?}");
            2
        }
    }
}

/// Convert a libFuzzer artifact (raw bytes) of `target` into a replay file for `prop`, re-run it
/// through the plain replay path, print the VIOLATION line if it fails there too.
pub fn fuzz_artifact(prop: &str, target: &str, file: &str) -> i32 {
    use crate::runner::Case;
    let Ok(data) = std::fs::read(file) else { return 2 };
    let (kind, case): (&str, J) = match (target, prop) {
        ("zinc_decode", "C03") => {
            let (plan, body) = c03::split_fuzz_input(&data);
            ("doc", c03::Doc { bytes: body.to_vec(), plan, origin: "zinc-libfuzzer".into() }.to_json())
        }
        ("zinc_decode", _) => {
            let (plan, body) = c03::split_fuzz_input(&data);
            ("fixpoint+chunking", c03::Doc { bytes: body.to_vec(), plan, origin: "zinc-libfuzzer".into() }.to_json())
        }
        ("hayson_decode", "C03") => ("doc", c03::Doc { bytes: data.clone(), plan: Default::default(), origin: "hayson-libfuzzer".into() }.to_json()),
        ("hayson_decode", "C10") => ("foreign-hayson", J::String(String::from_utf8_lossy(&data).to_string())),
        ("hayson_decode", _) => ("fixpoint+chunking", c03::Doc { bytes: data.clone(), plan: Default::default(), origin: "hayson-libfuzzer".into() }.to_json()),
        ("filter_parse", _) => ("filter-text", c09::ftext_from_fuzz(&data).to_json()),
        ("zinc_value", p) => match crate::gen::arb::value_and_choices(&data) {
            Some((v, choices)) => match p {
                "C01" => ("zinc-rt", v.to_json()),
                "C02" => ("hayson-rt", v.to_json()),
                _ => ("zinc-B", c04::Spelled { v, choices }.to_json()),
            },
            None => return 0,
        },
        _ => return 2,
    };
    let mut rec = crate::runner::Rec::new();
    let mut v = crate::runner::guarded(|| replay(prop, kind, &case, &mut rec)).unwrap_or_else(|p| Verdict::fail(format!("{prop}:panic"), p.msg));
    let mut kind = kind;
    if !v.is_fail() && target == "zinc_value" && prop == "C04" {
        // direction A of C04 uses the value alone
        if let Ok(sp) = c04::Spelled::from_json(&case) {
            let a = replay(prop, "zinc-A", &sp.v.to_json(), &mut rec);
            if a.is_fail() {
                v = a;
                kind = "zinc-A";
            }
        }
    }
    match v {
        Verdict::Pass => {
            println!("artifact {file} does not fail through the replay path (target-only effect): ignored");
            0
        }
        Verdict::Fail { sig, msg } => {
            let dir = crate::runner::verif_root().join("violations");
            let _ = std::fs::create_dir_all(&dir);
            let case = if kind == "zinc-A" { c04::Spelled::from_json(&case).map(|s| s.v.to_json()).unwrap_or(case) } else { case };
            let path = dir.join(format!("{prop}-libfuzzer-{target}-{:016x}.json", crate::runner::fnv64(&data)));
            let doc = serde_json::json!({"property": prop, "kind": kind, "signature": sig, "message": msg, "case": case, "found_by": format!("libFuzzer target {target}")});
            let _ = std::fs::write(&path, serde_json::to_string_pretty(&doc).unwrap());
            println!("VIOLATION property={prop} replay={}", path.display());
            println!("  kind={kind} signature={sig}");
            println!("  {}", msg.lines().next().unwrap_or(""));
            1
        }
    }
}

/// Deterministic seed corpus for the libFuzzer targets (committed under /verif/corpus).
pub fn gen_corpus(root: &str) -> i32 {
    use crate::gen::value::{top_value, GenCfg};
    use proptest::strategy::{Strategy, ValueTree};
    use proptest::test_runner::{Config, RngAlgorithm, TestRng, TestRunner};
    let mut runner = TestRunner::new_with_rng(Config::default(), TestRng::from_seed(RngAlgorithm::ChaCha, &[7u8; 32]));
    let vals = top_value(GenCfg::wf(2));
    let filters = crate::gen::filter::filter_or(1, true);
    for t in ["zinc_decode", "hayson_decode", "filter_parse", "zinc_value"] {
        let _ = std::fs::create_dir_all(format!("{root}/{t}"));
    }
    let mut rec = crate::runner::Rec::new();
    rec.on = false;
    for i in 0..48 {
        let v = vals.new_tree(&mut runner).unwrap().current();
        let v = c04::spellable(&v, &mut rec);
        let z = crate::refimpl::zinc::write(&v, &mut crate::refimpl::zinc::Ch::canonical());
        if z.len() < 600 {
            let mut b = vec![(i * 37 % 256) as u8];
            b.extend_from_slice(z.as_bytes());
            let _ = std::fs::write(format!("{root}/zinc_decode/gen-{i:02}"), b);
        }
        let h = crate::refimpl::hayson::write(&v, &mut crate::refimpl::zinc::Ch::canonical());
        if h.len() < 800 {
            let _ = std::fs::write(format!("{root}/hayson_decode/gen-{i:02}"), h);
        }
        let f = filters.new_tree(&mut runner).unwrap().current();
        let text = crate::gen::filter::print(&f, &[]).0;
        if text.len() < 300 {
            let mut b = vec![1u8, 2, 0, 4, 5, 3];
            b.extend_from_slice(text.as_bytes());
            let _ = std::fs::write(format!("{root}/filter_parse/gen-{i:02}"), b);
        }
    }
    // token dictionaries
    let dict = |name: &str, toks: &[&str]| {
        let mut s = String::new();
        for t in toks {
            let esc: String = t.bytes().map(|b| if b.is_ascii_alphanumeric() || b" :,[]{}<>()@^-+._/=!*?".contains(&b) { (b as char).to_string() } else { format!("\\x{b:02x}") }).collect();
            s.push_str(&format!("\"{esc}\"\n"));
        }
        let _ = std::fs::create_dir_all(format!("{root}/../dict"));
        let _ = std::fs::write(format!("{root}/../dict/{name}.dict"), s);
    };
    dict("zinc_decode", crate::gen::mutate::ZINC_TOKENS);
    dict("hayson_decode", crate::gen::mutate::JSON_TOKENS);
    dict("filter_parse", crate::gen::mutate::FILTER_TOKENS);
    0
}
