//! C13 — Def namespace queries agree with the subtype graph.

use super::c09::real_ns;
use super::common::*;
use super::ns_model::*;
use crate::runner::{bx, guarded, idx, key_of, panic_sig, Case, Ctx, Rec, Verdict, SHARDS};
use crate::rval::*;
use proptest::prelude::*;
use serde_json::{json, Value as J};

#[derive(Clone, Debug)]
pub struct NsCase {
    pub tax: Taxonomy,
    /// (kind, name index a, name index b, record)
    pub queries: Vec<(u8, u16, u16, RDict)>,
}

impl Case for NsCase {
    fn to_json(&self) -> J {
        json!({"tax": self.tax.to_json(), "queries": self.queries.iter().map(|(k, a, b, r)| json!([k, a, b, to_json(&RVal::Dict(r.clone()))])).collect::<Vec<_>>()})
    }
    fn from_json(j: &J) -> Result<Self, String> {
        let mut queries = vec![];
        for q in j["queries"].as_array().ok_or("queries")? {
            let r = match from_json(&q[3]) {
                Ok(RVal::Dict(d)) => d,
                _ => RDict::new(),
            };
            queries.push((q[0].as_u64().unwrap_or(0) as u8, q[1].as_u64().unwrap_or(0) as u16, q[2].as_u64().unwrap_or(0) as u16, r));
        }
        Ok(NsCase { tax: Taxonomy::from_json(&j["tax"])?, queries })
    }
}

impl NsCase {
    pub fn resolved(&self) -> Vec<Query> {
        let names = self.tax.names();
        let mut out = vec![];
        for (k, a, b, r) in &self.queries {
            let q = Query::make(*k, &names[idx(*a, names.len())], &names[idx(*b, names.len())], r);
            // a two-name query is followed by its "re-split twins": ':' is a symbol character, so `k:l` + `m` and
            // `k` + `l:m` are different questions that read alike once the two names are glued together
            let twins: Vec<Query> = match &q {
                Query::Fits(a, b) => {
                    // (':' of feature keys and '-' of conjuncts are both characters of names)
                    let mut out = vec![];
                    for glue in [':', '-'] {
                        let glued = format!("{a}{glue}{b}");
                        out.extend(glued.char_indices().filter(|(p, c)| *c == glue && *p != a.len() && *p > 0 && *p + 1 < glued.len()).map(|(p, _)| Query::Fits(glued[..p].to_string(), glued[p + 1..].to_string())));
                    }
                    out
                }
                _ => vec![],
            };
            // ... and a record query by its twin: the same tag names with one marker / non-marker flipped (whatever is
            // remembered per *set of names* instead of per record answers one of the two wrongly)
            let rec_twin = super::c14::twin(&q);
            out.push(q);
            out.extend(twins);
            out.extend(rec_twin);
        }
        out
    }
}

pub fn ns_case(max_defs: usize, max_queries: usize) -> BoxedStrategy<NsCase> {
    bx(taxonomy(max_defs).prop_flat_map(move |tax| {
        let names = tax.names();
        let q = (0u8..QUERY_KINDS as u8, any::<u16>(), any::<u16>(), record_over(names));
        (Just(tax), prop::collection::vec(q, 1..=max_queries)).prop_map(|(tax, queries)| NsCase { tax, queries })
    }))
}

pub fn compare(q: &Query, lib: &Answer, model: &Answer) -> Verdict {
    match (lib, model) {
        (Answer::Bool(a), Answer::Bool(b)) if a == b => Verdict::Pass,
        (Answer::Set(a, dup), Answer::Set(b, dup_expected)) if a == b => {
            if *dup && !*dup_expected {
                Verdict::fail(format!("C13:{}:duplicates", q.label()), format!("{} returned the same def more than once for {:?}", q.label(), q.to_json()))
            } else {
                Verdict::Pass
            }
        }
        (a, b) => Verdict::fail(
            format!("C13:{}:differs", q.label()),
            format!("{} for {} answers {}, the subtype graph gives {}", q.label(), trunc(&q.to_json().to_string(), 200), fmt_answer(a), fmt_answer(b)),
        ),
    }
}

pub fn fmt_answer(a: &Answer) -> String {
    match a {
        Answer::Bool(b) => b.to_string(),
        Answer::Set(s, _) => trunc(&format!("{:?}", s), 300),
    }
}

fn check_case(c: &NsCase, rec: &mut Rec) -> Verdict {
    let nontrivial_tax = c.tax.nontrivial();
    rec.class(&format!("defs:{}", (c.tax.defs.len() / 10) * 10));
    if nontrivial_tax {
        rec.class("taxonomy:diamond/undefined-supertype/conjunct");
    }
    rec.sample(|| format!("{} defs: {}", c.tax.defs.len(), trunc(&c.tax.defs.iter().map(|d| format!("{}<{}", d.name, d.is.iter().map(render).collect::<Vec<_>>().join(","))).collect::<Vec<_>>().join(" "), 300)));
    let r = guarded(|| -> Verdict {
        let ns = OwnedNs::make(c.tax.grid());
        for q in c.resolved() {
            rec.class(&format!("query:{}", q.label()));
            let record_has_marker = match &q {
                Query::Reflect(r) | Query::ReflectFits(r, _) | Query::FilterIsA(r, _) => r.iter().any(|(k, v)| matches!(v, RVal::Marker) && c.tax.defined(k)),
                _ => true,
            };
            if nontrivial_tax && record_has_marker {
                rec.nontrivial(key_of(&format!("{:?}{:?}", c.tax.defs.len(), q)) ^ key_of(&format!("{:?}", c.tax.defs.iter().map(|d| &d.name).collect::<Vec<_>>())));
            }
            let lib = ask_lib(ns.get(), &q);
            let model = ask_model(&c.tax, &q);
            let v = compare(&q, &lib, &model);
            if v.is_fail() {
                return v;
            }
        }
        Verdict::Pass
    });
    match r {
        Ok(v) => v,
        Err(p) => Verdict::fail(format!("C13:{}", panic_sig(&p)), format!("namespace query panicked: {} at {}", p.msg, p.location)),
    }
}

/// The real Project Haystack defs: every symbol for the unary queries, every ordered pair for fits.
fn enumerate_real(ctx: &mut Ctx) {
    let text = std::fs::read_to_string("/repo/tests/defs/defs.zinc").expect("defs.zinc");
    let grid = libhaystack::encoding::zinc::decode::from_str(&text).expect("defs.zinc decodes");
    let tax = taxonomy_of_grid(&grid);
    let ns = real_ns();
    let names: Vec<String> = tax.table().keys().map(|s| s.to_string()).collect();
    ctx.extra.insert("real_defs".into(), json!(names.len()));
    // precompute the model's inheritance for the pair table
    let inh: Vec<std::collections::BTreeSet<String>> = names.iter().map(|n| tax.inheritance(n)).collect();
    let pairs_step = ctx.tier.pick(1, 1) as usize;
    let results: std::sync::Mutex<(Rec, Vec<(Verdict, J)>)> = std::sync::Mutex::new((Rec::new(), vec![]));
    std::thread::scope(|s| {
        for shard in 0..SHARDS {
            let (names, tax, inh, results) = (&names, &tax, &inh, &results);
            s.spawn(move || {
                let mut rec = Rec::new();
                let mut fails: Vec<(Verdict, J)> = vec![];
                for i in (shard..names.len()).step_by(SHARDS) {
                    let a = &names[i];
                    let empty = RDict::new();
                    for k in 0..9u8 {
                        let q = Query::make(k, a, a, &empty);
                        if matches!(q, Query::Fits(..)) {
                            continue;
                        }
                        rec.evals += 1;
                        rec.nontrivial(key_of(&format!("real:{k}:{a}")));
                        let v = match guarded(|| ask_lib(ns, &q)) {
                            Ok(lib) => compare(&q, &lib, &ask_model(tax, &q)),
                            Err(p) => Verdict::fail(format!("C13:real:{}", panic_sig(&p)), p.msg),
                        };
                        if v.is_fail() && fails.len() < 3 {
                            fails.push((v, json!({"real_defs": true, "query": q.to_json()})));
                        }
                    }
                    // records carrying this tag (and, for conjuncts, its parts) as markers
                    let mut r = RDict::new();
                    for part in a.split('-') {
                        if !part.contains(':') {
                            r.insert(part.to_string(), RVal::Marker);
                        }
                    }
                    for q in [Query::Reflect(r.clone()), Query::ReflectFits(r.clone(), "entity".into()), Query::FilterIsA(r.clone(), "marker".into()), Query::FilterIsA(r.clone(), a.clone())] {
                        rec.evals += 1;
                        let v = match guarded(|| ask_lib(ns, &q)) {
                            Ok(lib) => compare(&q, &lib, &ask_model(tax, &q)),
                            Err(p) => Verdict::fail(format!("C13:real:{}", panic_sig(&p)), p.msg),
                        };
                        if v.is_fail() && fails.len() < 3 {
                            fails.push((v, json!({"real_defs": true, "query": q.to_json()})));
                        }
                    }
                    if i % pairs_step == 0 {
                        for (j, b) in names.iter().enumerate() {
                            rec.evals += 1;
                            let want = inh[i].contains(b);
                            let _ = j;
                            let got = ns.fits(&libhaystack::val::Symbol::from(a.as_str()), &libhaystack::val::Symbol::from(b.as_str()));
                            if got != want && fails.len() < 3 {
                                fails.push((
                                    Verdict::fail("C13:real:fits:differs", format!("fits({a}, {b}) = {got}, the subtype graph gives {want}")),
                                    json!({"real_defs": true, "query": Query::Fits(a.clone(), b.clone()).to_json()}),
                                ));
                            }
                        }
                    }
                }
                let mut m = results.lock().unwrap();
                m.0.merge(rec);
                m.1.extend(fails);
            });
        }
    });
    let (rec, fails) = results.into_inner().unwrap();
    ctx.rec.merge(rec);
    ctx.rec.samples.push("real defs: fits(ahu, equip), reflect({ahu, equip}), all_supertypes_of(hot-water-plant) ...".into());
    for (v, c) in fails {
        ctx.report("real-defs", v, c);
    }
}

pub fn run(ctx: &mut Ctx) {
    ctx.rule("generated: random acyclic taxonomies (3-40 defs, multiple inheritance, diamonds, undefined supertypes, non-symbol junk in `is`, defs without `is`, conjuncts of defined markers, feature keys, choice subtypes, rows that are not defs) -> defs grid -> Namespace::make; queries get / subtypes_of / all_subtypes_of / supertypes_of / all_supertypes_of / inheritance / fits / choices_for / conjuncts_defs / reflect / Reflection::fits / filter ^symbol over defined and undefined names and records with marker and non-marker tags; oracle: adjacency sets + closure over the `is` lists, compared as sets of def names (and no duplicates); exhaustive: the real Project Haystack defs (tests/defs/defs.zinc): every symbol for every unary query and a marker record per def, every ordered pair for fits; non-trivial: taxonomy has a diamond, an undefined supertype or a conjunct and the record has a defined marker tag; distinct by (taxonomy, query)");
    ctx.assume("a conjunct is reflected when all its parts are marker tags of the record that have defs (as the statement says); answers are compared as sets, never by order");
    enumerate_real(ctx);
    ctx.exhaustive = false;
    let max_defs = ctx.tier.pick(24, 40) as usize;
    ctx.run_sub::<NsCase>("taxonomy", ctx.tier.pick(16_000, 320_000), &move || ns_case(max_defs, 40), &check_case);
}

pub fn replay(kind: &str, case: &J, rec: &mut Rec) -> Verdict {
    match kind {
        "taxonomy" => NsCase::from_json(case).map(|c| check_case(&c, rec)).unwrap_or_else(|e| Verdict::fail("infra:bad-replay", e)),
        "real-defs" => {
            let text = std::fs::read_to_string("/repo/tests/defs/defs.zinc").expect("defs.zinc");
            let grid = libhaystack::encoding::zinc::decode::from_str(&text).expect("defs.zinc decodes");
            let tax = taxonomy_of_grid(&grid);
            match Query::from_json(&case["query"]) {
                Ok(q) => compare(&q, &ask_lib(real_ns(), &q), &ask_model(&tax, &q)),
                Err(e) => Verdict::fail("infra:bad-replay", e),
            }
        }
        _ => Verdict::fail("infra:unknown-kind", kind),
    }
}
