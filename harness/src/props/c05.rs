//! C05 — Hayson JSON conforms to the Project Haystack JSON encoding in both directions.

use super::c04::{choices, Spelled};
use super::common::*;
use crate::gen::value::{top_value, GenCfg};
use crate::refimpl::hayson as rh;
use crate::refimpl::zinc::Ch;
use crate::runner::{bx, guarded, key_of, panic_sig, Case, Ctx, Rec, Verdict};
use crate::rval::*;
use libhaystack::val::Value;
use proptest::prelude::*;
use serde_json::Value as J;

fn strip_meta_ver(v: &RVal, rec: &mut Rec) -> RVal {
    let mut v = v.clone();
    let mut n = 0;
    v.walk_mut(&mut |x| {
        if let RVal::Grid(g) = x {
            if let Some(m) = &mut g.meta {
                if m.remove("ver").is_some() {
                    n += 1;
                }
            }
        }
    });
    for _ in 0..n {
        rec.excluded("grid-meta-tag-named-ver(reserved-by-hayson)");
    }
    v
}

/// A dict carrying a tag named `_kind` cannot be told from a typed object: outside the model.
fn has_kind_tag(v: &RVal) -> bool {
    let mut bad = false;
    v.walk(&mut |x| match x {
        RVal::Dict(d) => bad |= d.contains_key("_kind"),
        RVal::Grid(g) => {
            bad |= g.meta.as_ref().map_or(false, |m| m.contains_key("_kind"));
            bad |= g.rows.iter().any(|r| r.contains_key("_kind"));
            bad |= g.cols.iter().any(|c| c.meta.as_ref().map_or(false, |m| m.contains_key("_kind")));
        }
        _ => {}
    });
    bad
}

fn selftest_case(c: &Spelled, rec: &mut Rec) -> Verdict {
    let v = strip_meta_ver(&c.v, rec);
    let mut ch = Ch::new(&c.choices);
    let text = rh::write(&v, &mut ch);
    match rh::read(&text) {
        Ok(back) => match diff(&v, &back).diffs.first() {
            None => Verdict::Pass,
            Some(x) => Verdict::fail("infra:ref-selftest:diff", format!("{} at {}: {} (text {})", x.code, x.path, x.detail, trunc(&text, 300))),
        },
        Err(e) => Verdict::fail("infra:ref-selftest:reject", format!("reference reader rejects reference writer output {}: {e}", trunc(&text, 300))),
    }
}

/// Grids carry a format version (a public field; the Hayson decoder fills it from `meta.ver`). About a third of
/// the grids of a value get the older version "2.0" - decided by a hash of the grid itself, so the case stays a pure
/// function of the generated value. The Hayson mapping reserves `meta.ver` for it, which the reference reader strips.
fn vary_grid_versions(v: &mut Value) -> u32 {
    let mut n = 0;
    match v {
        Value::List(l) => {
            for x in l.iter_mut() {
                n += vary_grid_versions(x);
            }
        }
        Value::Dict(d) => {
            for (_, x) in d.iter_mut() {
                n += vary_grid_versions(x);
            }
        }
        Value::Grid(g) => {
            if key_of(&format!("{:?}{:?}", g.columns, g.rows.len())) % 3 == 0 {
                g.ver = "2.0".to_string();
                n += 1;
            }
            for r in g.rows.iter_mut() {
                for (_, x) in r.iter_mut() {
                    n += vary_grid_versions(x);
                }
            }
            if let Some(m) = g.meta.as_mut() {
                for (_, x) in m.iter_mut() {
                    n += vary_grid_versions(x);
                }
            }
        }
        _ => {}
    }
    n
}

/// Direction A: libhaystack's JSON is the Hayson representation of v.
fn check_a(v: &RVal, rec: &mut Rec) -> Verdict {
    let v = &strip_meta_ver(v, rec);
    if has_kind_tag(v) {
        return Verdict::Pass;
    }
    classify(v, rec);
    let mut hv = build(v);
    if vary_grid_versions(&mut hv) > 0 {
        rec.class("A:grid-with-format-version-2.0");
    }
    let text = match guarded(|| serde_json::to_string(&hv)) {
        Ok(Ok(t)) => t,
        Ok(Err(e)) => return Verdict::fail(format!("C05:A:encode-error:{}", shape(v)), e.to_string()),
        Err(p) => return Verdict::fail(format!("C05:A:encode-{}:{}", panic_sig(&p), shape(v)), p.msg),
    };
    if text.contains("\"_kind\"") {
        rec.nontrivial(key_of(&text));
    }
    rec.sample(|| format!("A: {}", trunc(&text, 200)));
    match rh::read(&text) {
        Ok(back) => diff_verdict("C05:A", v, &back, &text, rec),
        Err(e) => Verdict::fail(
            format!("C05:A:not-hayson:{}", shape(v)),
            format!("the reference Hayson reader rejects libhaystack's output {}: {e}", trunc(&text, 300)),
        ),
    }
}

/// Direction B: every Hayson document denoting v (member order, optional members, number spellings) decodes to v.
fn check_b(c: &Spelled, rec: &mut Rec) -> Verdict {
    let v = strip_meta_ver(&c.v, rec);
    if has_kind_tag(&v) {
        return Verdict::Pass;
    }
    classify(&v, rec);
    let mut ch = Ch::new(&c.choices);
    let text = rh::write(&v, &mut ch);
    if ch.nondefault > 0 && text.contains("\"_kind\"") {
        rec.nontrivial(key_of(&text));
        rec.class(&format!("nondefault-choices:{}", ch.nondefault.min(8)));
    }
    rec.sample(|| format!("B: {}", trunc(&text, 200)));
    if text.contains("\\u0") || text.contains("\\u2") || text.contains(" :") || text.contains("\n") {
        rec.class("B:json-level-spelling(escapes/blanks)");
    }
    let back = match guarded(|| serde_json::from_str::<Value>(&text)) {
        Ok(Ok(b)) => b,
        Ok(Err(e)) => {
            return Verdict::fail(
                format!("C05:B:decode-error:{}", shape(&v)),
                format!("Hayson decoder rejected {}: {e}", trunc(&text, 300)),
            )
        }
        Err(p) => return Verdict::fail(format!("C05:B:decode-{}:{}", panic_sig(&p), shape(&v)), format!("{} at {}", p.msg, p.location)),
    };
    let r = diff_verdict("C05:B", &v, &project(&back), &text, rec);
    if r.is_fail() {
        return r;
    }
    // the same document through the entry points that cannot lend strings (a reader, a serde_json::Value), and
    // through the decoder of the value's own type
    macro_rules! typed {
        ($T:ty, $wrap:expr) => {{
            let routes: [(&str, Box<dyn Fn() -> Result<$T, String>>); 3] = [
                ("typed-str", Box::new(|| serde_json::from_str::<$T>(&text).map_err(|e| e.to_string()))),
                ("typed-reader", Box::new(|| serde_json::from_reader::<_, $T>(std::io::Cursor::new(text.as_bytes())).map_err(|e| e.to_string()))),
                ("typed-value", Box::new(|| serde_json::from_str::<J>(&text).and_then(serde_json::from_value::<$T>).map_err(|e| e.to_string()))),
            ];
            for (route, f) in routes.iter() {
                match guarded(|| f()) {
                    Ok(Ok(x)) => {
                        let xv: Value = $wrap(x);
                        let r = diff_verdict(&format!("C05:B:{route}:{}", stringify!($T)), &v, &project(&xv), &text, rec);
                        if r.is_fail() {
                            return r;
                        }
                    }
                    Ok(Err(e)) => return Verdict::fail(format!("C05:B:{route}:{}:decode-error", stringify!($T)), format!("the {} decoder ({route}) rejects {}: {e}", stringify!($T), trunc(&text, 300))),
                    Err(p) => return Verdict::fail(format!("C05:B:{route}:{}:{}", stringify!($T), panic_sig(&p)), p.msg),
                }
            }
            rec.class("B:typed-decoders(str,reader,value)");
        }};
    }
    use libhaystack::val::*;
    match &v {
        RVal::Num(..) => typed!(Number, Value::Number),
        RVal::Ref(..) => typed!(Ref, Value::Ref),
        RVal::Uri(..) => typed!(Uri, Value::Uri),
        RVal::Symbol(..) => typed!(Symbol, Value::Symbol),
        RVal::Date(..) => typed!(Date, Value::Date),
        RVal::Time(..) => typed!(Time, Value::Time),
        RVal::DateTime(..) => typed!(DateTime, Value::DateTime),
        RVal::Coord(..) => typed!(Coord, Value::Coord),
        RVal::XStr(..) => typed!(XStr, Value::XStr),
        RVal::Dict(..) => typed!(Dict, Value::Dict),
        RVal::Grid(..) => typed!(Grid, Value::Grid),
        RVal::List(..) => typed!(List, Value::List),
        _ => {}
    }
    for (route, got) in [
        ("reader", guarded(|| serde_json::from_reader::<_, Value>(std::io::Cursor::new(text.as_bytes())).map_err(|e| e.to_string()))),
        ("value", guarded(|| serde_json::from_str::<J>(&text).and_then(serde_json::from_value::<Value>).map_err(|e| e.to_string()))),
    ] {
        match got {
            Ok(Ok(x)) => {
                let r = diff_verdict(&format!("C05:B:{route}"), &v, &project(&x), &text, rec);
                if r.is_fail() {
                    return r;
                }
            }
            Ok(Err(e)) => return Verdict::fail(format!("C05:B:{route}:decode-error"), format!("from_{route} rejects {}: {e}", trunc(&text, 300))),
            Err(p) => return Verdict::fail(format!("C05:B:{route}:{}", panic_sig(&p)), p.msg),
        }
    }
    Verdict::Pass
}

pub fn run(ctx: &mut Ctx) {
    ctx.rule("A: generated well-formed value -> serde_json::to_string -> independent strict Hayson reader (exact _kind strings and member names, own JSON parser) must read the same value. B: (value, choices) -> independent writer (member order permuted in every object, _kind:dict present/absent, grid meta absent/{}/with ver, column meta absent/{}, tz present/absent for UTC, unit by any identifier, unit-less number plain or as object, number spelled as integer/decimal/exponent) -> libhaystack decoder must read the same value - through from_str, from_reader and from_value, and through the typed decoder of the value's own kind by the same three routes. non-trivial: document has a _kind object (and for B a non-default choice); distinct by JSON text");
    ctx.assume("reference implements DESIGN.md appendix B; a dict tag named _kind and a grid meta tag named ver are outside the model of this encoding");
    let depth = ctx.tier.pick(3, 4) as u32;
    let before = ctx.violations.len();
    // one case in thirty is a non-finite Number with a unit (Hayson can spell it, Zinc cannot, so `wf` leaves it out)
    let val = move || prop_oneof![29 => top_value(GenCfg::wf(depth)), 1 => crate::gen::value::nonfinite_with_unit()].boxed();
    let sp = move || bx((val(), choices()).prop_map(|(v, choices)| Spelled { v, choices }));
    ctx.run_sub::<Spelled>("ref-selftest", ctx.tier.pick(16_000, 160_000), &sp, &selftest_case);
    if ctx.violations.len() > before {
        let v = ctx.violations.split_off(before);
        for x in v {
            ctx.inconclusive.push(format!("{}: {}", x.sig, x.msg));
        }
        return;
    }
    ctx.run_sub::<RVal>("hayson-A", ctx.tier.pick(48_000, 960_000), &val, &check_a);
    ctx.run_sub::<Spelled>("hayson-B", ctx.tier.pick(48_000, 960_000), &sp, &check_b);
}

pub fn replay(kind: &str, case: &J, rec: &mut Rec) -> Verdict {
    match kind {
        "hayson-A" => RVal::from_json(case).map(|v| check_a(&v, rec)).unwrap_or_else(|e| Verdict::fail("infra:bad-replay", e)),
        "hayson-B" => Spelled::from_json(case).map(|v| check_b(&v, rec)).unwrap_or_else(|e| Verdict::fail("infra:bad-replay", e)),
        "ref-selftest" => Spelled::from_json(case).map(|v| selftest_case(&v, rec)).unwrap_or_else(|e| Verdict::fail("infra:bad-replay", e)),
        _ => Verdict::fail("infra:unknown-kind", kind),
    }
}
