//! C04 — Zinc text conforms to the Project Haystack grammar in both directions
//! (exchange with an independent implementation written from the specification).

use super::common::*;
use crate::gen::value::{top_value, GenCfg};
use crate::refimpl::zinc as rz;
use crate::refimpl::units;
use crate::runner::{bx, key_of, Case, Ctx, Rec, Verdict};
use crate::rval::*;
use proptest::prelude::*;
use serde_json::{json, Value as J};

#[derive(Clone, Debug)]
pub struct Spelled {
    pub v: RVal,
    pub choices: Vec<u8>,
}

impl Case for Spelled {
    fn to_json(&self) -> J {
        json!({"v": to_json(&self.v), "choices": self.choices})
    }
    fn from_json(j: &J) -> Result<Self, String> {
        Ok(Spelled {
            v: from_json(&j["v"])?,
            choices: j["choices"].as_array().map(|a| a.iter().map(|x| x.as_u64().unwrap_or(0) as u8).collect()).unwrap_or_default(),
        })
    }
}

pub fn choices() -> BoxedStrategy<Vec<u8>> {
    bx(prop::collection::vec(prop_oneof![3 => Just(0u8), 2 => any::<u8>()], 0..96))
}

pub fn spelled(depth: u32) -> BoxedStrategy<Spelled> {
    bx((top_value(GenCfg::wf(depth)), choices()).prop_map(|(v, choices)| Spelled { v, choices }))
}

/// Units none of whose identifiers can be written as a Zinc number suffix are outside what the
/// reference writer can spell; such numbers lose their unit here (counted).
pub fn spellable(v: &RVal, rec: &mut Rec) -> RVal {
    let mut v = v.clone();
    let mut n = 0;
    v.walk_mut(&mut |x| {
        if let RVal::Num(_, u) = x {
            if let Some(ids) = u {
                if !ids.iter().any(|i| units::zinc_spellable(i)) {
                    *u = None;
                    n += 1;
                }
            }
        }
    });
    for _ in 0..n {
        rec.excluded("unit-without-zinc-spellable-id");
    }
    v
}

/// Oracle self-test: reference writer -> reference reader is the identity.
pub fn selftest_case(c: &Spelled, rec: &mut Rec) -> Verdict {
    let v = spellable(&c.v, rec);
    let mut ch = rz::Ch::new(&c.choices);
    let text = rz::write(&v, &mut ch);
    match rz::read(&text) {
        Ok(back) => {
            let d = diff(&v, &back);
            match d.diffs.first() {
                None => Verdict::Pass,
                Some(x) => Verdict::fail("infra:ref-selftest:diff", format!("{} at {}: {} (text {:?})", x.code, x.path, x.detail, trunc(&text, 300))),
            }
        }
        Err(e) => Verdict::fail("infra:ref-selftest:reject", format!("reference reader rejects reference writer output {:?}: {e}", trunc(&text, 300))),
    }
}

/// Direction A: libhaystack's text is a sentence of the grammar that denotes v.
pub fn check_a(v: &RVal, rec: &mut Rec) -> Verdict {
    classify(v, rec);
    let hv = build(v);
    let text = match zinc_encode(&hv) {
        Ok(t) => t,
        Err(f) => return prefix_sig("C04:A", f, &shape(v)),
    };
    if !v.is_singleton() {
        rec.nontrivial(key_of(&text));
    }
    rec.sample(|| format!("A: {:?}", trunc(&text, 200)));
    // what goes over the wire is what a slow writer (a socket, a pipe) ends up holding
    {
        let r = zinc_encode_short_writes(&hv, &text);
        if r.is_fail() {
            return prefix_sig("C04:A", r, &shape(v));
        }
    }
    match rz::read(&text) {
        Ok(back) => diff_verdict_strict_zero("C04:A", v, &back, &text, rec),
        Err(e) => Verdict::fail(
            format!("C04:A:not-a-sentence:{}", shape(v)),
            format!("the reference reader (grammar) rejects libhaystack's output {:?}: {e}", trunc(&text, 300)),
        ),
    }
}

/// Direction B: every legal spelling is decoded to the value it denotes.
pub fn check_b(c: &Spelled, rec: &mut Rec) -> Verdict {
    let v = spellable(&c.v, rec);
    classify(&v, rec);
    let mut ch = rz::Ch::new(&c.choices);
    let text = rz::write(&v, &mut ch);
    if ch.nondefault > 0 {
        rec.nontrivial(key_of(&text));
        rec.class(&format!("nondefault-choices:{}", ch.nondefault.min(8)));
    }
    if text.contains("\r\n") {
        rec.class("spelling:crlf");
    }
    if text.contains('_') {
        rec.class("spelling:maybe-underscore");
    }
    rec.sample(|| format!("B: {:?}", trunc(&text, 200)));
    let back = match zinc_decode(&text) {
        Ok(b) => b,
        Err(f) => return prefix_sig("C04:B", f, &shape(&v)),
    };
    let r = diff_verdict_strict_zero("C04:B", &v, &project(&back), &text, rec);
    if r.is_fail() {
        return r;
    }
    // the other implementation's text usually arrives over a socket: the same sentence through a reader in pieces
    match zinc_decode_in_pieces(&text) {
        Ok(b2) => diff_verdict_strict_zero("C04:B:reader", &v, &project(&b2), &text, rec),
        Err(f) => prefix_sig("C04:B", f, &shape(&v)),
    }
}

/// Wide documents: hundreds of sibling values in one list, or one grid with hundreds of rows, the siblings being
/// small collections - empty and one-row nested grids, empty lists and dicts, scalars.
fn wide_spelled() -> BoxedStrategy<Spelled> {
    let small = || {
        let grid = |rows: Vec<RDict>| RVal::Grid(RGrid { meta: None, cols: vec![RCol { name: "a".into(), meta: None }], rows });
        prop_oneof![
            4 => Just(grid(vec![])),
            2 => Just(grid(vec![[("a".to_string(), RVal::num(1.0))].into_iter().collect()])),
            1 => Just(RVal::List(vec![])),
            1 => Just(RVal::Dict(RDict::new())),
            1 => Just(RVal::List(vec![grid(vec![])])),
            1 => (0i32..100).prop_map(|i| RVal::num(i as f64)),
            1 => Just(RVal::Marker),
        ]
    };
    let items = prop_oneof![
        3 => prop::collection::vec(small(), 200..420),
        // several hundred of one sort (what leaks or accumulates per item shows once the count passes a limit)
        1 => (260usize..700, small()).prop_map(|(n, x)| vec![x; n]),
    ];
    bx((items, any::<bool>(), choices()).prop_map(|(items, as_grid, choices)| {
        let v = if as_grid {
            RVal::Grid(RGrid {
                meta: None,
                cols: vec![RCol { name: "k".into(), meta: None }, RCol { name: "v".into(), meta: None }],
                rows: items.into_iter().enumerate().map(|(i, x)| [("k".to_string(), RVal::num(i as f64)), ("v".to_string(), x)].into_iter().collect()).collect(),
            })
        } else {
            RVal::List(items)
        };
        Spelled { v, choices }
    }))
}

pub fn run(ctx: &mut Ctx) {
    ctx.rule("A: generated well-formed value -> libhaystack Zinc text -> independent strict grammar reader must accept it and read the same value. B: generated (value, spelling choices) -> independent writer (whitespace, LF/CRLF, string/uri escapes, number spellings with sign/fraction/exponent/'_'/long mantissas, trailing comma, dict separators, marker ':M', grid layout, N vs empty cell, Z vs Z UTC, any unit id) -> libhaystack decoder must read the same value, from a string and from a reader that delivers the text in pieces; also for wide documents (200-700 sibling small collections - empty and one-row nested grids, empty lists / dicts - in one list or as the cells of one grid). non-trivial: A not a singleton kind, B at least one non-default spelling choice; distinct by text");
    ctx.assume("the reference writer/reader implement DESIGN.md appendix A; spellings the specification leaves open are never written; number denotation = Rust's correctly rounded str::parse::<f64>; unit identifiers from unit-gen/units.txt");
    let depth = ctx.tier.pick(3, 4) as u32;
    // oracle self-test first: failure is an infrastructure problem, not a finding
    let before = ctx.violations.len();
    ctx.run_sub::<Spelled>("ref-selftest", ctx.tier.pick(16_000, 160_000), &move || spelled(depth), &selftest_case);
    if ctx.violations.len() > before {
        let v = ctx.violations.split_off(before);
        for x in v {
            ctx.inconclusive.push(format!("{}: {}", x.sig, x.msg));
        }
        return;
    }
    ctx.run_sub::<RVal>("zinc-A", ctx.tier.pick(48_000, 960_000), &move || top_value(GenCfg::wf(depth)), &check_a);
    ctx.run_sub::<Spelled>("zinc-B", ctx.tier.pick(48_000, 960_000), &move || spelled(depth), &check_b);
    ctx.run_sub::<Spelled>("zinc-B-wide", ctx.tier.pick(480, 9_600), &wide_spelled, &check_b);
}

pub fn replay(kind: &str, case: &J, rec: &mut Rec) -> Verdict {
    match kind {
        "zinc-A" => RVal::from_json(case).map(|v| check_a(&v, rec)).unwrap_or_else(|e| Verdict::fail("infra:bad-replay", e)),
        "zinc-B" | "zinc-B-wide" => Spelled::from_json(case).map(|v| check_b(&v, rec)).unwrap_or_else(|e| Verdict::fail("infra:bad-replay", e)),
        "ref-selftest" => Spelled::from_json(case).map(|v| selftest_case(&v, rec)).unwrap_or_else(|e| Verdict::fail("infra:bad-replay", e)),
        _ => Verdict::fail("infra:unknown-kind", kind),
    }
}
