//! Taxonomy generator, subtype-graph model and query vocabulary shared by C13 and C14.

use crate::gen::value::symbol_name;
use crate::runner::idx;
use crate::rval::*;
use libhaystack::defs::namespace::Namespace;
use libhaystack::filter::eval::EvalContext;
use libhaystack::filter::nodes::IsA;
use libhaystack::filter::Eval;
use libhaystack::val::{Dict, Grid, HaystackDict, Symbol, Value};
use proptest::prelude::*;
use serde_json::{json, Value as J};
use std::collections::{BTreeMap, BTreeSet};

#[derive(Clone, Debug)]
pub struct DefSpec {
    pub name: String,
    /// entries of the `is` list: symbols (defined or not) and non-symbol junk
    pub is: Vec<RVal>,
    pub has_is: bool,
    pub extra: RDict,
}

#[derive(Clone, Debug)]
pub struct Taxonomy {
    pub defs: Vec<DefSpec>,
    /// rows without a `def` symbol (ignored by the namespace)
    pub junk_rows: usize,
}

impl Taxonomy {
    pub fn to_json(&self) -> J {
        json!({"defs": self.defs.iter().map(|d| json!({"name": d.name, "is": d.is.iter().map(to_json).collect::<Vec<_>>(), "has_is": d.has_is, "extra": to_json(&RVal::Dict(d.extra.clone()))})).collect::<Vec<_>>(), "junk_rows": self.junk_rows})
    }
    pub fn from_json(j: &J) -> Result<Taxonomy, String> {
        let mut defs = vec![];
        for d in j["defs"].as_array().ok_or("defs")? {
            defs.push(DefSpec {
                name: d["name"].as_str().ok_or("name")?.to_string(),
                is: d["is"].as_array().ok_or("is")?.iter().map(from_json).collect::<Result<_, _>>()?,
                has_is: d["has_is"].as_bool().unwrap_or(true),
                extra: match from_json(&d["extra"])? {
                    RVal::Dict(x) => x,
                    _ => RDict::new(),
                },
            });
        }
        Ok(Taxonomy {
            defs,
            junk_rows: j["junk_rows"].as_u64().unwrap_or(0) as usize,
        })
    }

    pub fn grid(&self) -> Grid {
        let mut rows: Vec<Dict> = vec![];
        for d in &self.defs {
            let mut r = d.extra.clone();
            r.insert("def".into(), RVal::Symbol(d.name.clone()));
            if d.has_is {
                r.insert("is".into(), RVal::List(d.is.clone()));
            }
            rows.push(build_dict(&r));
        }
        for i in 0..self.junk_rows {
            let mut r = RDict::new();
            r.insert("dis".into(), RVal::Str(format!("not a def {i}")));
            if i % 2 == 0 {
                r.insert("def".into(), RVal::Str("stringNotSymbol".into()));
            }
            rows.push(build_dict(&r));
        }
        Grid::make_from_dicts(rows)
    }

    // ----- the model: adjacency sets + closures --------------------------------------------

    /// last definition wins (the namespace collects rows into a map keyed by the def symbol)
    pub fn table(&self) -> BTreeMap<&str, &DefSpec> {
        let mut m = BTreeMap::new();
        for d in &self.defs {
            m.insert(d.name.as_str(), d);
        }
        m
    }
    pub fn defined(&self, s: &str) -> bool {
        self.defs.iter().any(|d| d.name == s)
    }
    fn is_symbols<'a>(d: &'a DefSpec) -> impl Iterator<Item = &'a str> {
        d.is.iter().filter(move |_| d.has_is).filter_map(|v| if let RVal::Symbol(s) = v { Some(s.as_str()) } else { None })
    }
    pub fn supertypes(&self, s: &str) -> BTreeSet<String> {
        let t = self.table();
        match t.get(s) {
            None => BTreeSet::new(),
            Some(d) => Self::is_symbols(d).filter(|x| t.contains_key(x)).map(String::from).collect(),
        }
    }
    /// does the `is` list of `s` name one defined def twice (then supertypes_of lists it twice as well)
    pub fn supertypes_repeat(&self, s: &str) -> bool {
        let t = self.table();
        match t.get(s) {
            None => false,
            Some(d) => {
                let v: Vec<&str> = Self::is_symbols(d).filter(|x| t.contains_key(*x)).collect();
                v.iter().collect::<BTreeSet<_>>().len() != v.len()
            }
        }
    }
    /// does some def name `s` twice in its `is` list
    pub fn subtypes_repeat(&self, s: &str) -> bool {
        self.table().values().any(|d| Self::is_symbols(d).filter(|x| *x == s).count() > 1)
    }
    pub fn all_supertypes(&self, s: &str) -> BTreeSet<String> {
        let mut out = BTreeSet::new();
        let mut stack: Vec<String> = self.supertypes(s).into_iter().collect();
        while let Some(x) = stack.pop() {
            if out.insert(x.clone()) {
                stack.extend(self.supertypes(&x));
            }
        }
        out
    }
    pub fn inheritance(&self, s: &str) -> BTreeSet<String> {
        if !self.defined(s) {
            return BTreeSet::new();
        }
        let mut out = self.all_supertypes(s);
        out.insert(s.to_string());
        out
    }
    pub fn subtypes(&self, s: &str) -> BTreeSet<String> {
        self.table().values().filter(|d| Self::is_symbols(d).any(|x| x == s)).map(|d| d.name.clone()).collect()
    }
    pub fn all_subtypes(&self, s: &str) -> BTreeSet<String> {
        let mut out = BTreeSet::new();
        let mut stack: Vec<String> = self.subtypes(s).into_iter().collect();
        while let Some(x) = stack.pop() {
            if out.insert(x.clone()) {
                stack.extend(self.subtypes(&x));
            }
        }
        out
    }
    pub fn fits(&self, a: &str, b: &str) -> bool {
        self.defined(a) && self.defined(b) && self.inheritance(a).contains(b)
    }
    pub fn choices_for(&self, s: &str) -> BTreeSet<String> {
        match self.table().get(s) {
            Some(d) if Self::is_symbols(d).any(|x| x == "choice") => self.subtypes(s),
            _ => BTreeSet::new(),
        }
    }
    pub fn conjunct_parts(&self, s: &str) -> BTreeSet<String> {
        s.split('-').filter(|p| self.defined(p)).map(String::from).collect()
    }
    /// defs of the record's tags, of every conjunct whose parts are all marker tags, and all their supertypes
    pub fn reflect(&self, rec: &RDict) -> BTreeSet<String> {
        let mut base: BTreeSet<String> = rec.keys().filter(|k| self.defined(k)).cloned().collect();
        let markers: BTreeSet<&str> = rec.iter().filter(|(k, v)| matches!(v, RVal::Marker) && self.defined(k)).map(|(k, _)| k.as_str()).collect();
        for d in self.table().values() {
            if d.name.contains('-') {
                let parts: Vec<&str> = d.name.split('-').collect();
                if parts.iter().all(|p| markers.contains(p)) {
                    base.insert(d.name.clone());
                }
            }
        }
        let mut out = base.clone();
        for b in &base {
            out.extend(self.all_supertypes(b));
        }
        out
    }
    pub fn reflect_fits(&self, rec: &RDict, sym: &str) -> bool {
        self.defined(sym) && self.reflect(rec).iter().any(|d| self.fits(d, sym))
    }
    pub fn nontrivial(&self) -> bool {
        let t = self.table();
        let undefined_super = t.values().any(|d| Self::is_symbols(d).any(|x| !t.contains_key(x)));
        let conjunct = t.keys().any(|k| k.contains('-'));
        // diamond: some def reaches one ancestor along two different direct supertypes
        let diamond = t.keys().any(|k| {
            let sup: Vec<String> = self.supertypes(k).into_iter().collect();
            sup.len() >= 2 && (0..sup.len()).any(|i| (i + 1..sup.len()).any(|j| !self.inheritance(&sup[i]).is_disjoint(&self.inheritance(&sup[j]))))
        });
        undefined_super || conjunct || diamond
    }
    pub fn names(&self) -> Vec<String> {
        let mut n: Vec<String> = self.table().keys().map(|s| s.to_string()).collect();
        n.extend(["undefinedThing".to_string(), "marker".to_string(), "choice".to_string(), "x-y".to_string()]);
        // the names that `is` lists mention without a row of their own (questions about them are questions too)
        n.extend((0..5).map(|k| format!("undefined{k}")));
        // names that are *not* defs but are made of defs: a conjunct of two defined names, a feature key of two, a
        // defined name with an undefined part (only the def table says what exists)
        let plain: Vec<String> = n.iter().filter(|x| !x.contains('-') && !x.contains(':') && self.defined(x)).cloned().collect();
        for w in plain.windows(2).take(4) {
            for glue in ["-", ":"] {
                let made = format!("{}{glue}{}", w[0], w[1]);
                if !self.defined(&made) {
                    n.push(made);
                }
            }
        }
        if let Some(p) = plain.first() {
            n.push(format!("{p}-undefinedThing"));
        }
        n.sort();
        n.dedup();
        n
    }
}

// ---------------------------------------------------------------------------------------------
// generator: acyclic by construction (edges only to lower-numbered defs)

pub fn taxonomy(max_defs: usize) -> BoxedStrategy<Taxonomy> {
    let spec = (
        prop::collection::vec((any::<u16>(), 0u8..12), 0..5),
        any::<u8>(),
        prop::option::of(symbol_name()),
    );
    // one taxonomy in twelve also carries a long single chain (60-140 levels below `entity`): depth well beyond
    // anything the shipped defs have, queried like every other def
    let chain = prop_oneof![11 => Just(0usize), 1 => 60usize..140];
    (prop::collection::vec(spec, 3..=max_defs), 0usize..3, chain)
        .prop_map(|(specs, junk_rows, chain)| {
            let mut defs: Vec<DefSpec> = vec![];
            // roots every taxonomy may refer to
            defs.push(DefSpec { name: "marker".into(), is: vec![], has_is: false, extra: RDict::new() });
            defs.push(DefSpec { name: "choice".into(), is: vec![RVal::Symbol("marker".into())], has_is: true, extra: RDict::new() });
            defs.push(DefSpec { name: "entity".into(), is: vec![RVal::Symbol("marker".into())], has_is: true, extra: RDict::new() });
            // the fourth kind root of the real defs; present in two taxonomies of three (when absent, defs may still name it)
            if specs.len() % 3 != 0 {
                defs.push(DefSpec { name: "val".into(), is: vec![], has_is: false, extra: RDict::new() });
            }
            for (i, (edges, flavour, custom)) in specs.into_iter().enumerate() {
                let plain: Vec<String> = defs.iter().filter(|d| !d.name.contains('-') && !d.name.contains(':')).map(|d| d.name.clone()).collect();
                let mut name = match (&custom, flavour % 8) {
                    (Some(c), 0) if !defs.iter().any(|d| &d.name == c) && !c.contains('-') && !c.contains(':') => c.clone(),
                    _ => format!("d{i}"),
                };
                // a second row for a def that exists already (the last row of a name is the definition): its supertypes
                // are taken from the defs *before the first row of that name*, so the table stays acyclic
                // (never one of the kind roots: the fixed edges to `choice` / `entity` / `val` would close a cycle)
                let redefine: Option<usize> = if flavour % 8 == 5 && defs.len() > 5 { Some(4 + idx(edges.first().map_or(0, |e| e.0), defs.len() - 4)) } else { None };
                let redefine = redefine.filter(|j| !["marker", "choice", "entity", "val"].contains(&defs[*j].name.as_str()));
                let first_row_of = |n: &str| defs.iter().position(|d| d.name == n).unwrap_or(0);
                let limit = redefine.map_or(defs.len(), |j| first_row_of(&defs[j].name).max(1));
                let mut is: Vec<RVal> = vec![];
                for (e, kind) in &edges {
                    match kind {
                        0 => is.push(RVal::Symbol(format!("undefined{}", e % 5))),
                        1 => is.push(RVal::Str("junk".into())),
                        2 => is.push(RVal::num(*e as f64)),
                        3 => is.push(RVal::Symbol("choice".into())),
                        4 => is.push(RVal::Symbol(if e % 3 == 0 { "val" } else { "entity" }.into())),
                        _ => is.push(RVal::Symbol(defs[idx(*e, limit)].name.clone())),
                    }
                }
                let mut extra = RDict::new();
                match flavour % 8 {
                    1 if plain.len() >= 2 => {
                        // conjunct of two (or three) defined markers
                        let a = &plain[idx(edges.first().map_or(0, |e| e.0), plain.len())];
                        let b = &plain[idx(edges.get(1).map_or(7777, |e| e.0), plain.len())];
                        let mut parts = vec![a.clone(), b.clone()];
                        if flavour > 200 {
                            parts.push(plain[idx(edges.get(2).map_or(33333, |e| e.0), plain.len())].clone());
                        }
                        if flavour % 16 != 9 {
                            parts.dedup(); // (one conjunct in a while keeps a repeated part: `a-a`, `a-a-b`)
                        }
                        if parts.len() >= 2 {
                            let n = parts.join("-");
                            if !defs.iter().any(|d| d.name == n) {
                                name = n;
                            }
                        }
                    }
                    2 => {
                        let n = format!("lib:x{i}");
                        name = n;
                    }
                    3 => {
                        // def rows carry other tags besides `def` and `is` (the real defs: doc, lib, mandatory, deprecated, ...):
                        // none of them changes what exists or what is a subtype of what
                        const TAGS: &[&str] = &["mandatory", "deprecated", "notInherited", "transitive", "computed", "nodoc", "sealed", "abstract", "doc", "lib", "wikipedia", "children", "tagOn", "of"];
                        for (k, e) in edges.iter().enumerate().take(3) {
                            let t = TAGS[idx(e.0.wrapping_add(k as u16 * 977), TAGS.len())];
                            let v = if k == 1 && e.1 % 3 == 0 { RVal::Str("text".into()) } else { RVal::Marker };
                            extra.insert(t.into(), v);
                        }
                        if extra.is_empty() {
                            extra.insert("mandatory".into(), RVal::Marker);
                        }
                    }
                    4 => {
                        // names over a tiny alphabet joined by ':' (feature-key style): `k:l` + `m` and `k` + `l:m` read alike when glued
                        const POOL: &[&str] = &["k", "l", "m", "k:l", "l:m", "k:l:m", "l:k", "m:l", "k:m", "m:k:l"];
                        name = POOL[idx(edges.first().map_or(flavour as u16 * 257, |e| e.0), POOL.len())].to_string();
                    }
                    _ => {}
                }
                if let Some(j) = redefine {
                    let name = defs[j].name.clone();
                    defs.push(DefSpec { name, is, has_is: true, extra });
                    continue;
                }
                let has_is = flavour != 255;
                // names are unique: a second def of the same name would replace the first and could close a cycle
                while defs.iter().any(|d| d.name == name) {
                    name.push('x');
                }
                defs.push(DefSpec { name, is, has_is, extra });
            }
            for k in 0..chain {
                let parent = if k == 0 { "entity".to_string() } else { format!("ch{}", k - 1) };
                let mut is = vec![RVal::Symbol(parent)];
                if k % 17 == 5 {
                    is.push(RVal::Symbol("marker".into()));
                }
                defs.push(DefSpec { name: format!("ch{k}"), is, has_is: true, extra: RDict::new() });
            }
            Taxonomy { defs, junk_rows }
        })
        .boxed()
}

pub fn record_over(names: Vec<String>) -> BoxedStrategy<RDict> {
    let n = names.len();
    prop::collection::vec((0..n.max(1), 0u8..6), 0..7)
        .prop_map(move |items| {
            let mut r = RDict::new();
            for (i, k) in items {
                let name = names.get(i).cloned().unwrap_or_else(|| "a".into());
                // conjunct names and feature keys are not tag names
                if name.contains('-') || name.contains(':') {
                    continue;
                }
                let v = match k {
                    0 | 1 | 2 => RVal::Marker,
                    3 => RVal::Str("x".into()),
                    4 => RVal::num(1.0),
                    _ => RVal::Ref("r1".into(), None),
                };
                r.insert(name, v);
            }
            r
        })
        .boxed()
}

// ---------------------------------------------------------------------------------------------
// queries

#[derive(Clone, Debug, PartialEq)]
pub enum Query {
    Get(String),
    Subtypes(String),
    AllSubtypes(String),
    Supertypes(String),
    AllSupertypes(String),
    Inheritance(String),
    Fits(String, String),
    ChoicesFor(String),
    ConjunctsDefs(String),
    Reflect(RDict),
    ReflectFits(RDict, String),
    FilterIsA(RDict, String),
    /// the four convenience accessors fits_marker / fits_val / fits_choice / fits_entity (first field 0..4)
    FitsKind(u8, String),
}

pub const KIND_ROOTS: [&str; 4] = ["marker", "val", "choice", "entity"];
pub const QUERY_KINDS: usize = 13;

impl Query {
    pub fn make(kind: u8, a: &str, b: &str, rec: &RDict) -> Query {
        match kind as usize % QUERY_KINDS {
            0 => Query::Get(a.into()),
            1 => Query::Subtypes(a.into()),
            2 => Query::AllSubtypes(a.into()),
            3 => Query::Supertypes(a.into()),
            4 => Query::AllSupertypes(a.into()),
            5 => Query::Inheritance(a.into()),
            6 => Query::Fits(a.into(), b.into()),
            7 => Query::ChoicesFor(a.into()),
            8 => Query::ConjunctsDefs(a.into()),
            9 => Query::Reflect(rec.clone()),
            10 => Query::ReflectFits(rec.clone(), a.into()),
            11 => Query::FilterIsA(rec.clone(), a.into()),
            _ => Query::FitsKind((b.len() % 4) as u8, a.into()),
        }
    }
    pub fn label(&self) -> &'static str {
        match self {
            Query::Get(_) => "get",
            Query::Subtypes(_) => "subtypes_of",
            Query::AllSubtypes(_) => "all_subtypes_of",
            Query::Supertypes(_) => "supertypes_of",
            Query::AllSupertypes(_) => "all_supertypes_of",
            Query::Inheritance(_) => "inheritance",
            Query::Fits(..) => "fits",
            Query::ChoicesFor(_) => "choices_for",
            Query::ConjunctsDefs(_) => "conjuncts_defs",
            Query::Reflect(_) => "reflect",
            Query::ReflectFits(..) => "reflection.fits",
            Query::FilterIsA(..) => "filter ^symbol",
            Query::FitsKind(..) => "fits_<kind>",
        }
    }
    pub fn to_json(&self) -> J {
        match self {
            Query::Fits(a, b) => json!({"q": self.label(), "a": a, "b": b}),
            Query::FitsKind(k, a) => json!({"q": self.label(), "a": a, "kind": k}),
            Query::Reflect(r) => json!({"q": self.label(), "rec": to_json(&RVal::Dict(r.clone()))}),
            Query::ReflectFits(r, a) | Query::FilterIsA(r, a) => json!({"q": self.label(), "a": a, "rec": to_json(&RVal::Dict(r.clone()))}),
            Query::Get(a) | Query::Subtypes(a) | Query::AllSubtypes(a) | Query::Supertypes(a) | Query::AllSupertypes(a) | Query::Inheritance(a) | Query::ChoicesFor(a) | Query::ConjunctsDefs(a) => json!({"q": self.label(), "a": a}),
        }
    }
    pub fn from_json(j: &J) -> Result<Query, String> {
        let a = j["a"].as_str().unwrap_or("").to_string();
        let rec = || match from_json(&j["rec"]) {
            Ok(RVal::Dict(d)) => d,
            _ => RDict::new(),
        };
        Ok(match j["q"].as_str().unwrap_or("") {
            "get" => Query::Get(a),
            "subtypes_of" => Query::Subtypes(a),
            "all_subtypes_of" => Query::AllSubtypes(a),
            "supertypes_of" => Query::Supertypes(a),
            "all_supertypes_of" => Query::AllSupertypes(a),
            "inheritance" => Query::Inheritance(a),
            "fits" => Query::Fits(a, j["b"].as_str().unwrap_or("").to_string()),
            "choices_for" => Query::ChoicesFor(a),
            "conjuncts_defs" => Query::ConjunctsDefs(a),
            "reflect" => Query::Reflect(rec()),
            "reflection.fits" => Query::ReflectFits(rec(), a),
            "filter ^symbol" => Query::FilterIsA(rec(), a),
            "fits_<kind>" => Query::FitsKind(j["kind"].as_u64().unwrap_or(0) as u8, a),
            other => return Err(format!("unknown query {other}")),
        })
    }
}

/// An answer: a set of def names (with a flag for duplicates in the returned list) or a truth value.
#[derive(Clone, Debug, PartialEq)]
pub enum Answer {
    Set(BTreeSet<String>, bool),
    Bool(bool),
}

fn names_of<'x>(defs: impl Iterator<Item = &'x Dict>) -> (BTreeSet<String>, bool) {
    let mut set = BTreeSet::new();
    let mut dup = false;
    for d in defs {
        let n = d.get_symbol("def").map(|s| s.value.clone()).unwrap_or_default();
        if !set.insert(n) {
            dup = true;
        }
    }
    (set, dup)
}

pub fn ask_lib(ns: &'static Namespace<'static>, q: &Query) -> Answer {
    let sym = |s: &str| Symbol::from(s);
    match q {
        Query::Get(a) => Answer::Bool(ns.get(&sym(a)).is_some() && ns.has(&sym(a)) && ns.has_name(a) && ns.get_by_name(a).is_some()),
        Query::Subtypes(a) => {
            let (s, d) = names_of(ns.subtypes_of(&sym(a)).iter());
            Answer::Set(s, d)
        }
        Query::AllSubtypes(a) => {
            let v = ns.all_subtypes_of(&sym(a));
            let (s, d) = names_of(v.into_iter());
            Answer::Set(s, d)
        }
        Query::Supertypes(a) => {
            let g = ns.supertypes_of(&sym(a));
            let (s, d) = names_of(g.iter().copied());
            Answer::Set(s, d)
        }
        Query::AllSupertypes(a) => {
            let v = ns.all_supertypes_of(&sym(a));
            let (s, d) = names_of(v.into_iter());
            Answer::Set(s, d)
        }
        Query::Inheritance(a) => {
            let g = ns.inheritance(&sym(a));
            let (s, d) = names_of(g.iter().copied());
            Answer::Set(s, d)
        }
        Query::Fits(a, b) => Answer::Bool(ns.fits(&sym(a), &sym(b))),
        Query::FitsKind(k, a) => Answer::Bool(match k % 4 {
            0 => ns.fits_marker(&sym(a)),
            1 => ns.fits_val(&sym(a)),
            2 => ns.fits_choice(&sym(a)),
            _ => ns.fits_entity(&sym(a)),
        }),
        Query::ChoicesFor(a) => {
            let (s, _) = names_of(ns.choices_for(&sym(a)).iter());
            Answer::Set(s, false)
        }
        Query::ConjunctsDefs(a) => {
            let (s, _) = names_of(ns.conjuncts_defs(&sym(a)).into_iter());
            Answer::Set(s, false)
        }
        Query::Reflect(r) => {
            let d = build_dict(r);
            let refl = ns.reflect(&d);
            let (s, dup) = names_of(refl.defs.iter().copied());
            Answer::Set(s, dup)
        }
        Query::ReflectFits(r, a) => {
            let d = build_dict(r);
            Answer::Bool(ns.reflect(&d).fits(&sym(a)))
        }
        Query::FilterIsA(r, a) => {
            let d = build_dict(r);
            let ctx = EvalContext::make(&d, ns, &d);
            Answer::Bool(IsA { symbol: sym(a) }.eval(&ctx))
        }
    }
}

pub fn ask_model(t: &Taxonomy, q: &Query) -> Answer {
    match q {
        Query::Get(a) => Answer::Bool(t.defined(a)),
        // the flag of a model answer = "a repeated entry is expected" (the def list itself repeats a name)
        Query::Subtypes(a) => Answer::Set(t.subtypes(a), t.subtypes_repeat(a)),
        Query::AllSubtypes(a) => Answer::Set(t.all_subtypes(a), false),
        Query::Supertypes(a) => Answer::Set(t.supertypes(a), t.supertypes_repeat(a)),
        Query::AllSupertypes(a) => Answer::Set(t.all_supertypes(a), false),
        Query::Inheritance(a) => Answer::Set(t.inheritance(a), false),
        Query::Fits(a, b) => Answer::Bool(t.fits(a, b)),
        Query::FitsKind(k, a) => Answer::Bool(t.fits(a, KIND_ROOTS[*k as usize % 4])),
        Query::ChoicesFor(a) => Answer::Set(t.choices_for(a), false),
        Query::ConjunctsDefs(a) => Answer::Set(t.conjunct_parts(a), false),
        Query::Reflect(r) => Answer::Set(t.reflect(r), false),
        Query::ReflectFits(r, a) | Query::FilterIsA(r, a) => Answer::Bool(t.reflect_fits(r, a)),
    }
}

/// Own a namespace for as long as the harness needs `&'static` access, then free it.
pub struct OwnedNs(*mut Namespace<'static>);
unsafe impl Send for OwnedNs {}
unsafe impl Sync for OwnedNs {}
impl OwnedNs {
    pub fn make(grid: Grid) -> OwnedNs {
        OwnedNs(Box::into_raw(Box::new(Namespace::make(grid))))
    }
    pub fn get(&self) -> &'static Namespace<'static> {
        unsafe { &*self.0 }
    }
}
impl Drop for OwnedNs {
    fn drop(&mut self) {
        unsafe {
            drop(Box::from_raw(self.0));
        }
    }
}

/// The taxonomy of a decoded defs grid (for the real Project Haystack defs).
pub fn taxonomy_of_grid(g: &Value) -> Taxonomy {
    let mut defs = vec![];
    if let RVal::Grid(g) = project(g) {
        for row in g.rows {
            if let Some(RVal::Symbol(name)) = row.get("def") {
                let (is, has_is) = match row.get("is") {
                    Some(RVal::List(l)) => (l.clone(), true),
                    _ => (vec![], false),
                };
                defs.push(DefSpec { name: name.clone(), is, has_is, extra: RDict::new() });
            }
        }
    }
    Taxonomy { defs, junk_rows: 0 }
}
