//! C14 — Namespace caches are invisible: answers ignore query history and thread schedule.

use super::c09::real_ns;
use super::c13::{compare, fmt_answer, ns_case, NsCase};
use super::common::*;
use super::ns_model::*;
use crate::isolate::{run_probe, ProbeStatus};
use crate::runner::{bx, guarded, idx, key_of, panic_sig, verif_root, Case, Ctx, Rec, Verdict};
use crate::rval::*;
use libhaystack::val::{Ref, Symbol};
use libhaystack::verif_hooks::set_sched_callback;
use proptest::prelude::*;
use serde_json::{json, Value as J};
use std::cell::RefCell;
use std::collections::BTreeSet;
use std::sync::atomic::{AtomicU64, Ordering};
use std::sync::{mpsc, Arc, Barrier, Mutex};
use std::time::Duration;

// ---------------------------------------------------------------------------------------------
// histories (deterministic)

/// the same query on a record with the same tag names but one marker / non-marker flipped:
/// an answer memoised per key set (or per anything coarser than the record) shows up as history dependence
pub fn twin(q: &Query) -> Option<Query> {
    let flip = |r: &RDict| -> Option<RDict> {
        let mut t = r.clone();
        let k = t.iter().find(|(_, v)| matches!(v, RVal::Marker)).map(|(k, _)| k.clone());
        match k {
            Some(k) => {
                t.insert(k, RVal::Str("x".into()));
                Some(t)
            }
            None => {
                let k = t.keys().next().cloned()?;
                t.insert(k, RVal::Marker);
                Some(t)
            }
        }
    };
    match q {
        Query::Reflect(r) => flip(r).map(Query::Reflect),
        Query::ReflectFits(r, a) => flip(r).map(|t| Query::ReflectFits(t, a.clone())),
        Query::FilterIsA(r, a) => flip(r).map(|t| Query::FilterIsA(t, a.clone())),
        _ => None,
    }
}

fn check_history(c: &NsCase, rec: &mut Rec) -> Verdict {
    let mut queries = c.resolved();
    // records carrying all parts of a conjunct as markers, and their twins
    for d in c.tax.defs.iter().filter(|d| d.name.contains('-')).take(3) {
        let r: RDict = d.name.split('-').map(|p| (p.to_string(), RVal::Marker)).collect();
        queries.push(Query::Reflect(r.clone()));
        queries.push(Query::ReflectFits(r, d.name.clone()));
    }
    let twins: Vec<Query> = queries.iter().filter_map(twin).collect();
    if !twins.is_empty() {
        rec.class("history:with-marker-flipped-twin-records");
    }
    queries.extend(twins);
    if queries.len() >= 3 {
        rec.nontrivial(key_of(&format!("{:?}", c.to_json())));
    }
    rec.sample(|| format!("{} defs, history {}", c.tax.defs.len(), trunc(&queries.iter().map(|q| q.label()).collect::<Vec<_>>().join(" > "), 200)));
    let expected: Vec<Answer> = queries.iter().map(|q| ask_model(&c.tax, q)).collect();
    let n = queries.len();
    // forward with every query issued twice (miss then hit), reversed, rotated, and interleaved duplicates
    let orders: Vec<(&str, Vec<usize>)> = vec![
        ("forward-twice", (0..n).flat_map(|i| [i, i]).collect()),
        ("reverse", (0..n).rev().collect()),
        ("rotated", (0..n).map(|i| (i + n / 2) % n).collect()),
        ("forward-then-reverse", (0..n).chain((0..n).rev()).collect()),
    ];
    let r = guarded(|| -> Verdict {
        for (name, order) in &orders {
            let ns = OwnedNs::make(c.tax.grid()); // cold caches
            for (step, &qi) in order.iter().enumerate() {
                let q = &queries[qi];
                // the namespace's other accessors run in between (their answers are not asserted here): nothing they do
                // may change what the asserted queries answer afterwards
                if step % 2 == 1 {
                    let name = match q {
                        Query::Get(a) | Query::Subtypes(a) | Query::AllSubtypes(a) | Query::Supertypes(a) | Query::AllSupertypes(a) | Query::Inheritance(a) | Query::ChoicesFor(a) | Query::ConjunctsDefs(a) | Query::Fits(a, _) | Query::ReflectFits(_, a) | Query::FilterIsA(_, a) | Query::FitsKind(_, a) => Some(a.clone()),
                        Query::Reflect(r) => r.keys().next().cloned(),
                    };
                    if let Some(a) = name {
                        let s = Symbol::from(a.as_str());
                        std::hint::black_box((ns.get().is(&s).len(), ns.get().tags(&s).len(), ns.get().has_subtype(&s), ns.get().conjuncts_defs(&s).len(), ns.get().choices_for(&s).len()));
                    }
                }
                let lib = ask_lib(ns.get(), q);
                let v = compare(q, &lib, &expected[qi]);
                if let Verdict::Fail { sig, msg } = v {
                    return Verdict::Fail {
                        sig: sig.replace("C13:", "C14:history:"),
                        msg: format!("order {name}, step {step}: {msg}"),
                    };
                }
            }
            rec.class(&format!("history:{name}"));
        }
        Verdict::Pass
    });
    match r {
        Ok(v) => v,
        Err(p) => Verdict::fail(format!("C14:history:{}", panic_sig(&p)), format!("panicked: {} at {}", p.msg, p.location)),
    }
}

// ---------------------------------------------------------------------------------------------
// schedules

#[derive(Clone, Debug)]
pub struct SchedCase {
    pub base: NsCase,
    /// which queries each thread issues (indices into base.queries), 2..=16 threads
    pub threads: Vec<Vec<u16>>,
    /// per thread: actions applied cyclically at the cache's critical points (0 = nothing, 1 = yield, 2.. = spin n*200)
    pub plans: Vec<Vec<u8>>,
    pub real_defs: bool,
}

impl Case for SchedCase {
    fn to_json(&self) -> J {
        json!({"base": self.base.to_json(), "threads": self.threads, "plans": self.plans, "real_defs": self.real_defs})
    }
    fn from_json(j: &J) -> Result<Self, String> {
        let vv = |k: &str, f: &dyn Fn(u64) -> u16| -> Vec<Vec<u16>> {
            j[k].as_array().map(|a| a.iter().map(|t| t.as_array().map(|x| x.iter().map(|y| f(y.as_u64().unwrap_or(0))).collect()).unwrap_or_default()).collect()).unwrap_or_default()
        };
        Ok(SchedCase {
            base: NsCase::from_json(&j["base"])?,
            threads: vv("threads", &|x| x as u16),
            plans: vv("plans", &|x| x as u16).into_iter().map(|v| v.into_iter().map(|x| x as u8).collect()).collect(),
            real_defs: j["real_defs"].as_bool().unwrap_or(false),
        })
    }
}

thread_local! {
    static PLAN: RefCell<(Vec<u8>, usize)> = const { RefCell::new((Vec::new(), 0)) };
}
/// how often two threads were inside the miss window of a cache at the same time (measured through the hook)
static IN_WINDOW: AtomicU64 = AtomicU64::new(0);
static OVERLAPS: AtomicU64 = AtomicU64::new(0);
static POINTS: AtomicU64 = AtomicU64::new(0);

fn sched_cb(id: u32) {
    POINTS.fetch_add(1, Ordering::Relaxed);
    // window = between "after miss" (1/11) and "after insert" (3/13)
    match id % 10 {
        1 => {
            if IN_WINDOW.fetch_add(1, Ordering::SeqCst) >= 1 {
                OVERLAPS.fetch_add(1, Ordering::Relaxed);
            }
        }
        3 => {
            IN_WINDOW.fetch_sub(1, Ordering::SeqCst);
        }
        _ => {}
    }
    let action = PLAN.with(|p| {
        let mut p = p.borrow_mut();
        if p.0.is_empty() {
            return 0u8;
        }
        let a = p.0[p.1 % p.0.len()];
        p.1 += 1;
        a
    });
    match action {
        0 => {}
        1 => std::thread::yield_now(),
        2 => std::thread::sleep(Duration::from_micros(50)),
        n => {
            for _ in 0..(n as u32 * 200) {
                std::hint::spin_loop();
            }
        }
    }
}

/// Runs one schedule; `Err(())` = did not complete within the deadline.
fn run_schedule(c: &SchedCase, deadline: Duration) -> Result<Verdict, ()> {
    let (tax, ns_owned): (Taxonomy, Option<OwnedNs>) = if c.real_defs {
        (real_tax().clone(), None)
    } else {
        (c.base.tax.clone(), None)
    };
    let _ = ns_owned;
    // a cold namespace per case (the real defs are re-made too: ~10 ms)
    let ns = Arc::new(if c.real_defs { OwnedNs::make(real_grid()) } else { OwnedNs::make(c.base.tax.grid()) });
    let queries: Arc<Vec<Query>> = Arc::new(if c.real_defs { real_queries(&c.base) } else { c.base.resolved() });
    if queries.is_empty() {
        return Ok(Verdict::Pass);
    }
    let expected: Arc<Vec<Answer>> = Arc::new(queries.iter().map(|q| ask_model(&tax, q)).collect());
    let n = c.threads.len().clamp(2, 16);
    let barrier = Arc::new(Barrier::new(n));
    let (tx, rx) = mpsc::channel::<Verdict>();
    set_sched_callback(Some(sched_cb));
    for t in 0..n {
        let (ns, queries, expected, barrier, tx) = (ns.clone(), queries.clone(), expected.clone(), barrier.clone(), tx.clone());
        let mine: Vec<u16> = c.threads[t].clone();
        let plan: Vec<u8> = c.plans.get(t).cloned().unwrap_or_default();
        std::thread::spawn(move || {
            PLAN.with(|p| *p.borrow_mut() = (plan, 0));
            barrier.wait();
            let r = std::panic::catch_unwind(std::panic::AssertUnwindSafe(|| -> Verdict {
                for qi in &mine {
                    let i = idx(*qi, queries.len());
                    let q = &queries[i];
                    let lib = ask_lib(ns.get(), q);
                    let v = compare(q, &lib, &expected[i]);
                    if let Verdict::Fail { sig, msg } = v {
                        return Verdict::Fail {
                            sig: sig.replace("C13:", "C14:schedule:"),
                            msg: format!("thread {t}: {msg}"),
                        };
                    }
                }
                Verdict::Pass
            }));
            let v = match r {
                Ok(v) => v,
                Err(e) => {
                    let msg = e.downcast_ref::<String>().cloned().or_else(|| e.downcast_ref::<&str>().map(|s| s.to_string())).unwrap_or_else(|| "panic".into());
                    Verdict::fail("C14:schedule:panic", format!("thread {t} panicked: {msg}"))
                }
            };
            let _ = tx.send(v);
        });
    }
    drop(tx);
    let mut result = Verdict::Pass;
    for _ in 0..n {
        match rx.recv_timeout(deadline) {
            Ok(v) => {
                if v.is_fail() && !result.is_fail() {
                    result = v;
                }
            }
            Err(_) => {
                // threads are stuck holding `ns`; leak it (the Arc keeps it alive) and report
                return Err(());
            }
        }
    }
    Ok(result)
}

fn real_grid() -> libhaystack::val::Grid {
    static G: std::sync::OnceLock<libhaystack::val::Grid> = std::sync::OnceLock::new();
    G.get_or_init(|| {
        let text = std::fs::read_to_string("/repo/tests/defs/defs.zinc").expect("defs.zinc");
        match libhaystack::encoding::zinc::decode::from_str(&text).expect("defs.zinc decodes") {
            libhaystack::val::Value::Grid(g) => g,
            _ => panic!("defs.zinc is not a grid"),
        }
    })
    .clone()
}

fn real_tax() -> &'static Taxonomy {
    static T: std::sync::OnceLock<Taxonomy> = std::sync::OnceLock::new();
    T.get_or_init(|| taxonomy_of_grid(&libhaystack::val::Value::Grid(real_grid())))
}

/// the case's query descriptors re-targeted at names of the real defs
fn real_queries(base: &NsCase) -> Vec<Query> {
    let names: Vec<String> = real_tax().table().keys().map(|s| s.to_string()).collect();
    base.queries
        .iter()
        .map(|(k, a, b, _)| {
            let na = &names[idx(*a, names.len())];
            let nb = &names[idx(*b, names.len())];
            let mut r = RDict::new();
            for p in na.split('-') {
                if !p.contains(':') {
                    r.insert(p.to_string(), RVal::Marker);
                }
            }
            r.insert(nb.split('-').next().unwrap_or("site").replace(':', "_"), RVal::Marker);
            Query::make(*k, na, nb, &r)
        })
        .collect()
}

static STICKY: Mutex<Option<J>> = Mutex::new(None);

fn check_schedule(c: &SchedCase, rec: &mut Rec) -> Verdict {
    if STICKY.lock().unwrap().is_some() {
        // a schedule got stuck earlier in this run: stop scheduling (see run())
        return Verdict::Pass;
    }
    rec.class(&format!("threads:{}", c.threads.len().clamp(2, 16)));
    rec.class(if c.real_defs { "namespace:real-defs" } else { "namespace:generated" });
    rec.sample(|| format!("{} threads x {} queries on {}", c.threads.len(), c.threads.iter().map(|t| t.len()).sum::<usize>(), if c.real_defs { "real defs".to_string() } else { format!("{} generated defs", c.base.tax.defs.len()) }));
    let before = OVERLAPS.load(Ordering::Relaxed);
    match run_schedule(c, Duration::from_secs(30)) {
        Ok(v) => {
            if OVERLAPS.load(Ordering::Relaxed) > before {
                rec.nontrivial(key_of(&c.to_json().to_string()));
                rec.class("schedule:two-threads-in-the-same-miss-window");
            }
            v
        }
        Err(()) => {
            *STICKY.lock().unwrap() = Some(c.to_json());
            Verdict::Pass
        }
    }
}

pub fn sched_case(max_defs: usize) -> BoxedStrategy<SchedCase> {
    bx((ns_case(max_defs, 24), 2usize..=16, any::<bool>()).prop_flat_map(|(base, n, real_defs)| {
        let threads = prop::collection::vec(prop::collection::vec(any::<u16>(), 1..24), n);
        let plans = prop::collection::vec(prop::collection::vec(prop_oneof![2 => Just(0u8), 2 => Just(1u8), 1 => Just(2u8), 2 => 3u8..40], 0..6), n);
        (Just(base), threads, plans).prop_map(move |(base, threads, plans)| SchedCase { base, threads, plans, real_defs })
    }))
}

/// stress: many threads hammering reflect / fits / relationship queries on the real defs
fn stress(ctx: &mut Ctx) {
    let rounds = ctx.tier.pick(30, 300);
    let tax = real_tax();
    let names: Vec<String> = tax.table().keys().map(|s| s.to_string()).collect();
    for round in 0..rounds {
        let ns = Arc::new(OwnedNs::make(real_grid()));
        let (tx, rx) = mpsc::channel::<Verdict>();
        let barrier = Arc::new(Barrier::new(16));
        set_sched_callback(Some(sched_cb));
        for t in 0..16usize {
            let (ns, tx, barrier, names) = (ns.clone(), tx.clone(), barrier.clone(), names.clone());
            let seed = ctx.seed;
            std::thread::spawn(move || {
                PLAN.with(|p| *p.borrow_mut() = (vec![(t % 3) as u8, ((t * 7) % 30) as u8], 0));
                barrier.wait();
                let r = std::panic::catch_unwind(std::panic::AssertUnwindSafe(|| -> Verdict {
                    let tax = real_tax();
                    for k in 0..200usize {
                        // all threads walk the same symbols in different rotations so that they collide on cold entries
                        let i = (k * 13 + (t % 4) * 3 + round as usize * 31 + seed as usize) % names.len();
                        let a = &names[i];
                        let b = &names[(i * 7 + 3) % names.len()];
                        let mut r = RDict::new();
                        for p in a.split('-') {
                            if !p.contains(':') {
                                r.insert(p.to_string(), RVal::Marker);
                            }
                        }
                        let q = match k % 5 {
                            0 => Query::Reflect(r),
                            1 => Query::Fits(a.clone(), b.clone()),
                            2 => Query::Inheritance(a.clone()),
                            3 => Query::AllSupertypes(a.clone()),
                            _ => Query::FilterIsA(r, b.clone()),
                        };
                        let v = compare(&q, &ask_lib(ns.get(), &q), &ask_model(tax, &q));
                        if let Verdict::Fail { sig, msg } = v {
                            return Verdict::Fail { sig: sig.replace("C13:", "C14:stress:"), msg };
                        }
                        if k % 10 == 0 {
                            // relationship / association queries: compared with a single-threaded cold namespace below
                            let d = build_dict(&[("id".to_string(), RVal::Ref("x".into(), None)), ("siteRef".to_string(), RVal::Ref("s".into(), None)), ("equip".to_string(), RVal::Marker)].into_iter().collect());
                            let _ = ns.get().has_relationship(&d, &Symbol::from("containedBy"), &None, &Some(Ref::from("s")), &|_| None);
                            let _ = ns.get().tags(&Symbol::from(a.as_str())).len();
                        }
                    }
                    Verdict::Pass
                }));
                let _ = tx.send(r.unwrap_or_else(|_| Verdict::fail("C14:stress:panic", "a thread panicked")));
            });
        }
        drop(tx);
        for _ in 0..16 {
            match rx.recv_timeout(Duration::from_secs(60)) {
                Ok(v) => {
                    ctx.rec.evals += 200;
                    if v.is_fail() {
                        ctx.report("stress", v, json!({"round": round}));
                    }
                }
                Err(_) => {
                    ctx.report("stress", Verdict::fail("C14:stress:deadlock", format!("16 threads on one cold real-defs namespace did not finish within 60 s (round {round})")), json!({"round": round}));
                    return;
                }
            }
        }
        ctx.rec.nontrivial(key_of(&format!("stress:{round}")));
    }
    ctx.rec.class_n("stress:rounds(16 threads x 200 queries)", rounds);
}

/// association / relationship answers must not depend on what was asked before
fn relationship_history(ctx: &mut Ctx) {
    let tax = real_tax();
    let names: Vec<String> = tax.table().keys().map(|s| s.to_string()).collect();
    let subject = build_dict(&[("id".to_string(), RVal::Ref("x".into(), None)), ("siteRef".to_string(), RVal::Ref("s".into(), None)), ("equipRef".to_string(), RVal::Ref("e".into(), None)), ("equip".to_string(), RVal::Marker), ("ahu".to_string(), RVal::Marker)].into_iter().collect());
    let ask = |ns: &'static libhaystack::defs::namespace::Namespace<'static>, i: usize| -> (BTreeSet<String>, BTreeSet<String>, bool, bool) {
        let a = Symbol::from(names[i].as_str());
        let tags: BTreeSet<String> = ns.tags(&a).iter().map(|d| d.get("def").map(|v| v.to_string()).unwrap_or_default()).collect();
        let is: BTreeSet<String> = ns.is(&a).iter().map(|d| d.get("def").map(|v| v.to_string()).unwrap_or_default()).collect();
        let r1 = ns.has_relationship(&subject, &Symbol::from("containedBy"), &None, &Some(Ref::from("s")), &|_| None);
        let r2 = ns.has_relationship(&subject, &a, &Some(Symbol::from("site")), &None, &|_| None);
        (tags, is, r1, r2)
    };
    let step = ctx.tier.pick(9, 1) as usize;
    let picks: Vec<usize> = (0..names.len()).step_by(step).collect();
    // cold answer for each symbol on its own fresh namespace vs. the answer after a long history on a shared one
    let shared = OwnedNs::make(real_grid());
    for &i in picks.iter().rev() {
        let _ = ask(shared.get(), i);
        let _ = shared.get().inheritance(&Symbol::from(names[i].as_str())).len();
    }
    for (k, &i) in picks.iter().enumerate() {
        ctx.rec.evals += 1;
        let warm = ask(shared.get(), i);
        if k % 8 == 0 {
            let fresh = OwnedNs::make(real_grid());
            let cold = ask(fresh.get(), i);
            if cold != warm {
                ctx.report("relationship-history", Verdict::fail("C14:history:associations", format!("tags/is/has_relationship for {} differ between a cold namespace and one with a query history", names[i])), json!({"symbol": names[i]}));
            }
            ctx.rec.nontrivial(key_of(&format!("relhist:{}", names[i])));
        }
    }
}

// ---------------------------------------------------------------------------------------------
// relationship queries over generated relationship defs (history independence, no model needed)

/// A small generated world for `has_relationship`: relationship defs r0..r3 (some `transitive`, some with a
/// `reciprocalOf` declared on one side, both sides, or neither), entity defs e0..e2 in a chain, tag defs t0..t4
/// each associating some relationships with an entity (`r1: ^e2`), records x0..x3 whose tags point at each other.
#[derive(Clone, Debug)]
pub struct RelCase {
    /// per relationship: (transitive, reciprocalOf index or 255)
    pub rels: Vec<(bool, u8)>,
    /// per tag def: list of (relationship index, entity index)
    pub tags: Vec<Vec<(u8, u8)>>,
    /// per record: list of (tag index, target record index)
    pub recs: Vec<Vec<(u8, u8)>>,
    /// queries: (record, relationship, entity term or 255, target record or 255)
    pub queries: Vec<(u8, u8, u8, u8)>,
    /// the history: indices into `queries`
    pub order: Vec<u16>,
}
impl Case for RelCase {
    fn to_json(&self) -> J {
        json!({"rels": self.rels, "tags": self.tags, "recs": self.recs, "queries": self.queries, "order": self.order})
    }
    fn from_json(j: &J) -> Result<Self, String> {
        serde_json::from_value::<(Vec<(bool, u8)>, Vec<Vec<(u8, u8)>>, Vec<Vec<(u8, u8)>>, Vec<(u8, u8, u8, u8)>, Vec<u16>)>(json!([j["rels"], j["tags"], j["recs"], j["queries"], j["order"]]))
            .map(|(rels, tags, recs, queries, order)| RelCase { rels, tags, recs, queries, order })
            .map_err(|e| e.to_string())
    }
}

pub fn rel_case() -> BoxedStrategy<RelCase> {
    let rels = prop::collection::vec((any::<bool>(), prop_oneof![2 => Just(255u8), 3 => 0u8..4]), 2..=4);
    let tags = prop::collection::vec(prop::collection::vec((0u8..4, 0u8..3), 0..3), 2..=5);
    let recs = prop::collection::vec(prop::collection::vec((0u8..5, 0u8..4), 0..4), 2..=4);
    let queries = prop::collection::vec((0u8..4, 0u8..4, prop_oneof![1 => Just(255u8), 1 => 0u8..3], prop_oneof![1 => Just(255u8), 2 => 0u8..4]), 2..10);
    let order = prop::collection::vec(any::<u16>(), 3..24);
    bx((rels, tags, recs, queries, order).prop_map(|(rels, tags, recs, queries, order)| RelCase { rels, tags, recs, queries, order }))
}

impl RelCase {
    fn grid(&self) -> libhaystack::val::Grid {
        let sym = |s: String| RVal::Symbol(s);
        let mut rows: Vec<RDict> = vec![];
        let mut def = |name: String, is: Vec<&str>, extra: Vec<(String, RVal)>| {
            let mut r: RDict = extra.into_iter().collect();
            r.insert("def".into(), RVal::Symbol(name));
            r.insert("is".into(), RVal::List(is.into_iter().map(|s| RVal::Symbol(s.to_string())).collect()));
            rows.push(r);
        };
        def("marker".into(), vec![], vec![]);
        def("relationship".into(), vec!["marker"], vec![]);
        def("ref".into(), vec!["marker"], vec![]);
        def("e0".into(), vec!["marker"], vec![]);
        def("e1".into(), vec!["e0"], vec![]);
        def("e2".into(), vec!["e1"], vec![]);
        let nrel = self.rels.len();
        for (i, (transitive, recip)) in self.rels.iter().enumerate() {
            let mut extra = vec![];
            if *transitive {
                extra.push(("transitive".to_string(), RVal::Marker));
            }
            if *recip != 255 {
                extra.push(("reciprocalOf".to_string(), sym(format!("r{}", *recip as usize % nrel))));
            }
            def(format!("r{i}"), vec!["relationship"], extra);
        }
        for (i, assoc) in self.tags.iter().enumerate() {
            let extra = assoc.iter().map(|(r, e)| (format!("r{}", *r as usize % nrel), sym(format!("e{e}")))).collect();
            def(format!("t{i}"), vec!["ref"], extra);
        }
        libhaystack::val::Grid::make_from_dicts(rows.iter().map(build_dict).collect())
    }
    fn record(&self, i: usize) -> libhaystack::val::Dict {
        let mut r = RDict::new();
        r.insert("id".into(), RVal::Ref(format!("x{i}"), None));
        r.insert("e1".into(), RVal::Marker);
        for (t, x) in &self.recs[i] {
            r.insert(format!("t{}", *t as usize % self.tags.len()), RVal::Ref(format!("x{}", *x as usize % self.recs.len()), None));
        }
        build_dict(&r)
    }
    fn ask(&self, ns: &'static libhaystack::defs::namespace::Namespace<'static>, q: &(u8, u8, u8, u8)) -> bool {
        let n = self.recs.len();
        let subject = self.record(q.0 as usize % n);
        let rel = Symbol::from(format!("r{}", q.1 as usize % self.rels.len()).as_str());
        let term = if q.2 == 255 { None } else { Some(Symbol::from(format!("e{}", q.2 % 3).as_str())) };
        let target = if q.3 == 255 { None } else { Some(Ref::from(format!("x{}", q.3 as usize % n).as_str())) };
        let resolve = |r: &Ref| -> Option<libhaystack::val::Dict> { r.value.strip_prefix('x').and_then(|i| i.parse::<usize>().ok()).filter(|i| *i < n).map(|i| self.record(i)) };
        ns.has_relationship(&subject, &rel, &term, &target, &resolve)
    }
}

fn check_rel_history(c: &RelCase, rec: &mut Rec) -> Verdict {
    let one_sided = c.rels.iter().enumerate().any(|(i, (_, r))| *r != 255 && c.rels[*r as usize % c.rels.len()].1 as usize % c.rels.len() != i);
    if one_sided {
        rec.class("relationships:reciprocalOf-declared-on-one-side");
    }
    if c.rels.iter().any(|(t, _)| *t) {
        rec.class("relationships:transitive");
    }
    let r = guarded(|| -> Verdict {
        // the cold answer of each query: asked first, on a namespace of its own
        let cold: Vec<bool> = c
            .queries
            .iter()
            .map(|q| {
                let ns = OwnedNs::make(c.grid());
                c.ask(ns.get(), q)
            })
            .collect();
        if cold.iter().any(|b| *b) {
            rec.class("relationships:some-query-holds");
            rec.nontrivial(key_of(&format!("{c:?}")));
        }
        let shared = OwnedNs::make(c.grid());
        for (step, qi) in c.order.iter().enumerate() {
            let i = idx(*qi, c.queries.len());
            let got = c.ask(shared.get(), &c.queries[i]);
            if got != cold[i] {
                return Verdict::fail(
                    "C14:history:relationship",
                    format!("has_relationship query {:?} answers {} on a cold namespace and {got} as query number {} of a history (rels {:?}, tags {:?}, recs {:?})", c.queries[i], cold[i], step + 1, c.rels, c.tags, c.recs),
                );
            }
        }
        Verdict::Pass
    });
    match r {
        Ok(v) => v,
        Err(p) => Verdict::fail(format!("C14:history:relationship:{}", panic_sig(&p)), format!("{} at {}", p.msg, p.location)),
    }
}

/// `def_of_dict` / `Reflection::entity_type` of one record: the answer may be any of the record's entity types
/// when it has several unrelated ones (the statement does not say which), but it must be the *same* answer on a
/// cold namespace, on a warm one, on repetition and from every thread.
fn entity_type_stability(ctx: &mut Ctx) {
    let subjects: Vec<Vec<&str>> = vec![
        vec!["site", "equip"], vec!["ahu", "point"], vec!["site", "space", "equip", "point"], vec!["equip", "ahu", "vav"], vec!["point", "sensor", "temp", "air"],
        vec!["site"], vec!["device", "equip", "meter", "elec"], vec!["space", "room", "floor"], vec!["weatherStation", "site"], vec!["chiller", "boiler", "equip"], vec!["dis"], vec![],
    ];
    let name_of = |d: &libhaystack::val::Dict| d.get("def").map(|v| v.to_string()).unwrap_or_default();
    for tags in &subjects {
        ctx.rec.evals += 1;
        let mut r = RDict::new();
        r.insert("id".into(), RVal::Ref("x".into(), None));
        for t in tags {
            r.insert(t.to_string(), RVal::Marker);
        }
        // (`def_of_dict` ties the subject's lifetime to the namespace's: the twelve subjects are leaked)
        let subject: &'static libhaystack::val::Dict = Box::leak(Box::new(build_dict(&r)));
        let mut seen: BTreeSet<String> = BTreeSet::new();
        let outcome = guarded(|| {
            let mut seen: BTreeSet<String> = BTreeSet::new();
            for _round in 0..3 {
                let ns = OwnedNs::make(real_grid());
                seen.insert(name_of(&ns.get().def_of_dict(subject))); // cold
                for _ in 0..8 {
                    seen.insert(name_of(&ns.get().def_of_dict(subject)));
                    seen.insert(name_of(&ns.get().reflect(subject).entity_type));
                }
                let from_threads: Vec<String> = std::thread::scope(|s| {
                    let hs: Vec<_> = (0..4).map(|_| s.spawn(|| name_of(&ns.get().def_of_dict(subject)))).collect();
                    hs.into_iter().map(|h| h.join().unwrap_or_default()).collect()
                });
                seen.extend(from_threads);
            }
            seen
        });
        match outcome {
            Ok(s) => seen = s,
            Err(p) => {
                ctx.report("entity-type", Verdict::fail(format!("C14:history:entity-type:{}", panic_sig(&p)), p.msg), json!({"tags": tags}));
                continue;
            }
        }
        if tags.len() >= 2 {
            ctx.rec.nontrivial(key_of(&format!("entity-type:{tags:?}")));
        }
        ctx.rec.class("entity-type:repeated-cold-warm-threads");
        if seen.len() > 1 {
            ctx.report(
                "entity-type",
                Verdict::fail("C14:history:entity-type-unstable", format!("def_of_dict of a record with the markers {tags:?} answered {seen:?} over repetitions on cold / warm namespaces and from four threads")),
                json!({"tags": tags}),
            );
        }
    }
}

/// `hv probe c14-guards`: answers of supertypes_of / inheritance are guards into the caches. Keeping one alive while
/// asking again for *cached* symbols must not block (readers do not exclude readers), alone or from two threads.
pub fn probe_guards() -> i32 {
    let ns = OwnedNs::make(real_grid());
    let names = ["site", "equip", "ahu", "point", "sensor", "vav", "meter", "space", "elec-meter", "air", "temp", "marker"];
    let syms: Vec<Symbol> = names.iter().map(|n| Symbol::from(*n)).collect();
    for s in &syms {
        // warm every entry first (a *cold* query while a guard is held may need the shard exclusively)
        let _ = ns.get().supertypes_of(s).len();
        let _ = ns.get().inheritance(s).len();
    }
    let mut total = 0usize;
    for x in &syms {
        let a = ns.get().supertypes_of(x);
        let i = ns.get().inheritance(x);
        for y in &syms {
            let b = ns.get().supertypes_of(y);
            let j = ns.get().inheritance(y);
            total += a.len() + b.len() + i.len() + j.len();
        }
    }
    std::thread::scope(|sc| {
        for t in 0..2 {
            let (ns, syms) = (&ns, &syms);
            sc.spawn(move || {
                for k in 0..200 {
                    let x = &syms[(k + t * 5) % syms.len()];
                    let held = ns.get().supertypes_of(x);
                    for y in syms.iter() {
                        std::hint::black_box(ns.get().supertypes_of(y).len() + held.len());
                    }
                }
            });
        }
    });
    println!("guards ok {total}");
    0
}

fn held_guards(ctx: &mut Ctx) {
    ctx.rec.evals += 1;
    ctx.rec.class("held-answer-guards:child-process");
    ctx.rec.nontrivial(key_of("held-guards"));
    let args = vec!["c14-guards".to_string()];
    let r = run_probe(&args, None, Duration::from_secs(30), &[]);
    match r.status {
        ProbeStatus::Exit(0) => {}
        ProbeStatus::Timeout => {
            let again = run_probe(&args, None, Duration::from_secs(90), &[]);
            if again.status == ProbeStatus::Timeout {
                ctx.report("held-guards", Verdict::fail("C14:guards:deadlock", "asking for cached supertypes / inheritance while an earlier answer is still held does not return (30 s, then 90 s in a second process)"), json!({}));
            } else {
                ctx.inconclusive.push("held-guards probe timed out once and then completed".into());
            }
        }
        other => ctx.report("held-guards", Verdict::fail("C14:guards:crash", format!("{other:?} {}", r.stderr_tail.lines().last().unwrap_or(""))), json!({})),
    }
}

pub fn probe_schedule(args: &[String]) -> i32 {
    let Some(path) = args.first() else { return 2 };
    let Ok(text) = std::fs::read_to_string(path) else { return 2 };
    let Ok(j) = serde_json::from_str::<J>(&text) else { return 2 };
    let Ok(c) = SchedCase::from_json(&j) else { return 2 };
    for _ in 0..100 {
        match run_schedule(&c, Duration::from_secs(20)) {
            Ok(Verdict::Pass) => {}
            Ok(Verdict::Fail { sig, msg }) => {
                println!("FAIL {sig} {msg}");
                return 3;
            }
            Err(()) => {
                println!("STUCK");
                return 6;
            }
        }
    }
    0
}

pub fn run(ctx: &mut Ctx) {
    ctx.rule("histories (deterministic): generated query sequences on a freshly built namespace in four orders (each query twice in a row, reversed, rotated, forward-then-reverse); every answer must equal the stateless subtype-graph model while the namespace's other accessors (is, tags, has_subtype, conjuncts_defs, choices_for) are called in between, and association/relationship answers must equal those of a cold namespace (real defs, and generated worlds of relationship defs - transitive or not, `reciprocalOf` declared on one side, both or none - with tag defs, records pointing at each other and 3-24 has_relationship queries in a generated order; def_of_dict / entity_type of records with several unrelated entity markers repeated on cold and warm namespaces and from four threads must always name the same def); schedules: 2-16 threads started on a barrier, each issuing a generated query list against one cold namespace (generated taxonomy or the real defs) while a generated per-thread plan (nothing / yield / sleep 50us / spin) is applied at the caches' critical points through the sched_point hook; every answer of every thread must equal the model, no panic, completion within 30 s (a stuck schedule is re-run in a child process before it is called a deadlock); stress: 16 threads x 200 queries on cold real-defs namespaces; answers (guards into the caches) kept alive while further cached queries are issued, alone and from two threads, in a child process with a time limit; non-trivial: a schedule in which the hook observed two threads inside the same cache-miss window / a history of >= 3 queries; distinct by case");
    ctx.assume("schedule exploration is biased sampling of OS interleavings, not enumeration; the history half is deterministic");
    let max_defs = ctx.tier.pick(16, 30) as usize;
    ctx.run_sub::<NsCase>("history", ctx.tier.pick(3_200, 64_000), &move || ns_case(max_defs, 30), &check_history);
    relationship_history(ctx);
    entity_type_stability(ctx);
    held_guards(ctx);
    ctx.run_sub::<RelCase>("relationship-history", ctx.tier.pick(8_000, 160_000), &rel_case, &check_rel_history);
    ctx.run_sub::<SchedCase>("schedule", ctx.tier.pick(1_600, 48_000), &move || sched_case(max_defs), &check_schedule);
    ctx.extra.insert("sched_points_hit".into(), json!(POINTS.load(Ordering::Relaxed)));
    ctx.extra.insert("miss_window_overlaps".into(), json!(OVERLAPS.load(Ordering::Relaxed)));
    let stuck = STICKY.lock().unwrap().take();
    if let Some(case) = stuck {
        // confirm in isolation before calling it a deadlock
        let dir = verif_root().join("work");
        let _ = std::fs::create_dir_all(&dir);
        let path = dir.join(format!("c14-stuck-{}.json", std::process::id()));
        let _ = std::fs::write(&path, case.to_string());
        let mut reproduced = false;
        for _ in 0..8 {
            let r = run_probe(&["c14-schedule".to_string(), path.display().to_string()], None, Duration::from_secs(150), &[]);
            if matches!(r.status, ProbeStatus::Exit(6) | ProbeStatus::Timeout) {
                reproduced = true;
                break;
            }
        }
        let _ = std::fs::remove_file(&path);
        if reproduced {
            ctx.report("schedule", Verdict::fail("C14:schedule:deadlock", "a schedule did not complete within 30 s and got stuck again when re-run in a fresh process"), case);
        } else {
            ctx.inconclusive.push("a schedule did not complete within 30 s but did not get stuck again in isolation".into());
        }
    } else {
        stress(ctx);
    }
    set_sched_callback(None);
    let _ = (real_ns, fmt_answer);
}

pub fn replay(kind: &str, case: &J, rec: &mut Rec) -> Verdict {
    match kind {
        "history" => NsCase::from_json(case).map(|c| check_history(&c, rec)).unwrap_or_else(|e| Verdict::fail("infra:bad-replay", e)),
        "relationship-history" if case.get("rels").is_some() => RelCase::from_json(case).map(|c| check_rel_history(&c, rec)).unwrap_or_else(|e| Verdict::fail("infra:bad-replay", e)),
        "held-guards" => {
            let r = run_probe(&["c14-guards".to_string()], None, Duration::from_secs(90), &[]);
            match r.status {
                ProbeStatus::Exit(0) => Verdict::Pass,
                other => Verdict::fail("C14:guards:deadlock", format!("{other:?}")),
            }
        }
        "entity-type" => {
            // re-run the whole (small, deterministic) stability check
            let mut c = Ctx::new("C14", crate::runner::Tier::Quick, 1);
            entity_type_stability(&mut c);
            if !c.violations.is_empty() {
                Verdict::fail("C14:history:entity-type-unstable", "def_of_dict is not stable (see the check's output)")
            } else {
                Verdict::Pass
            }
        }
        "schedule" => match SchedCase::from_json(case) {
            Ok(c) => {
                // a replay re-runs the same plan several times: the OS may interleave differently each time
                for _ in 0..50 {
                    match run_schedule(&c, Duration::from_secs(30)) {
                        Ok(Verdict::Pass) => {}
                        Ok(v) => return v,
                        Err(()) => return Verdict::fail("C14:schedule:deadlock", "the schedule did not complete within 30 s"),
                    }
                }
                Verdict::Pass
            }
            Err(e) => Verdict::fail("infra:bad-replay", e),
        },
        _ => Verdict::fail("infra:unknown-kind", kind),
    }
}
