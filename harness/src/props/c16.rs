//! C16 — Unit conversion and Number arithmetic are dimensionally sound.

use super::c15::dim_of;
use crate::refimpl::units as db;
use crate::runner::{bx, guarded, key_of, Case, Ctx, Rec, Verdict, SHARDS};
use crate::rval::*;
use libhaystack::units::Unit;
use libhaystack::val::Number;
use proptest::prelude::*;
use serde_json::{json, Value as J};

const MAGS: [f64; 7] = [0.0, 1.0, -40.0, 0.5, 1e-7, 1e9, 12345.678];

fn dbu(u: &Unit) -> Option<&'static db::DbUnit> {
    db::db().iter().find(|d| d.ids == u.ids)
}

fn convert_check(a: &'static Unit, b: &'static Unit, x: f64) -> Verdict {
    let (Some(da), Some(dbb)) = (dbu(a), dbu(b)) else { return Verdict::fail("C16:unit-not-in-db", format!("{:?} {:?}", a.ids, b.ids)) };
    let same_dim = da.dim == dbb.dim;
    let r = match guarded(|| a.convert_to(x, b)) {
        Ok(r) => r,
        Err(p) => return Verdict::fail("C16:convert:panic", format!("{} at {}", p.msg, p.location)),
    };
    let who = format!("{} -> {}", a.name(), b.name());
    match r {
        Ok(y) => {
            if !same_dim {
                return Verdict::fail("C16:convert:different-dimensions-accepted", format!("{who}: dimensions {:?} vs {:?} but convert_to({x}) = Ok({y})", da.dim, dbb.dim));
            }
            let expect = ((x * da.scale + da.offset) - dbb.offset) / dbb.scale;
            if !expect.is_finite() || !(x * da.scale).is_finite() || expect.abs() > 1e290 {
                // beyond the floating point range: nothing to compare
                return Verdict::Pass;
            }
            let tol = 1e-9 * ((x * da.scale).abs() + da.offset.abs() + dbb.offset.abs()) / dbb.scale.abs() + f64::MIN_POSITIVE;
            if !((y - expect).abs() <= tol) {
                return Verdict::fail("C16:convert:value", format!("{who}: convert_to({x}) = {y}, physical conversion gives {expect} (tolerance {tol:e})"));
            }
            // and back
            match b.convert_to(y, a) {
                Ok(back) => {
                    let tol_back = 1e-9 * ((y * dbb.scale).abs() + dbb.offset.abs() + da.offset.abs()) / da.scale.abs() + 1e-9 * x.abs() + f64::MIN_POSITIVE;
                    if !((back - x).abs() <= tol_back) {
                        return Verdict::fail("C16:convert:round-trip", format!("{who}: {x} -> {y} -> {back} (tolerance {tol_back:e})"));
                    }
                }
                Err(e) => return Verdict::fail("C16:convert:back-rejected", format!("{who}: forward Ok, back Err({e})")),
            }
            Verdict::Pass
        }
        Err(_) => {
            if same_dim {
                Verdict::fail("C16:convert:same-dimension-rejected", format!("{who}: same dimension {:?} but convert_to fails", da.dim))
            } else {
                Verdict::Pass
            }
        }
    }
}

/// magnitudes at the far ends of the range: success still depends on the dimension only, the result is a number
/// (not NaN) and, where it is a normal f64, the physical conversion within 1e-6
fn extreme_check(a: &'static Unit, b: &'static Unit) -> Verdict {
    let (Some(da), Some(dbb)) = (dbu(a), dbu(b)) else { return Verdict::Pass };
    let same_dim = da.dim == dbb.dim;
    for x in [1e-300, -1e-305, 1e300, f64::INFINITY, f64::NEG_INFINITY] {
        match guarded(|| a.convert_to(x, b)) {
            Ok(Ok(y)) => {
                let expect = ((x * da.scale + da.offset) - dbb.offset) / dbb.scale;
                let bad = !same_dim || (y.is_nan() && !expect.is_nan()) || (expect.is_finite() && expect.abs() >= 1e-300 && expect.abs() <= 1e300 && !((y - expect).abs() <= 1e-6 * expect.abs()));
                if bad {
                    return Verdict::fail("C16:convert:extreme-magnitude", format!("{} -> {}: convert_to({x:e}) = Ok({y:e}), physical conversion gives {expect:e} (same dimension: {same_dim})", a.name(), b.name()));
                }
            }
            Ok(Err(_)) => {
                if same_dim {
                    return Verdict::fail("C16:convert:same-dimension-rejected", format!("{} -> {}: same dimension but convert_to({x:e}) fails", a.name(), b.name()));
                }
            }
            Err(p) => return Verdict::fail("C16:convert:panic", p.msg),
        }
    }
    Verdict::Pass
}

fn muldiv_check(a: &'static Unit, b: &'static Unit, rec: &mut Rec) -> Verdict {
    let (Some(da), Some(dbb)) = (dbu(a), dbu(b)) else { return Verdict::Pass };
    for (op, res) in [("mul", guarded(|| a * b)), ("div", guarded(|| a / b))] {
        let res = match res {
            Ok(r) => r,
            Err(p) => return Verdict::fail(format!("C16:{op}:panic"), format!("{} {op} {}: {} at {}", a.name(), b.name(), p.msg, p.location)),
        };
        if let Ok(u) = res {
            rec.class(&format!("{op}:yields-unit"));
            rec.nontrivial(key_of(&format!("{op}:{}:{}", a.name(), b.name())));
            let Some(du) = dbu(u) else {
                return Verdict::fail(format!("C16:{op}:not-a-database-unit"), format!("{} {op} {} = {:?}", a.name(), b.name(), u.ids));
            };
            if dim_of(u) != du.dim {
                return Verdict::fail(format!("C16:{op}:result-dim-vs-db"), format!("{:?}", u.ids));
            }
            let mut want = [0i8; 7];
            for i in 0..7 {
                want[i] = if op == "mul" { da.dim[i] + dbb.dim[i] } else { da.dim[i] - dbb.dim[i] };
            }
            if du.dim != want {
                return Verdict::fail(format!("C16:{op}:dimension"), format!("{} {op} {} = {} with dimension {:?}, expected {:?}", a.name(), b.name(), u.name(), du.dim, want));
            }
            let ws = if op == "mul" { da.scale * dbb.scale } else { da.scale / dbb.scale };
            let rel = ((du.scale - ws) / ws).abs();
            if !(rel <= 1e-3) {
                return Verdict::fail(format!("C16:{op}:scale"), format!("{} {op} {} = {} with scale {}, expected {ws}", a.name(), b.name(), u.name(), du.scale));
            }
            if rel > 1e-9 {
                rec.class("info:scale-matched-within-1e-3-not-1e-9");
            }
        }
    }
    Verdict::Pass
}

fn number_arith(a: Number, b: Number, rec: &mut Rec) -> Verdict {
    let name = |n: &Number| n.unit.map(|u| u.name().to_string()).unwrap_or_else(|| "-".into());
    let ctx = format!("{}{} , {}{}", a.value, name(&a), b.value, name(&b));
    for (op, res, want) in [("add", guarded(|| a + b), a.value + b.value), ("sub", guarded(|| a - b), a.value - b.value)] {
        let res = match res {
            Ok(r) => r,
            Err(p) => return Verdict::fail(format!("C16:number:{op}:panic"), format!("{ctx}: {}", p.msg)),
        };
        match (a.unit, b.unit) {
            (x, y) if x == y => match res {
                Ok(n) => {
                    if n.unit != a.unit {
                        return Verdict::fail(format!("C16:number:{op}:unit-not-kept"), format!("{ctx} -> unit {:?}", n.unit.map(|u| u.name())));
                    }
                    if !(n.value == want || (n.value.is_nan() && want.is_nan())) {
                        return Verdict::fail(format!("C16:number:{op}:value"), format!("{ctx} -> {} expected {want}", n.value));
                    }
                    rec.class(&format!("number:{op}:same-unit"));
                }
                Err(e) => return Verdict::fail(format!("C16:number:{op}:same-unit-rejected"), format!("{ctx}: {e}")),
            },
            (Some(_), Some(_)) => {
                if res.is_ok() {
                    return Verdict::fail(format!("C16:number:{op}:different-units-accepted"), ctx.clone());
                }
                rec.class(&format!("number:{op}:different-units-rejected"));
            }
            (x, y) => {
                // one side without a unit: whether that is accepted is left open, but an accepted sum is a quantity in
                // the one unit in play - it neither loses the unit nor depends on which side carried it
                match res {
                    Ok(n) => {
                        if n.unit != x.or(y) {
                            return Verdict::fail(format!("C16:number:{op}:unit-lost-with-a-bare-operand"), format!("{ctx} -> unit {:?}, the only unit in play is {:?}", n.unit.map(|u| u.name()), x.or(y).map(|u| u.name())));
                        }
                        if !(n.value == want || (n.value.is_nan() && want.is_nan())) {
                            return Verdict::fail(format!("C16:number:{op}:value"), format!("{ctx} -> {} expected {want}", n.value));
                        }
                        rec.class(&format!("number:{op}:one-side-unitless:accepted"));
                    }
                    Err(_) => rec.class(&format!("number:{op}:one-side-unitless:rejected")),
                }
            }
        }
    }
    // * and / follow the unit operators
    if let (Some(ua), Some(ub)) = (a.unit, b.unit) {
        for (op, res, ures, want) in [("mul", guarded(|| a * b), guarded(|| ua * ub), a.value * b.value), ("div", guarded(|| a / b), guarded(|| ua / ub), a.value / b.value)] {
            let (Ok(res), Ok(ures)) = (res, ures) else { return Verdict::fail(format!("C16:number:{op}:panic"), ctx.clone()) };
            match (res, ures) {
                (Ok(n), Ok(u)) => {
                    if n.unit.map(|x| &x.ids) != Some(&u.ids) {
                        return Verdict::fail(format!("C16:number:{op}:unit"), format!("{ctx}: number result unit {:?}, unit operator gives {:?}", n.unit.map(|x| x.name()), u.name()));
                    }
                    if !(n.value == want || (n.value.is_nan() && want.is_nan())) {
                        return Verdict::fail(format!("C16:number:{op}:value"), format!("{ctx} -> {} expected {want}", n.value));
                    }
                }
                (Err(_), Err(_)) => {}
                (n, u) => return Verdict::fail(format!("C16:number:{op}:disagrees-with-unit-operator"), format!("{ctx}: number {:?} vs unit {:?}", n.is_ok(), u.is_ok())),
            }
        }
    }
    Verdict::Pass
}

fn enumerate(ctx: &mut Ctx) {
    let table = unit_table();
    let n = table.len();
    let results: std::sync::Mutex<(Rec, Vec<(Verdict, J)>)> = std::sync::Mutex::new((Rec::new(), vec![]));
    std::thread::scope(|s| {
        for shard in 0..SHARDS {
            let results = &results;
            s.spawn(move || {
                let mut rec = Rec::new();
                let mut fails: Vec<(Verdict, J)> = vec![];
                for i in (shard..n).step_by(SHARDS) {
                    let (_, a) = table[i];
                    for (_, b) in table.iter() {
                        let (Some(da), Some(dbb)) = (dbu(a), dbu(b)) else { continue };
                        let interesting = a.ids != b.ids && da.dim == dbb.dim;
                        for x in MAGS {
                            rec.evals += 1;
                            let v = convert_check(a, b, x);
                            if v.is_fail() {
                                if fails.len() < 4 {
                                    fails.push((v, json!({"a": a.name(), "b": b.name(), "x": x})));
                                }
                                break;
                            }
                        }
                        rec.evals += 5;
                        let v = extreme_check(a, b);
                        if v.is_fail() && fails.len() < 4 {
                            fails.push((v, json!({"a": a.name(), "b": b.name()})));
                        }
                        if interesting {
                            rec.nontrivial(key_of(&format!("conv:{}:{}", a.name(), b.name())));
                            rec.class("convert:same-dimension-pair");
                        }
                        rec.evals += 1;
                        let v = muldiv_check(a, b, &mut rec);
                        if v.is_fail() && fails.len() < 8 {
                            fails.push((v, json!({"a": a.name(), "b": b.name()})));
                        }
                    }
                }
                let mut m = results.lock().unwrap();
                m.0.merge(rec);
                m.1.extend(fails);
            });
        }
    });
    let (rec, fails) = results.into_inner().unwrap();
    ctx.rec.merge(rec);
    for (v, c) in fails {
        ctx.report("unit-pair", v, c);
    }
    ctx.rec.samples.push("fahrenheit -> celsius x {0,1,-40,0.5,1e-7,1e9,12345.678}".into());
    ctx.rec.samples.push("kilowatt * hour, meter / second (unit operators)".into());
    ctx.exhaustive = true;
}

#[derive(Clone, Debug)]
pub struct Arith {
    a: (f64, Option<usize>),
    b: (f64, Option<usize>),
}
impl Case for Arith {
    fn to_json(&self) -> J {
        json!({"a": [self.a.0, self.a.1], "b": [self.b.0, self.b.1]})
    }
    fn from_json(j: &J) -> Result<Self, String> {
        let g = |k: &str| (j[k][0].as_f64().unwrap_or(0.0), j[k][1].as_u64().map(|x| x as usize));
        Ok(Arith { a: g("a"), b: g("b") })
    }
}

fn check_arith(c: &Arith, rec: &mut Rec) -> Verdict {
    let t = unit_table();
    let mk = |(v, u): (f64, Option<usize>)| Number {
        value: v,
        unit: u.map(|i| t[i % t.len()].1),
    };
    let (a, b) = (mk(c.a), mk(c.b));
    rec.nontrivial(key_of(&format!("{c:?}")));
    rec.sample(|| format!("{c:?}"));
    let v = number_arith(a, b, rec);
    if v.is_fail() {
        return v;
    }
    // random magnitudes for conversion, incl. extremes
    if let (Some(ua), Some(ub)) = (a.unit, b.unit) {
        if c.a.0.is_finite() && c.a.0.abs() < 1e300 {
            return convert_check(ua, ub, c.a.0);
        }
    }
    Verdict::Pass
}

/// A product or quotient does not depend on what was computed just before it: all (pair, operator) combinations with
/// a database result, interleaved with ratio-like ones (`meter / foot`, `second * hertz`) in a seed-dependent order,
/// answer what they answer when asked first.
fn muldiv_history(ctx: &mut Ctx) {
    let table = unit_table();
    let show = |r: &Result<&'static Unit, String>| match r {
        Ok(u) => format!("Ok({})", u.name()),
        Err(_) => "Err".to_string(),
    };
    // (a, b, is_mul, lone answer): every combination that yields a unit, plus same-dimension pairs (their quotient has
    // the all-zero dimension) and a stride of the rest
    let mut combos: Vec<(&'static Unit, &'static Unit, bool, String)> = vec![];
    for (i, (_, a)) in table.iter().enumerate() {
        for (j, (_, b)) in table.iter().enumerate() {
            let same_dim = a.dimensions.is_some() && a.dimensions == b.dimensions;
            for mul in [true, false] {
                let r = (if mul { *a * *b } else { *a / *b }).map_err(|e| e.to_string());
                if r.is_ok() || (same_dim && (i * 31 + j) % 7 == 0) || (i * 131 + j * 17) % 997 == 0 {
                    combos.push((*a, *b, mul, show(&r)));
                }
            }
        }
    }
    // a seed-dependent permutation (multiplicative hash order), then walk it twice
    let n = combos.len();
    let mut order: Vec<usize> = (0..n).collect();
    let k = ctx.seed.wrapping_mul(0x9E37_79B9_7F4A_7C15) | 1;
    order.sort_by_key(|i| (*i as u64).wrapping_mul(k).rotate_left(23) ^ k);
    for pass in 0..2 {
        for &i in &order {
            ctx.rec.evals += 1;
            let (a, b, mul, want) = &combos[i];
            let got = show(&(if *mul { *a * *b } else { *a / *b }).map_err(|e| e.to_string()));
            if &got != want {
                ctx.report(
                    "muldiv-history",
                    Verdict::fail("C16:mul-div:depends-on-history", format!("{} {} {} = {got} in a sequence of other products / quotients (pass {pass}), {want} when asked on its own", a.name(), if *mul { "*" } else { "/" }, b.name())),
                    json!({"a": a.name(), "b": b.name(), "mul": mul}),
                );
                return;
            }
        }
    }
    ctx.rec.class_n("mul-div:history-order-combinations", n as u64);
    ctx.rec.nontrivial(key_of(&format!("muldiv-history:{}", ctx.seed)));
}

/// Unit products and quotients asked by several threads at once, each thread repeating its own pair: every answer is
/// the answer a lone thread gets (the look-up shares no mutable state that one thread could see half-updated).
fn concurrent_muldiv(ctx: &mut Ctx) {
    let table = unit_table();
    let name_of = |r: &Result<&'static Unit, String>| match r {
        Ok(u) => format!("Ok({})", u.name()),
        Err(_) => "Err".to_string(),
    };
    // pairs with a product or quotient in the database, found single-threaded (they are few: ~110 of ~196 000)
    let mut pairs: Vec<(&'static Unit, &'static Unit, bool, String)> = vec![];
    for (_, a) in table.iter() {
        for (_, b) in table.iter() {
            for mul in [true, false] {
                let r = if mul { *a * *b } else { *a / *b };
                if r.is_ok() {
                    pairs.push((*a, *b, mul, name_of(&r.map_err(|e| e.to_string()))));
                }
            }
        }
    }
    if pairs.len() < 8 {
        return;
    }
    let rounds = ctx.tier.pick(4, 40) as usize;
    for round in 0..rounds {
        let threads = 8usize;
        let barrier = std::sync::Barrier::new(threads);
        let bad: Vec<String> = std::thread::scope(|s| {
            let hs: Vec<_> = (0..threads)
                .map(|t| {
                    let (pairs, barrier) = (&pairs, &barrier);
                    s.spawn(move || {
                        let (a, b, mul, want) = &pairs[(round * 13 + t * 7) % pairs.len()];
                        barrier.wait();
                        for _ in 0..20_000 {
                            let r = if *mul { *a * *b } else { *a / *b };
                            let got = match &r {
                                Ok(u) => format!("Ok({})", u.name()),
                                Err(_) => "Err".to_string(),
                            };
                            if &got != want {
                                return Some(format!("{} {} {} = {got}, a lone thread gets {want}", a.name(), if *mul { "*" } else { "/" }, b.name()));
                            }
                        }
                        None
                    })
                })
                .collect();
            hs.into_iter().filter_map(|h| h.join().ok().flatten()).collect()
        });
        ctx.rec.evals += 1;
        ctx.rec.class("concurrent:8-threads-mul/div");
        ctx.rec.nontrivial(key_of(&format!("concurrent-muldiv:{round}")));
        if let Some(msg) = bad.first() {
            ctx.report("concurrent-muldiv", Verdict::fail("C16:mul-div:concurrent", msg.clone()), json!({"round": round}));
            break;
        }
    }
}

pub fn run(ctx: &mut Ctx) {
    ctx.rule("enumerated exhaustively: all ordered pairs of database units x 7 magnitudes (+ 5 extreme ones: 1e-300, -1e-305, 1e300, +-INF, checked for success, not-NaN and 1e-6 agreement where the result is a normal number): convert_to is Ok iff units.txt gives both the same dimension vector, equals ((x*sa+oa)-ob)/sb within 1e-9 relative to the operands, and converts back to x; a*b and a/b: when Ok the result is a database unit with dimension = sum/difference and scale within 1e-3 of product/quotient, the combinations with a result (plus ratio-like ones) give the same answers in a seed-dependent interleaved order, and eight threads each repeating its own pair 20 000 times get the lone-thread answer; generated: pairs of Numbers over all units: + and - keep the common unit and the exact sum/difference, fail for two different units (with one bare operand: if accepted, the result carries the one unit in play and the exact value), * and / agree with the unit operators; non-trivial: different units of one dimension / Ok product or quotient / generated Number pair; distinct by names");
    ctx.assume("dimension, scale and offset come from unit-gen/units.txt, not from the table under test; tolerance 1e-9 relative is ~7 orders above the worst rounding observed");
    enumerate(ctx);
    concurrent_muldiv(ctx);
    muldiv_history(ctx);
    let n = unit_table().len();
    ctx.run_sub::<Arith>(
        "number-arith",
        ctx.tier.pick(160_000, 3_200_000),
        &move || {
            let num = || (crate::gen::value::finite_f64(), prop_oneof![1 => Just(None), 3 => (0..n).prop_map(Some)]);
            let same = (crate::gen::value::finite_f64(), crate::gen::value::finite_f64(), prop_oneof![1 => Just(None), 3 => (0..n).prop_map(Some)]).prop_map(|(x, y, u)| Arith { a: (x, u), b: (y, u) });
            bx(prop_oneof![
                2 => (num(), num()).prop_map(|(a, b)| Arith { a, b }),
                2 => same,
            ])
        },
        &check_arith,
    );
}

pub fn replay(kind: &str, case: &J, rec: &mut Rec) -> Verdict {
    match kind {
        "muldiv-history" => {
            let mut c = Ctx::new("C16", crate::runner::Tier::Quick, 1);
            muldiv_history(&mut c);
            if c.violations.is_empty() {
                Verdict::Pass
            } else {
                Verdict::fail("C16:mul-div:depends-on-history", "a product / quotient depends on what was computed before it")
            }
        }
        "concurrent-muldiv" => {
            let mut c = Ctx::new("C16", crate::runner::Tier::Quick, 1);
            concurrent_muldiv(&mut c);
            if c.violations.is_empty() {
                Verdict::Pass
            } else {
                Verdict::fail("C16:mul-div:concurrent", "unit products / quotients differ between threads")
            }
        }
        "number-arith" => Arith::from_json(case).map(|c| check_arith(&c, rec)).unwrap_or_else(|e| Verdict::fail("infra:bad-replay", e)),
        "unit-pair" => {
            let find = |n: &str| unit_table().iter().find(|(_, u)| u.name() == n).map(|(_, u)| *u);
            match (find(case["a"].as_str().unwrap_or("")), find(case["b"].as_str().unwrap_or(""))) {
                (Some(a), Some(b)) => {
                    for x in MAGS {
                        let v = convert_check(a, b, x);
                        if v.is_fail() {
                            return v;
                        }
                    }
                    let v = extreme_check(a, b);
                    if v.is_fail() {
                        return v;
                    }
                    muldiv_check(a, b, rec)
                }
                _ => Verdict::fail("infra:bad-replay", "unknown unit"),
            }
        }
        _ => Verdict::fail("infra:unknown-kind", kind),
    }
}
