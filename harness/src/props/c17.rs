//! C17 — The C API behaves exactly like the Rust API on the same values (model-based, stateful).
//! Sequences run in child processes: a panic inside `extern "C"` aborts the process.

use super::capi::*;
use crate::isolate::{run_probe_with, ProbeStatus};
use crate::runner::{bx, guarded, key_of, panic_sig, seed_bytes, verif_root, Case, Ctx, Rec, Verdict, SHARDS};
use proptest::prelude::*;
use proptest::test_runner::{Config, RngAlgorithm, TestCaseError, TestError, TestRng, TestRunner};
use serde_json::{json, Value as J};
use std::cell::RefCell;
use std::io::Write;
use std::time::Duration;

#[derive(Clone, Debug)]
pub struct Seq(pub Vec<Op>);
impl Case for Seq {
    fn to_json(&self) -> J {
        J::Array(self.0.iter().map(|o| o.to_json()).collect())
    }
    fn from_json(j: &J) -> Result<Self, String> {
        Ok(Seq(j.as_array().ok_or("ops")?.iter().map(Op::from_json).collect::<Result<_, _>>()?))
    }
}

pub fn seq(max: usize) -> BoxedStrategy<Seq> {
    bx(ops(max).prop_map(Seq))
}

#[cfg(hv_asan)]
extern "C" {
    fn __lsan_do_recoverable_leak_check() -> std::os::raw::c_int;
}

/// how often check_seq runs the (expensive, stop-the-world) leak check: every n-th sequence
pub static LEAK_EVERY: std::sync::atomic::AtomicU64 = std::sync::atomic::AtomicU64::new(1);
static SEQ_COUNT: std::sync::atomic::AtomicU64 = std::sync::atomic::AtomicU64::new(0);

/// leak check after a sequence (only in the sanitizer build)
pub fn leak_check() -> bool {
    #[cfg(hv_asan)]
    unsafe {
        return __lsan_do_recoverable_leak_check() != 0;
    }
    #[cfg(not(hv_asan))]
    false
}

pub fn check_seq(s: &Seq, rec: &mut Rec) -> Verdict {
    let mut mutated_then_read = false;
    let mut mutated = false;
    for op in &s.0 {
        if op.is_container_mutation() {
            mutated = true;
        } else if mutated && op.is_container_read() {
            mutated_then_read = true;
        }
        rec.class(&format!("op:{}", op_name(op)));
    }
    let r = guarded(|| run_sequence(&s.0));
    let (v, m) = match r {
        Ok(x) => x,
        Err(p) => return Verdict::fail(format!("C17:{}", panic_sig(&p)), format!("panicked outside the C boundary: {} at {}", p.msg, p.location)),
    };
    if mutated_then_read && m.failing_ops >= 1 {
        rec.nontrivial(key_of(&s.to_json().to_string()));
    }
    rec.class_n("failing-calls(sentinel+message+unchanged)", m.failing_ops);
    for (k, n) in &m.ok_ops {
        rec.class_n(&format!("ok:{k}"), *n);
    }
    rec.class_n("info:error-message-pending-after-a-successful-call", m.soft_unexpected_error_after_success);
    for _ in 0..m.aliasing_skipped {
        rec.excluded("op-with-aliased-handles(container==entry/result)");
    }
    rec.sample(|| crate::props::common::trunc(&s.to_json().to_string(), 400));
    if v.is_fail() {
        return v;
    }
    // which two failing calls: derived from the sequence itself (deterministic)
    let k = key_of(&s.to_json().to_string());
    let e = error_message_is_latest((k & 0xff) as u8, ((k >> 8) & 0xff) as u8);
    rec.class("error-message-latest-failure:checked");
    if e.is_fail() {
        return e;
    }
    // a failing call on another thread whose message is never read before that thread ends: the protocol does not
    // oblige a caller to read it, so whatever the slot holds is released with the thread (seen by the leak check)
    if k % 2 == 0 {
        let which = ((k >> 16) & 0xff) as u8;
        let _ = std::thread::spawn(move || super::capi::failing_call_pub(which)).join();
        rec.class("unread-error-at-thread-exit");
    }
    let n = SEQ_COUNT.fetch_add(1, std::sync::atomic::Ordering::Relaxed) + 1;
    let every = LEAK_EVERY.load(std::sync::atomic::Ordering::Relaxed).max(1);
    if n % every == 0 && leak_check() {
        if every > 1 {
            // some sequence of the last window leaked: the parent re-runs them one by one to find which
            println!("LEAK-IN-WINDOW {every}");
            let _ = std::io::stdout().flush();
            std::process::exit(96);
        }
        return Verdict::fail("C18:leak", "LeakSanitizer reports memory that is no longer reachable after the protocol-following teardown of this sequence");
    }
    Verdict::Pass
}

// ---------------------------------------------------------------------------------------------
// child side: `hv probe capi <prop> <seed> <shard> <cases> <maxops>`

pub fn child(args: &[String]) -> i32 {
    let prop = args.first().cloned().unwrap_or_else(|| "C17".into());
    let seed: u64 = args.get(1).and_then(|s| s.parse().ok()).unwrap_or(1);
    let shard: usize = args.get(2).and_then(|s| s.parse().ok()).unwrap_or(0);
    let cases: u32 = args.get(3).and_then(|s| s.parse().ok()).unwrap_or(100);
    let maxops: usize = args.get(4).and_then(|s| s.parse().ok()).unwrap_or(40);
    if prop == "C18" {
        LEAK_EVERY.store(64, std::sync::atomic::Ordering::Relaxed);
    }
    let strat = seq(maxops);
    let rng = TestRng::from_seed(RngAlgorithm::ChaCha, &seed_bytes(seed, if prop == "C18" { "C18" } else { "C17" }, "capi-seq", shard));
    let cfg = Config {
        cases,
        failure_persistence: None,
        max_shrink_iters: 2000,
        ..Config::default()
    };
    let mut runner = TestRunner::new_with_rng(cfg, rng);
    let rec = RefCell::new(Rec::new());
    let out = std::io::stdout();
    let result = runner.run(&strat, |c| {
        {
            let mut o = out.lock();
            let _ = writeln!(o, "CASE {}", c.to_json());
            let _ = o.flush();
        }
        let mut r = rec.borrow_mut();
        r.eval();
        let v = check_seq(&c, &mut r);
        {
            let mut o = out.lock();
            let _ = writeln!(o, "DONE");
            let _ = o.flush();
        }
        match v {
            Verdict::Pass => Ok(()),
            Verdict::Fail { sig, msg } => {
                r.on = false;
                Err(TestCaseError::fail(format!("{sig} :: {msg}")))
            }
        }
    });
    if let Err(TestError::Fail(_, minimal)) = result {
        let mut scratch = Rec::new();
        scratch.on = false;
        if let Verdict::Fail { sig, msg } = check_seq(&minimal, &mut scratch) {
            println!("VIOL {}", json!({"sig": sig, "msg": msg, "case": minimal.to_json()}));
        }
    }
    if leak_check() {
        println!("LEAK-IN-WINDOW 64");
        let _ = std::io::stdout().flush();
        std::process::exit(96);
    }
    println!("REC {}", rec.borrow().to_json());
    0
}

/// `hv probe capi-one <file>`: one sequence, exit 0 pass / 3 semantic failure (anything else = crash)
pub fn child_one(args: &[String]) -> i32 {
    let Some(path) = args.first() else { return 2 };
    let Ok(text) = std::fs::read_to_string(path) else { return 2 };
    let Ok(j) = serde_json::from_str::<J>(&text) else { return 2 };
    let Ok(s) = Seq::from_json(&j) else { return 2 };
    let mut rec = Rec::new();
    match check_seq(&s, &mut rec) {
        Verdict::Pass => 0,
        Verdict::Fail { sig, msg } => {
            println!("FAIL {sig} :: {msg}");
            3
        }
    }
}

// ---------------------------------------------------------------------------------------------
// parent side

pub struct Isolated {
    pub rec: Rec,
    pub violations: Vec<(Verdict, J)>,
    pub inconclusive: Vec<String>,
}

fn run_one(exe: &Option<String>, case: &J, env: &[(&str, &str)]) -> (ProbeStatus, String, String) {
    let dir = verif_root().join("work");
    let _ = std::fs::create_dir_all(&dir);
    let path = dir.join(format!("capi-one-{}-{:016x}.json", std::process::id(), key_of(&case.to_string())));
    let _ = std::fs::write(&path, case.to_string());
    let r = run_probe_with(exe.as_deref(), &["capi-one".to_string(), path.display().to_string()], None, Duration::from_secs(60), env);
    let _ = std::fs::remove_file(&path);
    (r.status, r.stdout, r.stderr_tail)
}


fn crash_sig(prop: &str, status: &ProbeStatus, stderr: &str) -> String {
    let kind = if stderr.contains("heap-use-after-free") {
        "asan:heap-use-after-free"
    } else if stderr.contains("double-free") {
        "asan:double-free"
    } else if stderr.contains("heap-buffer-overflow") {
        "asan:heap-buffer-overflow"
    } else if stderr.contains("AddressSanitizer") {
        "asan:other"
    } else if stderr.contains("LeakSanitizer") {
        "lsan:leak"
    } else if stderr.contains("panic in a function that cannot unwind") || stderr.contains("panicked") {
        "abort:panic-inside-extern-C"
    } else if stderr.contains("stack overflow") {
        "abort:stack-overflow"
    } else {
        "abort"
    };
    format!("{prop}:crash:{kind}:{status:?}")
}

/// a crash, or a leak reported by the child for this single sequence
fn is_bad(st: &ProbeStatus, stdout: &str) -> bool {
    !matches!(st, ProbeStatus::Exit(0) | ProbeStatus::Exit(3)) || stdout.contains("C18:leak")
}

/// Shrink a crashing sequence by deleting operations while it still crashes (each try in a fresh process).
fn shrink_crash(exe: &Option<String>, case: &J, env: &[(&str, &str)]) -> J {
    let mut ops: Vec<J> = case.as_array().cloned().unwrap_or_default();
    let mut budget = 120;
    let mut chunk = (ops.len() / 2).max(1);
    while chunk >= 1 && budget > 0 {
        let mut i = 0;
        let mut progressed = false;
        while i < ops.len() && budget > 0 {
            let mut cand = ops.clone();
            let end = (i + chunk).min(cand.len());
            cand.drain(i..end);
            if cand.is_empty() {
                i += chunk;
                continue;
            }
            budget -= 1;
            let (st, so, _) = run_one(exe, &J::Array(cand.clone()), env);
            if is_bad(&st, &so) {
                ops = cand;
                progressed = true;
            } else {
                i += chunk;
            }
        }
        if chunk == 1 && !progressed {
            break;
        }
        if !progressed {
            chunk /= 2;
        }
    }
    J::Array(ops)
}

pub fn run_isolated(prop: &'static str, seed: u64, total: u64, maxops: usize, exe: Option<String>, env: Vec<(String, String)>) -> Isolated {
    let per = (total / SHARDS as u64).max(1);
    let out = std::sync::Mutex::new(Isolated {
        rec: Rec::new(),
        violations: vec![],
        inconclusive: vec![],
    });
    std::thread::scope(|s| {
        for shard in 0..SHARDS {
            let (out, exe, env) = (&out, &exe, &env);
            s.spawn(move || {
                let envr: Vec<(&str, &str)> = env.iter().map(|(a, b)| (a.as_str(), b.as_str())).collect();
                let args = vec!["capi".to_string(), prop.to_string(), seed.to_string(), shard.to_string(), per.to_string(), maxops.to_string()];
                let r = run_probe_with(exe.as_deref(), &args, None, Duration::from_secs(3600), &envr);
                let mut rec = Rec::new();
                let mut viol: Vec<(Verdict, J)> = vec![];
                let mut inconclusive = vec![];
                let mut last_case: Option<J> = None;
                let mut done = true;
                let mut finished = false;
                for line in r.stdout.lines() {
                    if let Some(rest) = line.strip_prefix("CASE ") {
                        last_case = serde_json::from_str(rest).ok();
                        done = false;
                    } else if line == "DONE" {
                        done = true;
                    } else if let Some(rest) = line.strip_prefix("REC ") {
                        if let Ok(j) = serde_json::from_str::<J>(rest) {
                            rec = Rec::from_json(&j);
                            finished = true;
                        }
                    } else if let Some(rest) = line.strip_prefix("VIOL ") {
                        if let Ok(j) = serde_json::from_str::<J>(rest) {
                            viol.push((Verdict::fail(j["sig"].as_str().unwrap_or("?"), j["msg"].as_str().unwrap_or("")), j["case"].clone()));
                        }
                    }
                }
                if !finished {
                    // the child died (or found a leak in its last window): find the sequence, confirm it alone in a fresh process
                    let leak_window = r.stdout.contains("LEAK-IN-WINDOW");
                    let suspects: Vec<J> = if leak_window {
                        let all: Vec<J> = r.stdout.lines().filter_map(|l| l.strip_prefix("CASE ")).filter_map(|x| serde_json::from_str(x).ok()).collect();
                        all.into_iter().rev().take(64).collect()
                    } else {
                        match (&last_case, done) {
                            (Some(c), false) => vec![c.clone()],
                            _ => vec![],
                        }
                    };
                    let mut found = false;
                    for case in &suspects {
                        let (st, so, se) = run_one(exe, case, &envr);
                        if is_bad(&st, &so) {
                            let small = shrink_crash(exe, case, &envr);
                            let (st2, so2, se2) = run_one(exe, &small, &envr);
                            let (st_f, so_f, se_f) = if is_bad(&st2, &so2) { (st2, so2, se2) } else { (st, so, se) };
                            let v = if so_f.contains("C18:leak") {
                                Verdict::fail("C18:leak", format!("LeakSanitizer: memory allocated by this call sequence is unreachable after the protocol-following teardown\n{se_f}"))
                            } else {
                                Verdict::fail(crash_sig(prop, &st_f, &se_f), format!("the process executing this call sequence died: {st_f:?}\n{}", se_f))
                            };
                            viol.push((v, small));
                            found = true;
                            break;
                        }
                    }
                    if !found {
                        inconclusive.push(format!("shard {shard} ended abnormally ({:?}, leak window: {leak_window}) but no single sequence reproduces it alone: {}", r.status, r.stderr_tail));
                    }
                }
                let mut o = out.lock().unwrap();
                o.rec.merge(rec);
                o.violations.extend(viol);
                o.inconclusive.extend(inconclusive);
            });
        }
    });
    out.into_inner().unwrap()
}

pub fn run(ctx: &mut Ctx) {
    ctx.rule("generated: sequences of 1-40 C API calls over a pool of 8 value handles and 3 filter handles: every constructor, predicate and getter, list push/get/set/remove/len, dict insert/get/remove/keys/len, grid from rows(/meta)/len/row-at, datetime getters, to/from Zinc and JSON, filter parse/match, last_error_message, destroy; arguments valid, wrong-kind, null, out-of-range (len, len+1, usize::MAX), unknown unit/zone, invalid text, non-UTF-8; oracle after every call: the result equals the same operation on plain Rust values (model), a failure gives the documented sentinel and exactly one retrievable error message, and every pooled handle still equals its model value; executed in child processes (an abort is attributed to the sequence in flight, confirmed alone and shrunk by deleting calls); non-trivial: a container mutation followed by a read of a container and at least one failing call; distinct by sequence");
    ctx.assume("calls whose container and entry/result handle are the same handle are skipped (aliased &mut); make_tz_datetime may read its fields as UTC or as the zone's wall clock; a rows list mixing dicts and non-dicts may be rejected or reduced to its dicts; Date years mostly 0-9999, also negative and five-digit ones");
    let total = ctx.tier.pick(48_000, 960_000);
    let iso = run_isolated("C17", ctx.seed, total, 40, None, vec![]);
    ctx.rec.merge(iso.rec);
    for (v, c) in iso.violations {
        ctx.report("capi-seq", v, c);
    }
    ctx.inconclusive.extend(iso.inconclusive);
}

pub fn replay(kind: &str, case: &J, _rec: &mut Rec) -> Verdict {
    match kind {
        "capi-seq" => {
            let (st, so, se) = run_one(&None, case, &[]);
            match st {
                ProbeStatus::Exit(0) => Verdict::Pass,
                ProbeStatus::Exit(3) => {
                    let line = so.lines().find(|l| l.starts_with("FAIL ")).unwrap_or("FAIL ?");
                    let (sig, msg) = line[5..].split_once(" :: ").unwrap_or((&line[5..], ""));
                    Verdict::fail(sig, msg)
                }
                other => Verdict::fail(crash_sig("C17", &other, &se), format!("the process executing this call sequence died: {other:?}\n{se}")),
            }
        }
        _ => Verdict::fail("infra:unknown-kind", kind),
    }
}
