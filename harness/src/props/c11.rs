//! C11 — Re-encoding decoded text is stable, stream decoding equals buffer decoding, and the
//! lazy grid iterator hands out rows without reading ahead.

use super::c03::{corpus_file, Doc};
use super::c04::{choices, spellable};
use super::common::*;
use crate::gen::mutate::{self, JSON_TOKENS, ZINC_TOKENS};
use crate::gen::readers::{plan, PlanReader, ReaderPlan};
use crate::gen::value::{scalar, top_value, value, GenCfg};
use crate::refimpl::{hayson as rh, zinc as rz};
use crate::runner::{bx, fueled, guarded, key_of, panic_sig, Case, Ctx, Rec, Verdict};
use crate::rval::*;
use libhaystack::encoding::zinc::decode::parser::Parser;
use libhaystack::encoding::zinc::decode::{from_str, parse_grid, parse_grid_iterator};
use libhaystack::val::Value;
use proptest::prelude::*;
use serde_json::{json, Value as J};

fn show(bytes: &[u8]) -> String {
    trunc(&format!("{:?}", String::from_utf8_lossy(bytes)), 240)
}

// ---------------------------------------------------------------------------------------------
// (a) fixed point

/// local mean time offsets (before a zone adopted standard time) carry seconds, which neither
/// encoding can write (finding F25, repaired in /repo c786ff0): counted as a class
fn has_offset_with_seconds(v: &RVal) -> bool {
    let mut bad = false;
    v.walk(&mut |n| {
        if let RVal::DateTime(d) = n {
            bad |= d.offset % 60 != 0;
        }
    });
    bad
}

fn zinc_fixed_point(text: &str, rec: &mut Rec) -> Verdict {
    zinc_fixed_point_opt(text, rec, false)
}

fn zinc_fixed_point_opt(text: &str, rec: &mut Rec, strict: bool) -> Verdict {
    let d1 = match fueled(text.len(), || from_str(text)) {
        Ok(Ok(v)) => v,
        Ok(Err(_)) => {
            rec.class("zinc:not-accepted");
            return Verdict::Pass;
        }
        Err(p) => return Verdict::fail(format!("C11:zinc-fixpoint:decode-{}", panic_sig(&p)), format!("decoder crashed on {}", show(text.as_bytes()))),
    };
    rec.class("zinc:accepted");
    let r1 = project(&d1);
    if has_offset_with_seconds(&r1) {
        rec.class("timestamp-whose-zone-offset-has-seconds");
    }
    let _ = strict;
    let e1 = match zinc_encode(&d1) {
        Ok(t) => t,
        Err(f) => return prefix_sig("C11:zinc-fixpoint:encode(d1)", f, &shape(&r1)),
    };
    if e1 != text {
        rec.nontrivial(key_of(text));
        rec.class("zinc:non-canonical-input");
    }
    let d2 = match zinc_decode(&e1) {
        Ok(v) => v,
        Err(f) => {
            return match prefix_sig("C11:zinc-fixpoint:decode(encode(d1))", f, &shape(&r1)) {
                Verdict::Fail { sig, msg } => Verdict::Fail { sig, msg: format!("{msg}; original text {}", show(text.as_bytes())) },
                p => p,
            }
        }
    };
    let r2 = project(&d2);
    let v = diff_verdict("C11:zinc-fixpoint:d1-vs-d2", &r1, &r2, &format!("{} => {}", trunc(text, 150), trunc(&e1, 150)), rec);
    if v.is_fail() {
        return v;
    }
    let e2 = match zinc_encode(&d2) {
        Ok(t) => t,
        Err(f) => return prefix_sig("C11:zinc-fixpoint:encode(d2)", f, &shape(&r2)),
    };
    let d3 = match zinc_decode(&e2) {
        Ok(v) => v,
        Err(f) => return prefix_sig("C11:zinc-fixpoint:decode(encode(d2))", f, &shape(&r2)),
    };
    diff_verdict("C11:zinc-fixpoint:d2-vs-d3", &r2, &project(&d3), &e2, rec)
}

fn hayson_fixed_point(text: &str, rec: &mut Rec) -> Verdict {
    hayson_fixed_point_opt(text, rec, false)
}

fn hayson_fixed_point_opt(text: &str, rec: &mut Rec, strict: bool) -> Verdict {
    let dec = |t: &str| guarded(|| serde_json::from_str::<Value>(t));
    let enc = |v: &Value| guarded(|| serde_json::to_string(v));
    let d1 = match dec(text) {
        Ok(Ok(v)) => v,
        Ok(Err(_)) => {
            rec.class("hayson:not-accepted");
            return Verdict::Pass;
        }
        Err(p) => return Verdict::fail(format!("C11:hayson-fixpoint:decode-{}", panic_sig(&p)), format!("decoder crashed on {}", show(text.as_bytes()))),
    };
    rec.class("hayson:accepted");
    let r1 = project(&d1);
    if has_offset_with_seconds(&r1) {
        rec.class("timestamp-whose-zone-offset-has-seconds");
    }
    let _ = strict;
    let e1 = match enc(&d1) {
        Ok(Ok(t)) => t,
        Ok(Err(e)) => return Verdict::fail(format!("C11:hayson-fixpoint:encode(d1):error:{}", shape(&r1)), format!("{e}; original {}", show(text.as_bytes()))),
        Err(p) => return Verdict::fail(format!("C11:hayson-fixpoint:encode(d1):{}", panic_sig(&p)), format!("{} at {}", p.msg, p.location)),
    };
    if e1 != text {
        rec.nontrivial(key_of(text));
        rec.class("hayson:non-canonical-input");
    }
    let d2 = match dec(&e1) {
        Ok(Ok(v)) => v,
        Ok(Err(e)) => {
            return Verdict::fail(
                format!("C11:hayson-fixpoint:decode(encode(d1)):error:{}", shape(&r1)),
                format!("re-encoded text {} is rejected: {e}; original {}", trunc(&e1, 200), show(text.as_bytes())),
            )
        }
        Err(p) => return Verdict::fail(format!("C11:hayson-fixpoint:decode(encode(d1)):{}", panic_sig(&p)), p.msg),
    };
    let r2 = project(&d2);
    let v = diff_verdict("C11:hayson-fixpoint:d1-vs-d2", &r1, &r2, &format!("{} => {}", trunc(text, 150), trunc(&e1, 150)), rec);
    if v.is_fail() {
        return v;
    }
    let e2 = match enc(&d2) {
        Ok(Ok(t)) => t,
        _ => return Verdict::fail(format!("C11:hayson-fixpoint:encode(d2):{}", shape(&r2)), "second encode failed"),
    };
    match dec(&e2) {
        Ok(Ok(d3)) => diff_verdict("C11:hayson-fixpoint:d2-vs-d3", &r2, &project(&d3), &e2, rec),
        _ => Verdict::fail(format!("C11:hayson-fixpoint:decode(encode(d2)):{}", shape(&r2)), "second decode failed"),
    }
}

fn check_fixpoint(d: &Doc, rec: &mut Rec) -> Verdict {
    rec.class(&format!("origin:{}", d.origin));
    let Ok(text) = std::str::from_utf8(&d.bytes) else {
        rec.class("input:not-utf8");
        return Verdict::Pass;
    };
    rec.sample(|| format!("[{}] {}", d.origin, show(&d.bytes)));
    let strict = d.origin.starts_with("strict:");
    if d.origin.contains("hayson") {
        hayson_fixed_point_opt(text, rec, strict)
    } else {
        let v = zinc_fixed_point_opt(text, rec, strict);
        if v.is_fail() {
            return v;
        }
        check_chunking(&d.bytes, &d.plan, rec)
    }
}

// ---------------------------------------------------------------------------------------------
// (b) chunk independence

fn check_chunking(bytes: &[u8], plan: &ReaderPlan, rec: &mut Rec) -> Verdict {
    // chunk independence is about how the bytes are *split*: a plan that also makes the reader fail (the C03 fuzz
    // input byte can ask for time-outs) is reduced to its splitting part - a reader that fails may be answered with an error
    let plan = &ReaderPlan { fail_at: None, fail_forever: false, fail_every: 0, ..plan.clone() };
    let Ok(text) = std::str::from_utf8(bytes) else { return Verdict::Pass };
    let whole = match fueled(text.len(), || from_str(text)) {
        Ok(r) => r.ok().map(|v| project(&v)),
        Err(p) => return Verdict::fail(format!("C11:chunking:decode-{}", panic_sig(&p)), format!("decoder crashed on {}", show(bytes))),
    };
    let chunked = match fueled(bytes.len(), || {
        let mut rd = PlanReader::new(bytes, plan);
        let mut parser = Parser::make(&mut rd)?;
        parser.parse_value()
    }) {
        Ok(r) => r.ok().map(|v| project(&v)),
        Err(p) => return Verdict::fail(format!("C11:chunking:reader-decode-{}", panic_sig(&p)), format!("decoder crashed on {} with plan {:?}", show(bytes), plan)),
    };
    if plan.splits() {
        rec.class("chunking:split-reader");
    }
    match (&whole, &chunked) {
        (None, None) => {}
        (Some(a), Some(b)) => {
            if plan.splits() && bytes.len() > 1 {
                rec.nontrivial(key_of(&format!("{}{:?}", text, plan)));
            }
            let v = diff_verdict("C11:chunking:value", a, b, text, rec);
            if v.is_fail() {
                return v;
            }
            if a != b {
                return Verdict::fail("C11:chunking:value-not-identical", format!("buffer and reader decoding differ on {}", show(bytes)));
            }
        }
        (a, b) => {
            return Verdict::fail(
                "C11:chunking:accept-vs-reject",
                format!("from_str accepted={} but reader (plan {:?}) accepted={} on {}", a.is_some(), plan, b.is_some(), show(bytes)),
            )
        }
    }
    // rows through the lazy iterator == rows of parse_grid
    if let Some(RVal::Grid(g)) = &whole {
        let eager = match fueled(bytes.len(), || {
            let mut rd = std::io::Cursor::new(bytes);
            let mut parser = Parser::make(&mut rd)?;
            parse_grid(&mut parser)
        }) {
            Ok(Ok(gr)) => project_grid(&gr),
            _ => return Verdict::fail("C11:chunking:parse_grid-rejects", format!("from_str returned a grid but parse_grid fails on {}", show(bytes))),
        };
        if &eager != g {
            return Verdict::fail("C11:chunking:parse_grid-differs", format!("parse_grid differs from from_str on {}", show(bytes)));
        }
        let lazy = fueled(bytes.len(), || {
            let mut rd = PlanReader::new(bytes, plan);
            let mut parser = Parser::make(&mut rd)?;
            let it = parse_grid_iterator(&mut parser)?;
            let mut rows = vec![];
            for r in it {
                rows.push(r?);
            }
            Ok::<_, std::io::Error>(rows)
        });
        match lazy {
            Ok(Ok(rows)) => {
                let rows: Vec<RDict> = rows
                    .iter()
                    .map(|d| match project(&Value::Dict(d.clone())) {
                        RVal::Dict(x) => x,
                        _ => unreachable!(),
                    })
                    .collect();
                if rows != g.rows {
                    return Verdict::fail(
                        "C11:chunking:iterator-rows-differ",
                        format!("lazy iterator yields {} rows, parse_grid {} (or different content) on {}", rows.len(), g.rows.len(), show(bytes)),
                    );
                }
                rec.class("chunking:iterator-rows-compared");
            }
            Ok(Err(e)) => return Verdict::fail("C11:chunking:iterator-rejects", format!("lazy iterator fails ({e}) where parse_grid succeeds on {}", show(bytes))),
            Err(p) => return Verdict::fail(format!("C11:chunking:iterator-{}", panic_sig(&p)), format!("{} at {}", p.msg, p.location)),
        }
    }
    Verdict::Pass
}

// ---------------------------------------------------------------------------------------------
// (c) laziness

#[derive(Clone, Debug)]
pub struct LazyGrid {
    cols: Vec<String>,
    /// per row, per column: None = empty cell
    rows: Vec<Vec<Option<RVal>>>,
    choices: Vec<u8>,
    crlf: bool,
    plan: ReaderPlan,
}

impl Case for LazyGrid {
    fn to_json(&self) -> J {
        json!({
            "cols": self.cols,
            "rows": self.rows.iter().map(|r| r.iter().map(|c| c.as_ref().map(to_json)).collect::<Vec<_>>()).collect::<Vec<_>>(),
            "choices": self.choices, "crlf": self.crlf, "plan": self.plan.to_json(),
        })
    }
    fn from_json(j: &J) -> Result<Self, String> {
        let mut rows = vec![];
        for r in j["rows"].as_array().ok_or("rows")? {
            let mut row = vec![];
            for c in r.as_array().ok_or("row")? {
                row.push(if c.is_null() { None } else { Some(from_json(c)?) });
            }
            rows.push(row);
        }
        Ok(LazyGrid {
            cols: j["cols"].as_array().ok_or("cols")?.iter().map(|x| x.as_str().unwrap_or("a").to_string()).collect(),
            rows,
            choices: j["choices"].as_array().map(|a| a.iter().map(|x| x.as_u64().unwrap_or(0) as u8).collect()).unwrap_or_default(),
            crlf: j["crlf"].as_bool().unwrap_or(false),
            plan: ReaderPlan::from_json(&j["plan"]),
        })
    }
}

/// length of the first *token* of a cell as the lexer sees it
fn first_token_len(cell_text: &str, v: &RVal) -> usize {
    match v {
        RVal::List(_) | RVal::Dict(_) | RVal::Grid(_) => 1,
        _ => cell_text.len(),
    }
}

fn check_lazy(c: &LazyGrid, rec: &mut Rec) -> Verdict {
    let nl = if c.crlf { "\r\n" } else { "\n" };
    let mut ch = rz::Ch::new(&c.choices);
    let mut text = format!("ver:\"3.0\"{nl}{}{nl}", c.cols.join(","));
    // row_end[k] = offset just after row k's newline; next_tok_end[k] = end of the first token after row k
    let mut row_end = vec![];
    let mut first_tok = vec![];
    for row in &c.rows {
        let mut first: Option<usize> = None;
        for (i, cell) in row.iter().enumerate() {
            if i > 0 {
                text.push(',');
            }
            let mut t = String::new();
            match cell {
                None => {
                    if c.cols.len() == 1 {
                        t.push('N');
                    }
                }
                Some(v) => rz::write_value(v, &mut ch, &mut t, false),
            }
            if i == 0 {
                first = Some(match cell {
                    Some(v) => first_token_len(&t, v),
                    None => 1,
                });
            }
            text.push_str(&t);
        }
        text.push_str(nl);
        row_end.push(text.len());
        first_tok.push(first.unwrap_or(1));
    }
    let bytes = text.as_bytes();
    if c.rows.len() >= 3 {
        rec.nontrivial(key_of(&text));
    }
    rec.class(&format!("lazy:rows={}", c.rows.len().min(8)));
    rec.sample(|| format!("lazy grid {}", show(bytes)));
    const SLACK: usize = 16;
    let r = fueled(bytes.len(), || -> Verdict {
        let mut rd = PlanReader::new(bytes, &c.plan);
        let consumed = rd.consumed.clone();
        let mut parser = match Parser::make(&mut rd) {
            Ok(p) => p,
            Err(e) => return Verdict::fail("C11:lazy:make", format!("{e} on {}", show(bytes))),
        };
        let it = match parse_grid_iterator(&mut parser) {
            Ok(it) => it,
            Err(e) => return Verdict::fail("C11:lazy:header-rejected", format!("{e} on {}", show(bytes))),
        };
        let mut k = 0usize;
        for row in it {
            match row {
                Err(e) => return Verdict::fail("C11:lazy:row-rejected", format!("row {k}: {e} on {}", show(bytes))),
                Ok(_) => {
                    if k >= row_end.len() {
                        return Verdict::fail("C11:lazy:too-many-rows", format!("iterator yields more than {} rows on {}", row_end.len(), show(bytes)));
                    }
                    let next_tok = first_tok.get(k + 1).copied().unwrap_or(0);
                    let bound = row_end[k] + next_tok + SLACK;
                    let used = consumed.get();
                    if used > bound {
                        return Verdict::fail(
                            "C11:lazy:read-ahead",
                            format!(
                                "row {k} was handed out after {used} bytes were consumed; the row ends at {} and the first token after it at {} (+{SLACK} look-ahead allowed); document of {} bytes: {}",
                                row_end[k],
                                row_end[k] + next_tok,
                                bytes.len(),
                                show(bytes)
                            ),
                        );
                    }
                    k += 1;
                }
            }
        }
        if k != c.rows.len() {
            return Verdict::fail("C11:lazy:row-count", format!("iterator yields {k} rows, document has {} on {}", c.rows.len(), show(bytes)));
        }
        // the same rows in the same order however the iterator is driven: nth / skip / step_by land on the rows that
        // stepping one by one reaches (rows skipped over may hold nested grids, lists, strings with line breaks)
        let all: Vec<RVal> = match from_str(&text) {
            Ok(Value::Grid(g)) => g.rows.iter().map(|r| project(&Value::Dict(r.clone()))).collect(),
            _ => return Verdict::Pass,
        };
        let n = all.len();
        if n >= 2 {
            let j = (key_of(&text) as usize) % n;
            let drive = |how: u8| -> Result<Vec<RVal>, String> {
                let mut rd = PlanReader::new(bytes, &c.plan);
                let mut parser = Parser::make(&mut rd).map_err(|e| e.to_string())?;
                let mut it = parse_grid_iterator(&mut parser).map_err(|e| e.to_string())?;
                let picked: Vec<_> = match how {
                    0 => it.nth(j).into_iter().collect(),
                    1 => it.skip(j).collect(),
                    _ => it.step_by(2 + j % 3).collect(),
                };
                picked.into_iter().map(|r| r.map(|d| project(&Value::Dict(d))).map_err(|e| e.to_string())).collect()
            };
            let expect: [Vec<RVal>; 3] = [vec![all[j].clone()], all[j..].to_vec(), all.iter().step_by(2 + j % 3).cloned().collect()];
            for (how, name) in [(0u8, "nth"), (1, "skip"), (2, "step_by")] {
                match drive(how) {
                    Ok(got) if got == expect[how as usize] => {}
                    Ok(got) => return Verdict::fail(format!("C11:lazy:{name}:rows-differ"), format!("{name}({j}) over the row iterator yields {} rows that differ from the rows reached one by one ({} expected) on {}", got.len(), expect[how as usize].len(), show(bytes))),
                    Err(e) => return Verdict::fail(format!("C11:lazy:{name}:row-rejected"), format!("{name}({j}) over the row iterator: {e} on {}", show(bytes))),
                }
            }
        }
        Verdict::Pass
    });
    match r {
        Ok(v) => v,
        Err(p) => Verdict::fail(format!("C11:lazy:{}", panic_sig(&p)), format!("{} at {} on {}", p.msg, p.location, show(bytes))),
    }
}

fn lazy_grid() -> BoxedStrategy<LazyGrid> {
    let cfg = GenCfg::wf(1);
    let cell = prop_oneof![
        1 => Just(None),
        5 => scalar(cfg).prop_map(Some),
        1 => value(cfg).prop_map(Some),
    ];
    bx((1usize..=4, prop::collection::vec(prop::collection::vec(cell, 4), 0..12), choices(), any::<bool>(), plan(false)).prop_map(
        |(ncols, rows, choices, crlf, plan)| {
            let mut r = Rec::new();
            r.on = false;
            let cols: Vec<String> = ["a", "b", "c", "d"][..ncols].iter().map(|s| s.to_string()).collect();
            let rows = rows
                .into_iter()
                .map(|row| row.into_iter().take(ncols).map(|c| c.map(|v| spellable(&v, &mut r))).collect::<Vec<_>>())
                .collect();
            LazyGrid { cols, rows, choices, crlf, plan }
        },
    ))
}

/// Large grids: laziness must not depend on the size of what follows.
fn check_lazy_large(rows: usize, rec: &mut Rec) -> Verdict {
    let c = LazyGrid {
        cols: vec!["a".into(), "b".into()],
        rows: (0..rows).map(|i| vec![Some(RVal::num(i as f64)), Some(RVal::Str(format!("row {i}")))]).collect(),
        choices: vec![],
        crlf: false,
        plan: ReaderPlan::default(),
    };
    check_lazy(&c, rec)
}

// ---------------------------------------------------------------------------------------------

fn accepted_docs(depth: u32) -> BoxedStrategy<Doc> {
    let zdoc = move || {
        bx((top_value(GenCfg::wf(depth)), choices()).prop_map(|(v, c)| {
            let mut r = Rec::new();
            r.on = false;
            rz::write(&spellable(&v, &mut r), &mut rz::Ch::new(&c)).into_bytes()
        }))
    };
    let hdoc = move || bx((top_value(GenCfg::wf(depth)), choices()).prop_map(|(v, c)| rh::write(&v, &mut rz::Ch::new(&c)).into_bytes()));
    prop_oneof![
        4 => (zdoc(), plan(false)).prop_map(|(bytes, plan)| Doc { bytes, plan, origin: "zinc-spelled".into() }),
        4 => (zdoc(), mutate::mutations(2), plan(false)).prop_map(|(mut bytes, m, plan)| { mutate::apply_all(&mut bytes, &m, ZINC_TOKENS); Doc { bytes, plan, origin: "zinc-mutant".into() } }),
        3 => hdoc().prop_map(|bytes| Doc { bytes, plan: ReaderPlan::default(), origin: "hayson-spelled".into() }),
        3 => (hdoc(), mutate::mutations(2)).prop_map(|(mut bytes, m)| { mutate::apply_all(&mut bytes, &m, JSON_TOKENS); Doc { bytes, plan: ReaderPlan::default(), origin: "hayson-mutant".into() } }),
    ]
    .boxed()
}

fn corpus_fixpoints(ctx: &mut Ctx) {
    for (i, name) in ["defs.zinc", "points.zinc", "points.json"].iter().enumerate() {
        let bytes = corpus_file(i);
        if bytes.is_empty() {
            continue;
        }
        let Ok(text) = std::str::from_utf8(bytes) else { continue };
        ctx.rec.evals += 1;
        let mut rec = Rec::new();
        let v = if i == 2 { hayson_fixed_point(text, &mut rec) } else { zinc_fixed_point(text, &mut rec) };
        ctx.rec.class(&format!("corpus-file-fixpoint:{name}"));
        ctx.rec.nontrivial(key_of(name));
        ctx.report("corpus-fixpoint", v, json!({"file": name}));
        if i != 2 {
            // chunked decode of the whole file, and iterator rows == parse_grid rows
            let plan = ReaderPlan { chunks: vec![7, 1, 64, 3], interrupt_every: 5, fail_at: None, fail_forever: false, fail_every: 0, fault_kind: 0 };
            ctx.rec.evals += 1;
            let v = check_chunking(bytes, &plan, &mut rec);
            ctx.report("corpus-chunking", v, json!({"file": name}));
        }
    }
}

/// Legal spellings at the edges of the grammar that the structured generators do not write (leap seconds,
/// separators inside exponents, zero offsets in named zones, old grid versions, ...). Each is offered bare,
/// inside a list, as a dict tag and as a grid cell; rejected ones only count as a class.
const ZINC_EDGE_SPELLINGS: &[&str] = &[
    "\u{feff}42", "\u{feff}[1]", "\u{feff}ver:\"3.0\"\na\n1\n", " 42", "\t[1]", "\n42", "\r\n[1]", "\u{a0}42", "42 ", "42\n", "42\n\n", "[1]\u{feff}",
    "23:59:60", "23:59:60.5", "12:34:60", "00:00:60.999999999", "2016-12-31T23:59:60Z", "2016-12-31T23:59:60Z UTC", "2016-12-31T18:59:60-05:00 New_York",
    "1e1_0", "-2.5E+1_2", "7e-3_00", "1_500e0_3kW", "1_0", "1_000.000_1", "-0", "-0.0", "0e0", "1E0", "5e-324", "1.7976931348623157e308", "9223372036854775808", "9999999999999999999", "0.1e1kW",
    "2021-01-15T12:00:00Z London", "2021-01-15T12:00:00+00:00 London", "2021-01-15T12:00:00Z Reykjavik", "2021-10-31T01:30:00+00:00 London", "2021-10-31T01:30:00+01:00 London",
    "2021-11-07T01:30:00-05:00 New_York", "2021-11-07T01:30:00-04:00 New_York", "1971-06-01T11:15:00-00:45 Monrovia", "1900-01-01T00:00:00-00:01 London", "0001-01-02T00:00:00Z UTC", "9998-12-30T23:59:59.999999999Z",
    "2021-06-01T12:00:00-02:30 St_Johns", "2021-06-01T12:00:00+05:45 Kathmandu", "2021-06-01T12:00:00+13:00 Tongatapu", "2021-06-01T12:00:00+14:00 Kiritimati", "2021-06-01T12:00:00-11:00 Pago_Pago",
    "M(\"x\")", "T(\"x\")", "NA(\"x\")", "INF(\"x\")", "Bin(\"text/plain\")", "C(0,0)", "C(-90,-180)", "C(1e1,1_0)", "@a \"\"", "@a \"a\"", "`a b`", "`\\`b`", "\"\\u00e9\\uD83D\\uDE00\"", "\"$x ${y}\"", "^a:b-c.d~e",
    "[]", "[ ]", "{}", "{ }", "[,]", "[1,]", "{a:N}", "{a b:1 c}", "{a,b:1,c}", "[[],{},[{}]]",
    "ver:\"2.0\"\na\n1\n", "ver:\"3\\\"0\"\na\n1\n", "ver:\"2.0\\\\\"\na\n1\n", "[<<\nver:\"x\\\"y\"\na\n1\n>>]", "ver:\"\"\na\n", "ver:\"3.0\\n\"\na\n1\n", "ver:\"3.0\" a b:1\na c,b\n1,N\n,\n", "ver:\"3.0\"\nempty\n", "ver:\"3.0\"\na\n\n", "ver:\"3.0\"\r\na\r\n1\r\n", "ver:\"3.0\"\na\n<<\nver:\"3.0\"\nb\n2\n>>\n",
];
const HAYSON_EDGE_SPELLINGS: &[&str] = &[
    r#"{"_kind":"time","val":"23:59:60"}"#, r#"{"_kind":"time","val":"23:59:60.5"}"#, r#"{"_kind":"dateTime","val":"2016-12-31T23:59:60Z"}"#,
    r#"{"_kind":"number","val":1e2}"#, r#"{"_kind":"number","val":1E+2,"unit":"kW"}"#, r#"{"_kind":"number","val":-0.0}"#, r#"{"_kind":"number","val":"-INF"}"#, r#"{"_kind":"number","val":"NaN"}"#, "1e400", "-0", "18446744073709551616", "0.1e-7",
    r#"{"_kind":"dateTime","val":"2021-01-15T12:00:00Z","tz":"London"}"#, r#"{"_kind":"dateTime","val":"2021-11-07T01:30:00-05:00","tz":"New_York"}"#, r#"{"_kind":"dateTime","val":"1971-06-01T11:15:00-00:45","tz":"Monrovia"}"#,
    r#"{"_kind":"grid","meta":{"ver":"2.0"},"cols":[{"name":"a"}],"rows":[{"a":1}]}"#, r#"{"_kind":"grid","meta":{"ver":"2.0","x":1},"cols":[{"name":"a"}],"rows":[]}"#, r#"{"_kind":"grid","cols":[{"name":"a"}],"rows":[{"a":1,"extra":2}]}"#, r#"{"_kind":"grid","meta":{},"cols":[],"rows":[{"a":1}]}"#,
    r#"{"_kind":"ref","val":"a","dis":"a"}"#, r#"{"_kind":"ref","val":"a","dis":""}"#, r#"{"_kind":"xstr","type":"Foo","val":"a\u0000b"}"#, r#"{"_kind":"dict"}"#, r#"{"a":null}"#, r#"["m:","n:42","s:x","r:a b"]"#, r#"{"_kind":"uri","val":"m:"}"#,
];

fn edge_spellings(ctx: &mut Ctx) {
    for (i, t) in ZINC_EDGE_SPELLINGS.iter().enumerate() {
        let scalar = !t.contains('\n');
        let forms: Vec<String> = if scalar {
            vec![t.to_string(), format!("[{t}]"), format!("[1, {t}, {t}]"), format!("{{a:{t}}}"), format!("ver:\"3.0\"\na,b\n{t},1\n")]
        } else {
            vec![t.to_string()]
        };
        for (k, text) in forms.iter().enumerate() {
            ctx.rec.evals += 1;
            let mut rec = Rec::new();
            let mut v = zinc_fixed_point(text, &mut rec);
            if !v.is_fail() {
                // and the reader-based decoder agrees with the string-based one on each of them (1-byte reads, 7/1/64/3)
                for chunks in [vec![1u8], vec![7, 1, 64, 3]] {
                    let w = check_chunking(text.as_bytes(), &ReaderPlan { chunks, ..ReaderPlan::default() }, &mut rec);
                    if w.is_fail() {
                        v = w;
                        break;
                    }
                }
            }
            let accepted = rec.classes.contains_key("zinc:accepted");
            ctx.rec.class(if accepted { "edge-spelling:zinc:accepted" } else { "edge-spelling:zinc:rejected" });
            if accepted {
                ctx.rec.nontrivial(key_of(&format!("edge:z:{i}:{k}")));
            }
            ctx.report("fixpoint+chunking", v, Doc { bytes: text.clone().into_bytes(), plan: ReaderPlan::default(), origin: "zinc-edge-spelling".into() }.to_json());
        }
    }
    for (i, t) in HAYSON_EDGE_SPELLINGS.iter().enumerate() {
        for (k, text) in [t.to_string(), format!("[{t}]"), format!("{{\"a\":{t}}}")].iter().enumerate() {
            ctx.rec.evals += 1;
            let mut rec = Rec::new();
            let v = hayson_fixed_point(text, &mut rec);
            let accepted = rec.classes.contains_key("hayson:accepted");
            ctx.rec.class(if accepted { "edge-spelling:hayson:accepted" } else { "edge-spelling:hayson:rejected" });
            if accepted {
                ctx.rec.nontrivial(key_of(&format!("edge:h:{i}:{k}")));
            }
            ctx.report("fixpoint+chunking", v, Doc { bytes: text.clone().into_bytes(), plan: ReaderPlan::default(), origin: "hayson-edge-spelling".into() }.to_json());
        }
    }
}

pub fn run(ctx: &mut Ctx) {
    ctx.rule("(a) accepted texts (reference-writer output with random legal spellings, accepted mutants of it, the repository's corpus files, and a table of ~100 edge spellings - leap seconds, '_' inside exponents, zero offsets in named zones, repeated hours, old grid versions - each bare, in a list, as a tag and as a grid cell): d1=decode(t), d2=decode(encode(d1)), d3=decode(encode(d2)) must exist with d1==d2==d3 strictly, for Zinc and Hayson; (b) Parser::parse_value over a reader with generated chunk sizes / Interrupted returns equals from_str, and parse_grid_iterator yields parse_grid's rows in order; (b') nth / skip / step_by over the row iterator land on the rows that stepping one by one reaches; (c) for generated grids built row by row (so every row's end offset is known) the iterator hands out row k having consumed no more than the end of the first token after that row + 16 bytes of look-ahead; non-trivial: (a) text differs from its re-encoding, (b) a splitting reader plan, (c) grid with >= 3 rows; distinct by text (+plan)");
    ctx.assume("the 16 byte slack covers the scanner's peek stash (number/date/time disambiguation peeks up to 10 bytes)");
    let depth = ctx.tier.pick(2, 3) as u32;
    corpus_fixpoints(ctx);
    edge_spellings(ctx);
    ctx.run_sub::<Doc>("fixpoint+chunking", ctx.tier.pick(64_000, 1_280_000), &move || accepted_docs(depth), &check_fixpoint);
    ctx.run_sub::<LazyGrid>("lazy-rows", ctx.tier.pick(32_000, 640_000), &lazy_grid, &check_lazy);
    for rows in [1000usize, ctx.tier.pick(10_000, 100_000) as usize] {
        ctx.rec.evals += 1;
        let mut rec = Rec::new();
        let v = check_lazy_large(rows, &mut rec);
        ctx.rec.class("lazy:large-grid");
        ctx.rec.nontrivial(key_of(&format!("large:{rows}")));
        ctx.report("lazy-large", v, json!({"rows": rows}));
    }
}

pub fn replay(kind: &str, case: &J, rec: &mut Rec) -> Verdict {
    match kind {
        "fixpoint+chunking" => Doc::from_json(case).map(|v| check_fixpoint(&v, rec)).unwrap_or_else(|e| Verdict::fail("infra:bad-replay", e)),
        "lazy-rows" => LazyGrid::from_json(case).map(|v| check_lazy(&v, rec)).unwrap_or_else(|e| Verdict::fail("infra:bad-replay", e)),
        "lazy-large" => check_lazy_large(case["rows"].as_u64().unwrap_or(1000) as usize, rec),
        "corpus-fixpoint" | "corpus-chunking" => {
            let name = case["file"].as_str().unwrap_or("");
            let i = ["defs.zinc", "points.zinc", "points.json"].iter().position(|n| *n == name).unwrap_or(0);
            let bytes = corpus_file(i);
            let Ok(text) = std::str::from_utf8(bytes) else { return Verdict::Pass };
            if kind == "corpus-fixpoint" {
                if i == 2 {
                    hayson_fixed_point(text, rec)
                } else {
                    zinc_fixed_point(text, rec)
                }
            } else {
                check_chunking(bytes, &ReaderPlan { chunks: vec![7, 1, 64, 3], interrupt_every: 5, fail_at: None, fail_forever: false, fail_every: 0, fault_kind: 0 }, rec)
            }
        }
        _ => Verdict::fail("infra:unknown-kind", kind),
    }
}

/// entry points for the coverage-guided targets
pub fn zinc_fixed_point_pub(text: &str, rec: &mut Rec) -> Verdict {
    zinc_fixed_point(text, rec)
}
pub fn hayson_fixed_point_pub(text: &str, rec: &mut Rec) -> Verdict {
    hayson_fixed_point(text, rec)
}

pub fn check_fixpoint_pub(d: &Doc, rec: &mut Rec) -> Verdict {
    check_fixpoint(d, rec)
}
