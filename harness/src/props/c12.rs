//! C12 — Value equality, hashing and ordering are mutually consistent.

use super::common::*;
use crate::gen::value::{top_value, unit_ids, GenCfg};
use crate::refimpl::zones;
use crate::runner::{bx, guarded, idx, key_of, panic_sig, Case, Ctx, Rec, Verdict};
use crate::rval::*;
use libhaystack::val::*;
use proptest::prelude::*;
use serde_json::{json, Value as J};
use std::cmp::Ordering;
use std::collections::hash_map::DefaultHasher;
use std::collections::{BTreeSet, HashSet};
use std::hash::{Hash, Hasher};

#[derive(Clone, Debug)]
pub struct Triple {
    pub a: RVal,
    pub b: RVal,
    pub c: RVal,
    /// how b and c were derived (labels for the histogram)
    pub how: Vec<String>,
}

impl Case for Triple {
    fn to_json(&self) -> J {
        json!({"a": to_json(&self.a), "b": to_json(&self.b), "c": to_json(&self.c), "how": self.how})
    }
    fn from_json(j: &J) -> Result<Self, String> {
        Ok(Triple {
            a: from_json(&j["a"])?,
            b: from_json(&j["b"])?,
            c: from_json(&j["c"])?,
            how: vec![],
        })
    }
}

#[derive(Clone, Debug)]
pub struct Pert {
    op: u8,
    sel: u16,
    aux: u16,
    unit: Vec<String>,
}

fn pert() -> BoxedStrategy<Pert> {
    bx((0u8..14, any::<u16>(), any::<u16>(), unit_ids()).prop_map(|(op, sel, aux, unit)| Pert { op, sel, aux, unit }))
}

/// Derive a near-collision of `v`: one field of one node perturbed (or nothing: a clone).
fn perturb(v: &RVal, p: &Pert) -> (RVal, &'static str) {
    let mut out = v.clone();
    let n = out.count_nodes();
    let target = idx(p.sel, n);
    let mut i = 0usize;
    let mut label: &'static str = "clone";
    let op = p.op;
    let aux = p.aux;
    let unit = p.unit.clone();
    out.walk_mut(&mut |node| {
        let me = i;
        i += 1;
        if me != target || op == 0 {
            return;
        }
        match node {
            RVal::Num(bits, u) => {
                let f = f64::from_bits(*bits);
                match op % 5 {
                    0 | 1 => {
                        if f == 0.0 {
                            *bits = (-f).to_bits();
                            label = "number:flip-zero-sign";
                        } else {
                            *bits = (f + 1.0).to_bits();
                            label = "number:value+1";
                        }
                    }
                    2 => {
                        if u.is_some() {
                            *u = None;
                            label = "number:unit-dropped";
                        } else if f.is_finite() {
                            *u = Some(unit.clone());
                            label = "number:unit-added";
                        }
                    }
                    3 => {
                        if f.is_finite() && aux % 4 == 0 {
                            // the default unit (no identifiers) next to no unit at all
                            *u = if u.is_none() { Some(vec![]) } else { None };
                            label = "number:default-unit-vs-none";
                        } else if f.is_finite() {
                            *u = Some(unit.clone());
                            label = "number:unit-swapped";
                        }
                    }
                    _ => {
                        *bits = 0f64.to_bits();
                        label = "number:to-zero";
                    }
                }
            }
            RVal::Coord(a, b) => {
                let (fa, fb) = (f64::from_bits(*a), f64::from_bits(*b));
                if op % 4 == 2 {
                    // the mirror meridian / parallel: same magnitude, other sign (+180 vs -180 are two values)
                    if aux % 2 == 0 {
                        *b = (-fb).to_bits();
                    } else {
                        *a = (-fa).to_bits();
                    }
                    label = "coord:mirrored";
                } else if op % 2 == 0 {
                    *a = if fa == 0.0 { (-fa).to_bits() } else { 0f64.to_bits() };
                    label = "coord:lat-zero/sign";
                } else {
                    *b = if fb == 0.0 { (-fb).to_bits() } else { (fb / 2.0).to_bits() };
                    label = "coord:lng";
                }
            }
            RVal::Ref(id, dis) => {
                if op % 2 == 0 {
                    *dis = match dis {
                        Some(_) => None,
                        None => Some("other dis".into()),
                    };
                    label = "ref:dis-changed";
                } else {
                    id.push('x');
                    label = "ref:id-changed";
                }
            }
            RVal::Str(s) => match op % 4 {
                0 => {
                    *node = RVal::Uri(s.clone());
                    label = "kind:str->uri";
                }
                1 => {
                    *node = RVal::Symbol(s.clone());
                    label = "kind:str->symbol";
                }
                2 => {
                    *node = RVal::Ref(s.clone(), None);
                    label = "kind:str->ref";
                }
                _ => {
                    s.push('x');
                    label = "str:append";
                }
            },
            RVal::Uri(s) => {
                *node = RVal::Str(s.clone());
                label = "kind:uri->str";
            }
            RVal::Symbol(s) => {
                *node = RVal::XStr("Sym".into(), s.clone());
                label = "kind:symbol->xstr";
            }
            RVal::XStr(t, _) if op % 4 == 0 => {
                t.push('x');
                label = "xstr:type-changed";
            }
            RVal::DateTime(d) if op % 4 == 3 => {
                // same zone, an hour (or a second) earlier or later: around a change of offset two instants of one
                // zone share their wall-clock reading
                let z = zones::zone_by_id(&d.tz).expect("zone");
                match aux % 7 {
                    // the nearest neighbours inside one millisecond / one microsecond
                    4 => d.nanos = if d.nanos % 1_000_000 < 500_000 { d.nanos + 250_000 } else { d.nanos - 250_000 },
                    5 => d.nanos = if d.nanos % 1_000 < 500 { d.nanos + 1 } else { d.nanos - 1 },
                    6 => d.nanos = (d.nanos / 1_000_000) * 1_000_000 + (d.nanos + 333_333) % 1_000_000,
                    k => d.secs += [3600, -3600, 1800, -1][k as usize],
                }
                d.offset = zones::offset_at(&z.tz, d.secs);
                label = "datetime:same-zone-shifted";
            }
            RVal::DateTime(d) => {
                // same instant in another zone
                let zs = zones::zones();
                let z = &zs[idx(aux, zs.len())];
                d.tz = z.id.to_string();
                d.city = z.city.clone();
                d.offset = zones::offset_at(&z.tz, d.secs);
                if op % 3 == 0 {
                    d.secs += 1;
                    label = "datetime:+1s-other-zone";
                } else {
                    label = "datetime:same-instant-other-zone";
                }
            }
            RVal::XStr(t, val) => {
                match op % 3 {
                    0 => {
                        // the same type name but for the case of its first letter
                        let mut c = t.chars();
                        if let Some(f) = c.next() {
                            let flipped: String = if f.is_uppercase() { f.to_lowercase().collect() } else { f.to_uppercase().collect() };
                            *t = format!("{flipped}{}", c.as_str());
                        }
                        label = "xstr:type-first-letter-case";
                    }
                    1 => {
                        val.push('x');
                        label = "xstr:value";
                    }
                    _ => {
                        *node = RVal::Str(val.clone());
                        label = "kind:xstr->str";
                    }
                }
            }
            RVal::Date(y, m, d) => {
                *y = if *y < 9000 { *y + 1 } else { *y - 1 };
                if *m == 2 && *d == 29 {
                    *d = 28;
                }
                label = "date:year";
            }
            RVal::Time(_, _, _, n) => {
                *n = (*n + 1) % 1_000_000_000;
                label = "time:nanos";
            }
            RVal::Bool(b) => {
                *b = !*b;
                label = "bool:flip";
            }
            RVal::List(l) => {
                if op % 2 == 0 && !l.is_empty() {
                    l.pop();
                    label = "list:prefix";
                } else {
                    l.push(RVal::Marker);
                    label = "list:extended";
                }
            }
            RVal::Dict(d) => {
                if op % 3 == 0 && !d.is_empty() {
                    let k = d.keys().nth(idx(aux, d.len())).cloned().unwrap();
                    d.remove(&k);
                    label = "dict:key-removed";
                } else if op % 3 == 1 && !d.is_empty() {
                    let k = d.keys().nth(idx(aux, d.len())).cloned().unwrap();
                    d.insert(k, RVal::Str("changed".into()));
                    label = "dict:value-changed";
                } else {
                    d.insert("zz".into(), RVal::Marker);
                    label = "dict:key-added";
                }
            }
            RVal::Grid(g) => {
                if op % 3 == 0 && !g.rows.is_empty() {
                    g.rows.pop();
                    label = "grid:row-removed";
                } else if op % 3 == 1 {
                    g.meta = match &g.meta {
                        Some(_) => None,
                        None => Some(RDict::new()),
                    };
                    label = "grid:meta-none<->some";
                } else if let Some(c) = g.cols.first_mut() {
                    c.meta = Some([("x".to_string(), RVal::Marker)].into_iter().collect());
                    label = "grid:col-meta";
                }
            }
            RVal::Null => {
                *node = RVal::Marker;
                label = "kind:null->marker";
            }
            RVal::Marker => {
                *node = RVal::Na;
                label = "kind:marker->na";
            }
            _ => {}
        }
    });
    (out, label)
}

fn triple(depth: u32) -> BoxedStrategy<Triple> {
    prop_oneof![
        5 => triple_near(depth),
        1 => triple_small_universe(),
    ]
    .boxed()
}

/// Three records over a small universe of tag names and values (ids @p1..@p3, a handful of tags): independent
/// draws collide on names and values all the time, so orders that look at *particular* tags (an `id`, a `dis`)
/// before the general rule are exercised on every combination of "has it / has it not / differs".
/// (Seeded change C12-d: Dict::cmp by `id` Ref first is not transitive.)
fn small_record() -> BoxedStrategy<RVal> {
    let val = prop_oneof![
        3 => Just(RVal::Marker),
        2 => prop::sample::select(vec!["p1", "p2", "p3"]).prop_map(|i| RVal::Ref(i.to_string(), None)),
        1 => (prop::sample::select(vec!["p1", "p2"]), prop::sample::select(vec!["P one", "x"])).prop_map(|(i, d)| RVal::Ref(i.to_string(), Some(d.to_string()))),
        2 => prop::sample::select(vec!["x", "y", ""]).prop_map(|s| RVal::Str(s.to_string())),
        2 => prop::sample::select(vec![0.0f64, 1.0, 2.0]).prop_map(RVal::num),
        1 => Just(RVal::Num(1f64.to_bits(), Some(vec!["meter".into(), "m".into()]))),
        // quantities whose magnitudes and whose sizes are ordered differently (1 km, 600 m, 500 s, 700 of nothing)
        3 => (prop::sample::select(vec![1.0f64, 600.0, 500.0, 700.0, 0.5, 1000.0, 30.0, 2000.0]), prop::sample::select(vec!["kilometer", "meter", "second", "", "hour", "minute", "fahrenheit", "celsius"])).prop_map(|(x, u)| {
            let unit = crate::refimpl::units::lookup(u).map(|d| d.ids.clone());
            RVal::Num(x.to_bits(), unit)
        }),
        1 => Just(RVal::Bool(true)),
        // coordinates on the range ends and on both zeros: +180 / -180 (and +90 / -90) are different values
        2 => (prop::sample::select(vec![0.0f64, -0.0, 45.0, 90.0, -90.0]), prop::sample::select(vec![180.0f64, -180.0, 0.0, -0.0, 90.0])).prop_map(|(la, lo)| RVal::Coord(la.to_bits(), lo.to_bits())),
    ];
    let name = prop::sample::select(vec!["id", "dis", "equip", "navName", "a", "site", "siteRef", "def", "z"]).prop_map(String::from);
    let dict = prop::collection::btree_map(name, val, 0..5);
    prop_oneof![
        6 => dict.clone().prop_map(RVal::Dict),
        1 => prop::collection::vec(dict.clone().prop_map(RVal::Dict), 0..3).prop_map(RVal::List),
        1 => (dict.clone(), dict).prop_map(|(mut a, b)| {
            a.insert("sub".into(), RVal::Dict(b));
            RVal::Dict(a)
        }),
    ]
    .boxed()
}

fn triple_small_universe() -> BoxedStrategy<Triple> {
    bx((small_record(), small_record(), small_record()).prop_map(|(a, b, c)| Triple {
        a,
        b,
        c,
        how: vec!["small-universe".to_string(), "small-universe".to_string()],
    }))
}

fn triple_near(depth: u32) -> BoxedStrategy<Triple> {
    let cfg = GenCfg {
        depth,
        wf: false,
        max_str: 8,
        nan: false,
    };
    bx((top_value(cfg), top_value(cfg), pert(), pert(), 0u8..4).prop_map(|(a, other, p1, p2, mode)| {
        let (b, l1) = perturb(&a, &p1);
        let (c, l2) = match mode {
            0 => (other, "independent"),
            1 => perturb(&a, &p2),
            _ => perturb(&b, &p2),
        };
        Triple {
            a,
            b,
            c,
            how: vec![l1.to_string(), l2.to_string()],
        }
    }))
}

struct Fnv(u64);
impl Hasher for Fnv {
    fn finish(&self) -> u64 {
        self.0
    }
    fn write(&mut self, bytes: &[u8]) {
        for b in bytes {
            self.0 ^= *b as u64;
            self.0 = self.0.wrapping_mul(0x100000001b3);
        }
    }
}

fn h1<T: Hash>(v: &T) -> u64 {
    let mut h = DefaultHasher::new();
    v.hash(&mut h);
    h.finish()
}
fn h2<T: Hash>(v: &T) -> u64 {
    let mut h = Fnv(0xcbf29ce484222325);
    v.hash(&mut h);
    h.finish()
}

fn kindpair(a: &RVal, b: &RVal) -> String {
    if a.kind() == b.kind() {
        a.kind().to_string()
    } else {
        format!("{}/{}", a.kind(), b.kind())
    }
}

fn fail(law: &str, a: &RVal, b: &RVal, extra: &str) -> Verdict {
    Verdict::fail(
        format!("C12:{law}:{}", kindpair(a, b)),
        format!("{law} violated for a={} b={} {extra}", trunc(&render(a), 200), trunc(&render(b), 200)),
    )
}

fn laws_pair(ra: &RVal, rb: &RVal, a: &Value, b: &Value) -> Verdict {
    let eq = a == b;
    if eq != (b == a) {
        return fail("eq-symmetric", ra, rb, "");
    }
    if eq && (h1(a) != h1(b) || h2(a) != h2(b)) {
        return fail("eq-implies-hash", ra, rb, "");
    }
    let ab = a.cmp(b);
    let ba = b.cmp(a);
    if ab != ba.reverse() {
        return fail("cmp-antisymmetric", ra, rb, &format!("cmp(a,b)={ab:?} cmp(b,a)={ba:?}"));
    }
    if (ab == Ordering::Equal) != eq {
        return fail("cmp-equal-iff-eq", ra, rb, &format!("cmp={ab:?} eq={eq}"));
    }
    if let Some(o) = a.partial_cmp(b) {
        if o != ab {
            return fail("partial-cmp-agrees-with-cmp", ra, rb, &format!("partial={o:?} cmp={ab:?}"));
        }
    }
    Verdict::Pass
}

fn laws_typed(ra: &RVal, rb: &RVal, a: &Value, b: &Value) -> Verdict {
    macro_rules! typed_nohash {
        ($x:expr, $y:expr, $name:expr) => {{
            let (x, y) = ($x, $y);
            let eq = x == y;
            if eq != (y == x) {
                return fail(concat!($name, ":eq-symmetric"), ra, rb, "");
            }
            let c = x.cmp(y);
            if c != y.cmp(x).reverse() {
                return fail(concat!($name, ":cmp-antisymmetric"), ra, rb, "");
            }
            if (c == Ordering::Equal) != eq {
                return fail(concat!($name, ":cmp-equal-iff-eq"), ra, rb, &format!("cmp={c:?} eq={eq}"));
            }
            if let Some(o) = x.partial_cmp(y) {
                if o != c {
                    return fail(concat!($name, ":partial-cmp-agrees-with-cmp"), ra, rb, &format!("partial={o:?} cmp={c:?}"));
                }
            }
        }};
    }
    macro_rules! typed {
        ($x:expr, $y:expr, $name:expr) => {{
            let (x, y) = ($x, $y);
            if x == y && h1(x) != h1(y) {
                return fail(concat!($name, ":eq-implies-hash"), ra, rb, "");
            }
            typed_nohash!(x, y, $name);
        }};
    }
    match (a, b) {
        (Value::Number(x), Value::Number(y)) => {
            typed!(x, y, "Number");
            if let (Some(u), Some(w)) = (x.unit, y.unit) {
                if (u == w) && h1(u) != h1(w) {
                    return fail("Unit:eq-implies-hash", ra, rb, "");
                }
            }
        }
        (Value::Coord(x), Value::Coord(y)) => typed!(x, y, "Coord"),
        (Value::Ref(x), Value::Ref(y)) => typed!(x, y, "Ref"),
        (Value::Dict(x), Value::Dict(y)) => typed!(x, y, "Dict"),
        (Value::Grid(x), Value::Grid(y)) => {
            typed!(x, y, "Grid");
            for (cx, cy) in x.columns.iter().zip(y.columns.iter()) {
                typed!(cx, cy, "Column");
            }
        }
        // Date, Time and DateTime have no Hash impl of their own; Value hashes them through Deref
        (Value::Date(x), Value::Date(y)) => typed_nohash!(x, y, "Date"),
        (Value::Time(x), Value::Time(y)) => typed_nohash!(x, y, "Time"),
        (Value::DateTime(x), Value::DateTime(y)) => {
            // DateTime has no Hash impl of its own; Value hashes it through Deref
            let eq = x == y;
            let c = x.cmp(y);
            if (c == Ordering::Equal) != eq {
                return fail("DateTime:cmp-equal-iff-eq", ra, rb, "");
            }
            if x.partial_cmp(y) != Some(c) {
                return fail("DateTime:partial-cmp-agrees-with-cmp", ra, rb, "");
            }
        }
        (Value::Str(x), Value::Str(y)) => typed!(x, y, "Str"),
        (Value::Uri(x), Value::Uri(y)) => typed!(x, y, "Uri"),
        (Value::Symbol(x), Value::Symbol(y)) => typed!(x, y, "Symbol"),
        (Value::XStr(x), Value::XStr(y)) => typed!(x, y, "XStr"),
        (Value::Bool(x), Value::Bool(y)) => typed!(x, y, "Bool"),
        _ => {}
    }
    Verdict::Pass
}

pub fn check_triple(t: &Triple, rec: &mut Rec) -> Verdict {
    check_triple_opt(t, rec, false)
}

/// Do the values of the triple carry Numbers with more than one distinct unit (None counts as one)?
fn has_mixed_units(t: &Triple) -> bool {
    let mut units: HashSet<Option<Vec<String>>> = HashSet::new();
    for v in [&t.a, &t.b, &t.c] {
        v.walk(&mut |n| {
            if let RVal::Num(_, u) = n {
                units.insert(u.clone());
            }
        });
    }
    units.len() > 1
}

/// The same value with every unit replaced by a separate `Unit` instance of identical content (units are plain
/// data with public fields: an application may build its own, or hold a copy). Instances are leaked once per unit.
fn with_unit_copies(v: &Value) -> Value {
    use std::collections::HashMap;
    use std::sync::Mutex;
    static COPIES: std::sync::OnceLock<Mutex<HashMap<usize, &'static libhaystack::units::Unit>>> = std::sync::OnceLock::new();
    fn copy_of(u: &'static libhaystack::units::Unit) -> &'static libhaystack::units::Unit {
        let mut m = COPIES.get_or_init(|| Mutex::new(HashMap::new())).lock().unwrap();
        *m.entry(u as *const _ as usize).or_insert_with(|| {
            // (Unit is not Clone: a field-by-field copy through its public fields)
            let copy: &'static libhaystack::units::Unit = Box::leak(Box::new(libhaystack::units::Unit { quantity: u.quantity.clone(), ids: u.ids.clone(), dimensions: u.dimensions, scale: u.scale, offset: u.offset }));
            copy
        })
    }
    match v {
        Value::Number(n) => Value::Number(Number { value: n.value, unit: n.unit.map(copy_of) }),
        Value::List(l) => Value::make_list(l.iter().map(with_unit_copies).collect()),
        Value::Dict(d) => {
            let mut out = Dict::new();
            for (k, x) in d.iter() {
                out.insert(k.clone(), with_unit_copies(x));
            }
            Value::make_dict(out)
        }
        other => other.clone(),
    }
}

pub fn check_triple_opt(t: &Triple, rec: &mut Rec, strict_std_sort: bool) -> Verdict {
    let mixed_units = has_mixed_units(t);
    if mixed_units {
        rec.excluded("std-sort()/collect-BTreeSet skipped: Numbers with different units (F13d)");
    }
    for h in &t.how {
        rec.class(&format!("derive:{h}"));
    }
    let (a, b, c) = (build(&t.a), build(&t.b), build(&t.c));
    let r = guarded(|| -> Verdict {
        // reflexivity and clone
        for (rv, v) in [(&t.a, &a), (&t.b, &b), (&t.c, &c)] {
            #[allow(clippy::eq_op)]
            if !(v == v) {
                return fail("eq-reflexive", rv, rv, "");
            }
            if &v.clone() != v {
                return fail("clone-equals-original", rv, rv, "");
            }
            if v.cmp(v) != Ordering::Equal {
                return fail("cmp-reflexive", rv, rv, "");
            }
            if h1(&v.clone()) != h1(v) {
                return fail("clone-hash", rv, rv, "");
            }
            // equality, hash and order look at what a unit *is*, not at which instance of it a Number points to
            let w = with_unit_copies(v);
            if &w != v {
                return fail("unit-instance:eq", rv, rv, "the same value over separate Unit instances of equal content is not ==");
            }
            if h1(&w) != h1(v) || h2(&w) != h2(v) {
                return fail("unit-instance:eq-implies-hash", rv, rv, "equal values (units are separate instances of equal content) hash differently");
            }
            if w.cmp(v) != Ordering::Equal {
                return fail("unit-instance:cmp", rv, rv, "");
            }
        }
        for (rx, ry, x, y) in [(&t.a, &t.b, &a, &b), (&t.b, &t.c, &b, &c), (&t.a, &t.c, &a, &c)] {
            let r = laws_pair(rx, ry, x, y);
            if r.is_fail() {
                return r;
            }
            let r = laws_typed(rx, ry, x, y);
            if r.is_fail() {
                return r;
            }
        }
        // transitivity
        if a == b && b == c && a != c {
            return fail("eq-transitive", &t.a, &t.c, &format!("via b={}", trunc(&render(&t.b), 120)));
        }
        let (ab, bc, ac) = (a.cmp(&b), b.cmp(&c), a.cmp(&c));
        if ab != Ordering::Greater && bc != Ordering::Greater && ac == Ordering::Greater {
            return fail("cmp-transitive", &t.a, &t.c, &format!("a<=b<=c but a>c; b={}", trunc(&render(&t.b), 120)));
        }
        if ab != Ordering::Less && bc != Ordering::Less && ac == Ordering::Less {
            return fail("cmp-transitive", &t.a, &t.c, &format!("a>=b>=c but a<c; b={}", trunc(&render(&t.b), 120)));
        }
        // behavioural consequences: sets, sort + dedup agree with a naive quadratic count of ==-classes
        let items = vec![a.clone(), b.clone(), c.clone(), a.clone(), c.clone(), b.clone()];
        let mut classes: Vec<&Value> = vec![];
        for it in &items {
            if !classes.iter().any(|k| *k == it) {
                classes.push(it);
            }
        }
        let n = classes.len();
        let hs: HashSet<Value> = items.iter().cloned().collect();
        if hs.len() != n {
            return fail("hashset-agrees-with-eq", &t.a, &t.b, &format!("HashSet has {} entries, == distinguishes {n}; c={}", hs.len(), trunc(&render(&t.c), 120)));
        }
        // B-tree set filled by insertion and sort by the total order: these use Ord::cmp only
        let mut bs: BTreeSet<Value> = BTreeSet::new();
        for it in &items {
            bs.insert(it.clone());
        }
        if bs.len() != n {
            return fail("btreeset-agrees-with-eq", &t.a, &t.b, &format!("BTreeSet has {} entries, == distinguishes {n}; c={}", bs.len(), trunc(&render(&t.c), 120)));
        }
        let mut sorted = items.clone();
        sorted.sort_by(|x, y| x.cmp(y));
        sorted.dedup();
        if sorted.len() != n {
            return fail("sort-dedup-agrees-with-eq", &t.a, &t.b, &format!("sort_by(cmp)+dedup leaves {}, == distinguishes {n}; c={}", sorted.len(), trunc(&render(&t.c), 120)));
        }
        // slice::sort() and collect::<BTreeSet>() go through PartialOrd::lt; see known finding F13d
        if strict_std_sort || !mixed_units {
            let mut sorted = items.clone();
            sorted.sort();
            sorted.dedup();
            if sorted.len() != n {
                return fail("std-sort-dedup-agrees-with-eq", &t.a, &t.b, &format!("sort()+dedup leaves {}, == distinguishes {n}; c={}", sorted.len(), trunc(&render(&t.c), 120)));
            }
            let bs2: BTreeSet<Value> = items.iter().cloned().collect();
            if bs2.len() != n {
                return fail("btreeset-collect-agrees-with-eq", &t.a, &t.b, &format!("collect::<BTreeSet> has {} entries, == distinguishes {n}", bs2.len()));
            }
        }
        // dicts as keys (the library keys BTreeMaps by &Dict in def reflection)
        if let (Value::Dict(x), Value::Dict(y)) = (&a, &b) {
            let mut m = std::collections::BTreeMap::new();
            m.insert(x, 1);
            m.insert(y, 2);
            if (m.len() == 1) != (x == y) {
                return fail("btreemap-dict-keys", &t.a, &t.b, "");
            }
        }
        Verdict::Pass
    });
    let v = match r {
        Ok(v) => v,
        Err(p) => Verdict::fail(format!("C12:{}", panic_sig(&p)), format!("comparison panicked: {} at {}", p.msg, p.location)),
    };
    let near = t.how.iter().any(|h| h != "independent" && h != "clone");
    let eq_not_identical = (a == b && t.a != t.b) || (b == c && t.b != t.c);
    if near || eq_not_identical {
        rec.nontrivial(key_of(&format!("{:?}{:?}{:?}", t.a, t.b, t.c)));
    }
    if eq_not_identical {
        rec.class("equal-but-not-identical");
    }
    rec.sample(|| format!("a={} | b={} | c={}", trunc(&render(&t.a), 100), trunc(&render(&t.b), 100), trunc(&render(&t.c), 100)));
    v
}

pub fn run(ctx: &mut Ctx) {
    ctx.rule("generated: triples (a, b, c) of constructible values without NaN where b and c are near-collisions (one field of one node perturbed: sign of zero, unit dropped/swapped, Ref dis, dict key/value, list prefix, same instant in another zone, same payload under another kind) or independent, and (1 in 6) three records drawn from a small universe of tag names (id, dis, equip, navName, ...) and values (@p1..@p3, markers, a few strings and numbers) so that the same tags meet in every has/has-not/differs combination; laws: reflexive/symmetric/transitive ==, clone, == implies equal hashes (two hashers), cmp antisymmetric/transitive, cmp==Equal iff ==, partial_cmp agrees with cmp when Some, and HashSet/BTreeSet/sort+dedup agree with a quadratic ==-class count; also on the typed values; non-trivial: a near-collision or equal-but-not-identical pair; distinct by Debug of the triple");
    ctx.assume("NaN is excluded (the property quantifies over values without NaN)");
    let total = ctx.tier.pick(160_000, 4_800_000);
    let depth = ctx.tier.pick(2, 3) as u32;
    ctx.run_sub::<Triple>("laws", total, &move || triple(depth), &check_triple);
}

pub fn replay(kind: &str, case: &J, rec: &mut Rec) -> Verdict {
    match kind {
        "laws" => match Triple::from_json(case) {
            Ok(v) => check_triple(&v, rec),
            Err(e) => Verdict::fail("infra:bad-replay", e),
        },
        "laws-strict-std-sort" => match Triple::from_json(case) {
            Ok(v) => check_triple_opt(&v, rec, true),
            Err(e) => Verdict::fail("infra:bad-replay", e),
        },
        _ => Verdict::fail("infra:unknown-kind", kind),
    }
}
