//! C07 — Filter evaluation follows the Haystack filter semantics.

use super::common::*;
use crate::gen::filter::*;
use crate::gen::value::{self as gv, GenCfg};
use crate::runner::{bx, guarded, idx, key_of, panic_sig, Case, Ctx, Rec, Verdict, SHARDS};
use crate::rval::*;
use libhaystack::defs::namespace::DEFAULT_NS;
use libhaystack::filter::eval::EvalContext;
use libhaystack::filter::path::Path;
use libhaystack::filter::{Eval, Filter, Filtered, ListFiltered, PathResolver};
use libhaystack::val::{Dict, Grid, List, Ref, Value};
use proptest::prelude::*;
use serde_json::{json, Value as J};
use std::collections::BTreeMap;

// ---------------------------------------------------------------------------------------------
// a caller-supplied resolver over a small record store (refs may form cycles)

pub struct Store {
    pub records: BTreeMap<String, RDict>,
    pub built: BTreeMap<String, Dict>,
}

impl Store {
    pub fn new(records: BTreeMap<String, RDict>) -> Store {
        let built = records.iter().map(|(k, v)| (k.clone(), build_dict(v))).collect();
        Store { records, built }
    }
}

impl RefStore for Store {
    fn record(&self, id: &str) -> Option<&RDict> {
        self.records.get(id)
    }
}

impl PathResolver for Store {
    fn resolve_for(&self, root: &Dict, path: &Path) -> Value {
        // tags of dicts, following refs through the store
        let mut cur: Value = Value::Dict(root.clone());
        for seg in path.iter() {
            let name = seg.to_string();
            cur = match cur {
                Value::Dict(d) => d.get(&name).cloned().unwrap_or(Value::Null),
                Value::Ref(r) => match self.built.get(&r.value) {
                    Some(d) => d.get(&name).cloned().unwrap_or(Value::Null),
                    None => Value::Null,
                },
                _ => Value::Null,
            };
            if cur.is_null() {
                break;
            }
        }
        cur
    }
    fn resolve(&self, _path: &Path) -> Value {
        Value::Null
    }
    fn resolve_ref(&self, reference: &Ref) -> Option<Dict> {
        self.built.get(&reference.value).cloned()
    }
    fn resolve_ref_list(&self, ref_list: &List) -> Vec<Dict> {
        ref_list.iter().filter_map(|v| if let Value::Ref(r) = v { self.resolve_ref(r) } else { None }).collect()
    }
}

// ---------------------------------------------------------------------------------------------

#[derive(Clone, Debug)]
pub struct FCase {
    pub filter: FOr,
    pub records: Vec<RDict>,
    /// ref id -> record (for the caller-supplied resolver)
    pub store: BTreeMap<String, RDict>,
    pub choices: Vec<u8>,
}

impl Case for FCase {
    fn to_json(&self) -> J {
        json!({
            "filter": or_json(&self.filter),
            "text": print(&self.filter, &[]).0,
            "records": self.records.iter().map(|r| to_json(&RVal::Dict(r.clone()))).collect::<Vec<_>>(),
            "store": self.store.iter().map(|(k, v)| (k.clone(), to_json(&RVal::Dict(v.clone())))).collect::<serde_json::Map<_, _>>(),
            "choices": self.choices,
        })
    }
    fn from_json(j: &J) -> Result<Self, String> {
        let d = |x: &J| match from_json(x) {
            Ok(RVal::Dict(d)) => Ok(d),
            _ => Err("dict".to_string()),
        };
        Ok(FCase {
            filter: or_from_json(&j["filter"])?,
            records: j["records"].as_array().ok_or("records")?.iter().map(d).collect::<Result<_, _>>()?,
            store: j["store"].as_object().map(|o| o.iter().map(|(k, v)| d(v).map(|x| (k.clone(), x))).collect::<Result<_, _>>()).unwrap_or(Ok(BTreeMap::new()))?,
            choices: j["choices"].as_array().map(|a| a.iter().map(|x| x.as_u64().unwrap_or(0) as u8).collect()).unwrap_or_default(),
        })
    }
}

fn bump(v: &RVal, up: bool) -> RVal {
    match v {
        RVal::Num(b, u) => RVal::Num((f64::from_bits(*b) + if up { 1.0 } else { -1.0 }).to_bits(), u.clone()),
        RVal::Str(s) => {
            if up {
                RVal::Str(format!("{s}z"))
            } else if s.is_empty() {
                RVal::Str(String::new())
            } else {
                let mut c: Vec<char> = s.chars().collect();
                c.pop();
                RVal::Str(c.into_iter().collect())
            }
        }
        RVal::Uri(s) => RVal::Uri(if up { format!("{s}z") } else { String::new() }),
        RVal::Symbol(s) => RVal::Symbol(if up { format!("{s}z") } else { "a".into() }),
        RVal::Ref(s, d) => RVal::Ref(if up { format!("{s}z") } else { "0".into() }, d.clone()),
        RVal::Bool(b) => RVal::Bool(!*b),
        RVal::Date(y, m, d) => RVal::Date(if up { (*y + 1).min(9999) } else { (*y - 1).max(0) }, *m, (*d).min(28)),
        RVal::Time(h, m, s, n) => {
            if up {
                RVal::Time(*h, *m, *s, (*n + 1).min(if *s == 59 && *n >= 1_000_000_000 { 1_999_999_999 } else { 999_999_999 }))
            } else {
                RVal::Time(*h, *m, *s, n.saturating_sub(1))
            }
        }
        RVal::DateTime(d) if d.nanos % 2 == 0 => {
            // the nearest neighbours: a quarter millisecond / one nanosecond apart
            let mut d = d.clone();
            let step: i64 = if d.nanos % 4 == 0 { 250_000 } else { 1 };
            let n = d.nanos as i64 + if up { step } else { -step };
            if n < 0 {
                d.secs -= 1;
                d.nanos = (n + 1_000_000_000) as u32;
            } else if n >= 1_000_000_000 {
                d.secs += 1;
                d.nanos = (n - 1_000_000_000) as u32;
            } else {
                d.nanos = n as u32;
            }
            d.offset = crate::refimpl::zones::offset_at(&crate::refimpl::zones::zone_by_id(&d.tz).unwrap().tz, d.secs);
            RVal::DateTime(d)
        }
        RVal::DateTime(d) => {
            let mut d = d.clone();
            d.secs += if up { 1 } else { -1 };
            d.offset = crate::refimpl::zones::offset_at(&crate::refimpl::zones::zone_by_id(&d.tz).unwrap().tz, d.secs);
            RVal::DateTime(d)
        }
        other => other.clone(),
    }
}

fn set_path(rec: &mut RDict, path: &[String], v: Option<RVal>) {
    if path.len() == 1 {
        match v {
            Some(v) => {
                rec.insert(path[0].clone(), v);
            }
            None => {
                rec.remove(&path[0]);
            }
        }
        return;
    }
    let e = rec.entry(path[0].clone()).or_insert_with(|| RVal::Dict(RDict::new()));
    if !matches!(e, RVal::Dict(_)) {
        *e = RVal::Dict(RDict::new());
    }
    if let RVal::Dict(d) = e {
        set_path(d, &path[1..], v);
    }
}

fn record_value() -> BoxedStrategy<RVal> {
    // tag values: scalars of every kind, lists of scalars, nested dicts (no nested lists, no Null list elements)
    let cfg = GenCfg::wf(0);
    let sc = || gv::scalar(cfg).prop_filter("non-null", |v| !matches!(v, RVal::Null));
    prop_oneof![
        8 => gv::scalar(cfg),
        2 => literal(),
        2 => prop::collection::vec(sc(), 0..4).prop_map(RVal::List),
        2 => prop::collection::btree_map(fname(), gv::scalar(cfg), 0..4).prop_map(RVal::Dict),
    ]
    .boxed()
}

fn record() -> BoxedStrategy<RDict> {
    prop::collection::btree_map(fname(), record_value(), 0..6).boxed()
}

pub fn fcase(depth: u32) -> BoxedStrategy<FCase> {
    let inj = prop::collection::vec((any::<u16>(), 0u8..15, any::<u16>()), 0..5);
    bx((filter_or(depth, true), prop::collection::vec(record(), 1..4), inj, prop::collection::vec((0usize..4, record()), 0..4), super::c04::choices()).prop_map(|(filter, mut records, inj, store, choices)| {
        // make comparisons land near their literal: derive tag values from the filter's own terms
        let mut cmps: Vec<(Vec<String>, RVal)> = vec![];
        filter.walk(&mut |t| match t {
            FTerm::Cmp(p, _, v) => cmps.push((p.clone(), v.clone())),
            FTerm::Wildcard(p, id, _) => cmps.push((p.clone(), RVal::Ref(id.clone(), None))),
            FTerm::Has(p) | FTerm::Missing(p) => cmps.push((p.clone(), RVal::Marker)),
            _ => {}
        });
        if !cmps.is_empty() {
            for (sel, mode, ri) in inj {
                let (p, lit) = &cmps[idx(sel, cmps.len())];
                let r = idx(ri, records.len());
                let v = match mode {
                    0 => Some(lit.clone()),
                    1 => Some(bump(lit, true)),
                    2 => Some(bump(lit, false)),
                    3 => Some(RVal::Str("other kind".into())),
                    4 => None,
                    5 => Some(RVal::Null),
                    6 => Some(RVal::List(vec![RVal::Marker, lit.clone()])),
                    7 => Some(RVal::List(vec![bump(lit, true), RVal::Str("q".into())])),
                    // same kind as a Number literal but not ordered relative to it / at the ends of the order
                    9 => Some(RVal::num(f64::NAN)),
                    10 => Some(RVal::List(vec![RVal::num(f64::NAN), bump(lit, false)])),
                    11 => Some(RVal::num(if sel % 2 == 0 { f64::INFINITY } else { f64::NEG_INFINITY })),
                    // the same value as far as `==` goes, but not the same value: a Ref with the same id and another (or no)
                    // display name; for Numbers the same magnitude in a *sibling* unit (same dimension, scale and offset:
                    // EUR / USD, hertz / per_second, hPa / mbar) or in no unit
                    12 => match lit {
                        RVal::Ref(id, dis) => Some(RVal::Ref(id.clone(), if dis.is_some() { None } else { Some("Display".into()) })),
                        RVal::Num(b, Some(u)) => Some(RVal::Num(*b, crate::refimpl::units::sibling_of(u).or(Some(u.clone())))),
                        other => Some(other.clone()),
                    },
                    13 => match lit {
                        RVal::Ref(id, _) => Some(RVal::List(vec![RVal::Ref(id.clone(), Some("in a list".into())), RVal::Marker])),
                        RVal::Num(b, u) => Some(RVal::Num(*b, if u.is_some() { None } else { Some(vec!["percent".into(), "%".into()]) })),
                        other => Some(other.clone()),
                    },
                    14 => match lit {
                        RVal::Ref(id, _) => Some(RVal::Ref(id.clone(), Some("zzz".into()))),
                        other => Some(bump(other, sel % 2 == 0)),
                    },
                    _ => Some(RVal::num(5.0)),
                };
                set_path(&mut records[r], p, v);
            }
        }
        // a small store keyed r0..r3 whose refs may point at each other (cycles allowed)
        let mut st = BTreeMap::new();
        for (i, mut rec) in store {
            let id = format!("r{i}");
            for (k, (p, _)) in cmps.iter().enumerate().take(2) {
                set_path(&mut rec, p, Some(RVal::Ref(format!("r{}", (i + k + 1) % 4), None)));
            }
            st.insert(id, rec);
        }
        FCase { filter, records, store: st, choices }
    }))
}

fn verdict_eval(what: &str, filter_text: &str, rec: &RDict, got: bool, want: Tri, term_kinds: &str) -> Verdict {
    match want {
        Tri::Open => Verdict::Pass,
        Tri::True if got => Verdict::Pass,
        Tri::False if !got => Verdict::Pass,
        _ => Verdict::fail(
            format!("C07:{what}:{term_kinds}"),
            format!("filter `{filter_text}` on {} evaluates to {got}, the filter semantics give {want:?}", trunc(&render(&RVal::Dict(rec.clone())), 300)),
        ),
    }
}

/// classification of the shrunk failing filter for the signature
fn kinds(f: &FOr) -> String {
    let mut k: Vec<String> = vec![];
    f.walk(&mut |t| {
        let s = match t {
            FTerm::Parens(_) => "parens".to_string(),
            FTerm::Has(p) => format!("has{}", if p.len() > 1 { "->" } else { "" }),
            FTerm::Missing(p) => format!("not{}", if p.len() > 1 { "->" } else { "" }),
            FTerm::Cmp(p, op, v) => format!("{}{}{}", if p.len() > 1 { "->" } else { "" }, op.text(), v.kind()),
            FTerm::Wildcard(..) => "*==".to_string(),
            FTerm::IsA(_) => "isa".to_string(),
            FTerm::Relation(..) => "rel".to_string(),
        };
        if !k.contains(&s) && k.len() < 4 {
            k.push(s);
        }
    });
    if f.0.len() > 1 {
        k.push("or".into());
    }
    if f.0.iter().any(|a| a.0.len() > 1) {
        k.push("and".into());
    }
    k.join(",")
}

pub fn check_case(c: &FCase, rec: &mut Rec) -> Verdict {
    let (text, _) = print(&c.filter, &[]);
    let lib = to_lib(&c.filter);
    let ks = kinds(&c.filter);
    let has_ops = {
        let mut x = false;
        c.filter.walk(&mut |t| x |= matches!(t, FTerm::Cmp(..) | FTerm::Missing(_)) || matches!(t, FTerm::Has(p) if p.len() > 1));
        x
    };
    c.filter.walk(&mut |t| match t {
        FTerm::Cmp(_, op, v) => rec.class(&format!("cmp:{}:{}", op.text(), v.kind())),
        FTerm::Wildcard(..) => rec.class("term:*=="),
        FTerm::Parens(_) => rec.class("term:parens"),
        FTerm::Missing(_) => rec.class("term:not"),
        FTerm::Has(p) => rec.class(if p.len() > 1 { "term:has->" } else { "term:has" }),
        FTerm::IsA(_) => rec.class("term:isa"),
        FTerm::Relation(..) => rec.class("term:rel"),
    });
    if c.filter.0.len() > 1 && c.filter.0.iter().any(|a| a.0.len() > 1) {
        rec.class("mixed-and-or-without-parens");
    }
    rec.sample(|| format!("`{text}` on {}", trunc(&render(&RVal::Dict(c.records[0].clone())), 160)));
    let store = Store::new(c.store.clone());
    let uses_store = {
        let mut x = false;
        c.filter.walk(&mut |t| x |= matches!(t, FTerm::Wildcard(..)));
        x
    };
    let r = guarded(|| -> Verdict {
        let mut expected_rows: Vec<bool> = vec![];
        let mut open_seen = false;
        for r in &c.records {
            let d = build_dict(r);
            // what each comparison meets
            c.filter.walk(&mut |t| {
                if let FTerm::Cmp(p, _, lit) = t {
                    match resolve(r, p) {
                        None => rec.class("path:missing-or-null"),
                        Some(RVal::List(_)) => rec.class("path:list"),
                        Some(v) if v.kind() == lit.kind() => rec.class("path:same-kind"),
                        Some(_) => rec.class("path:other-kind"),
                    }
                }
            });
            let mut any_resolves = false;
            c.filter.walk(&mut |t| match t {
                FTerm::Cmp(p, ..) | FTerm::Has(p) | FTerm::Missing(p) | FTerm::Wildcard(p, ..) => any_resolves |= resolve(r, p).is_some(),
                _ => {}
            });
            if has_ops && any_resolves {
                rec.nontrivial(key_of(&format!("{text}|{r:?}")));
            }
            if !uses_store {
                // the Dict's own resolver
                let want = eval_or(&c.filter, r, &NoRefs);
                if want == Tri::Open {
                    rec.class("unasserted:numbers-with-different-units-ordered");
                }
                let got = d.filter(&lib);
                let v = verdict_eval("eval", &text, r, got, want, &ks);
                if v.is_fail() {
                    return v;
                }
                if want == Tri::Open {
                    open_seen = true;
                }
                expected_rows.push(want == Tri::True);
                // a Dict is also a resolver (`impl PathResolver for Dict`): used as the resolver of an evaluation of
                // *another* record it must resolve paths in the record under evaluation, not in itself
                if want != Tri::Open {
                    for other in c.records.iter().filter(|o| *o != r).take(2) {
                        let od = build_dict(other);
                        let ctx = EvalContext::make(&d, &DEFAULT_NS, &od);
                        let got = lib.eval(&ctx);
                        let v = verdict_eval("eval-with-another-record-as-resolver", &text, r, got, want, &ks);
                        if v.is_fail() {
                            return v;
                        }
                        rec.class("resolver:another-record");
                    }
                }
            }
            // a caller-supplied resolver (refs through the store; cycles)
            let want = eval_or(&c.filter, r, &store);
            if want != Tri::Open {
                // the store resolver follows refs in paths, the model's `resolve` does not: only assert when no path crosses a ref
                let mut crosses = false;
                c.filter.walk(&mut |t| match t {
                    FTerm::Cmp(p, ..) | FTerm::Has(p) | FTerm::Missing(p) | FTerm::Wildcard(p, ..) => {
                        let mut cur: Option<&RVal> = r.get(&p[0]);
                        for seg in &p[1..] {
                            match cur {
                                Some(RVal::Ref(..)) => {
                                    crosses = true;
                                    break;
                                }
                                Some(RVal::Dict(d)) => cur = d.get(seg),
                                _ => break,
                            }
                        }
                    }
                    _ => {}
                });
                if !crosses {
                    let ctx = EvalContext::make(&d, &DEFAULT_NS, &store);
                    let got = lib.eval(&ctx);
                    let v = verdict_eval("eval-with-resolver", &text, r, got, want, &ks);
                    if v.is_fail() {
                        return v;
                    }
                    if uses_store {
                        rec.class("wildcard-eq-through-store");
                    }
                }
            }
        }
        // grid: exactly the rows for which the filter holds, in order; first of them for a single match
        if !uses_store && !open_seen && expected_rows.len() == c.records.len() {
            let grid = Grid::make_from_dicts(c.records.iter().map(build_dict).collect());
            let all: Vec<RVal> = grid.filter_all(&lib).into_iter().map(|d| project(&Value::Dict(d.clone()))).collect();
            let want: Vec<RVal> = c.records.iter().zip(expected_rows.iter()).filter(|(_, k)| **k).map(|(r, _)| RVal::Dict(r.clone())).collect();
            if all != want {
                return Verdict::fail(
                    format!("C07:grid-filter_all:{ks}"),
                    format!("filter `{text}`: filter_all returns {} rows, the semantics select {} of {}", all.len(), want.len(), c.records.len()),
                );
            }
            let first = grid.filter(&lib).map(|d| project(&Value::Dict(d.clone())));
            if first.as_ref() != want.first() {
                return Verdict::fail(format!("C07:grid-filter-first:{ks}"), format!("filter `{text}`: first match differs"));
            }
            rec.class("grid:filter_all-compared");
            // a grid whose column list does not name every row tag (rows and columns are independent public fields; the
            // Hayson decoder returns such grids): which rows a filter selects does not depend on the column list
            {
                let mut partial = Grid::make_from_dicts(c.records.iter().map(build_dict).collect());
                let keep = partial.columns.len() / 2;
                partial.columns.truncate(keep);
                let got = partial.filter_all(&lib).len();
                if got != want.len() {
                    return Verdict::fail(
                        format!("C07:grid-filter_all:partial-columns:{ks}"),
                        format!("filter `{text}`: with only {keep} of its columns declared the grid yields {got} rows, the semantics select {}", want.len()),
                    );
                }
                partial.columns.clear();
                if partial.filter_all(&lib).len() != want.len() || partial.filter(&lib).is_some() != !want.is_empty() {
                    return Verdict::fail(format!("C07:grid-filter_all:no-columns:{ks}"), format!("filter `{text}`: a grid without declared columns selects differently"));
                }
            }
            // the same rows twice over (a grid may hold equal rows, and rows that share an `id`): every selected row
            // is selected each time it occurs, in order
            let doubled: Vec<Dict> = c.records.iter().chain(c.records.iter()).map(build_dict).collect();
            let grid2 = Grid::make_from_dicts(doubled);
            let all2 = grid2.filter_all(&lib).len();
            if all2 != 2 * want.len() {
                return Verdict::fail(
                    format!("C07:grid-filter_all:repeated-rows:{ks}"),
                    format!("filter `{text}`: of a grid holding each of {} rows twice filter_all returns {all2} rows, the semantics select {}", c.records.len(), 2 * want.len()),
                );
            }
        }
        // through the parser as well (classified separately; the parser itself is C08's business)
        let (spaced, _) = print(&c.filter, &c.choices);
        if let Ok(parsed) = Filter::try_from(spaced.as_str()) {
            if !uses_store {
                for r in &c.records {
                    let want = eval_or(&c.filter, r, &NoRefs);
                    let got = build_dict(r).filter(&parsed);
                    let v = verdict_eval("eval-of-parsed-text", &spaced, r, got, want, &ks);
                    if v.is_fail() {
                        return v;
                    }
                }
                rec.class("route:text->parser->eval");
            }
        } else {
            rec.class("route:text-rejected-by-parser");
        }
        Verdict::Pass
    });
    match r {
        Ok(v) => v,
        Err(p) => Verdict::fail(format!("C07:{}:{ks}", panic_sig(&p)), format!("evaluating `{text}` panicked: {} at {}", p.msg, p.location)),
    }
}

// ---------------------------------------------------------------------------------------------
// bounded exhaustive slice

fn universe_value(i: usize) -> Option<RVal> {
    match i {
        0 => None,
        1 => Some(RVal::num(1.0)),
        2 => Some(RVal::Num(2f64.to_bits(), Some(vec!["meter".into(), "m".into()]))),
        3 => Some(RVal::Str("x".into())),
        4 => Some(RVal::Bool(true)),
        5 => Some(RVal::Ref("r".into(), None)),
        // a Number that is not ordered relative to any literal (seeded change C07-d: Value-level `>` through the total order)
        6 => Some(RVal::num(f64::NAN)),
        _ => Some(RVal::List(vec![RVal::num(1.0), RVal::Str("x".into())])),
    }
}

fn enumerate(ctx: &mut Ctx) {
    // tag names as records have them (`id`, `dis`); the literal universe has a Ref and a Str for them
    let names = ["id", "dis", "c"];
    let lits: Vec<RVal> = (1..=5).map(|i| universe_value(i).unwrap()).collect();
    let mut terms: Vec<FTerm> = vec![];
    for n in names {
        terms.push(FTerm::Has(vec![n.to_string()]));
        terms.push(FTerm::Missing(vec![n.to_string()]));
        for op in OPS {
            for l in &lits {
                terms.push(FTerm::Cmp(vec![n.to_string()], op, l.clone()));
            }
        }
    }
    let mut records: Vec<RDict> = vec![];
    for i in 0..8usize.pow(3) {
        let mut r = RDict::new();
        for (k, n) in names.iter().enumerate() {
            if let Some(v) = universe_value((i / 8usize.pow(k as u32)) % 8) {
                r.insert(n.to_string(), v);
            }
        }
        records.push(r);
    }
    let built: Vec<Dict> = records.iter().map(build_dict).collect();
    // all records as the rows of one grid (many rows share their `id`, `dis`, ...): filter_all must select exactly the accepted rows
    let all_rows = Grid::make_from_dicts(built.clone());
    // size 1 and 2 (and, or); thorough adds size 3 over a reduced term set with all and/or/paren shapes
    let mut filters: Vec<FOr> = terms.iter().map(|t| FOr::single(t.clone())).collect();
    for t1 in &terms {
        for t2 in &terms {
            filters.push(FOr(vec![FAnd(vec![t1.clone(), t2.clone()])]));
            filters.push(FOr(vec![FAnd(vec![t1.clone()]), FAnd(vec![t2.clone()])]));
        }
    }
    let small: Vec<FTerm> = terms
        .iter()
        .filter(|t| match t {
            FTerm::Has(p) | FTerm::Missing(p) => p[0] != "c",
            FTerm::Cmp(p, _, v) => p[0] != "c" && matches!(v, RVal::Num(_, None) | RVal::Str(_) | RVal::Ref(..)),
            _ => false,
        })
        .cloned()
        .collect();
    let size3_step = ctx.tier.pick(23, 1) as usize;
    let mut k = ctx.seed as usize % size3_step;
    for t1 in &small {
        for t2 in &small {
            for t3 in &small {
                k += 1;
                if k % size3_step != 0 {
                    continue;
                }
                let (a, b, c) = (t1.clone(), t2.clone(), t3.clone());
                filters.push(FOr(vec![FAnd(vec![a.clone()]), FAnd(vec![b.clone(), c.clone()])])); // a or b and c
                filters.push(FOr(vec![FAnd(vec![a.clone(), b.clone()]), FAnd(vec![c.clone()])])); // a and b or c
                filters.push(FOr(vec![FAnd(vec![FTerm::Parens(FOr(vec![FAnd(vec![a.clone()]), FAnd(vec![b.clone()])])), c.clone()])])); // (a or b) and c
                filters.push(FOr(vec![FAnd(vec![a, FTerm::Parens(FOr(vec![FAnd(vec![b]), FAnd(vec![c])]))])])); // a and (b or c)
            }
        }
    }
    let nfilters = filters.len();
    let results: std::sync::Mutex<(Rec, Vec<(Verdict, J)>)> = std::sync::Mutex::new((Rec::new(), vec![]));
    std::thread::scope(|s| {
        for shard in 0..SHARDS {
            let (filters, records, built, results, all_rows) = (&filters, &records, &built, &results, &all_rows);
            s.spawn(move || {
                let mut rec = Rec::new();
                let mut fails = vec![];
                for fi in (shard..filters.len()).step_by(SHARDS) {
                    let f = &filters[fi];
                    let lib = to_lib(f);
                    // half of them through the parser as well
                    let parsed = if fi % 2 == 0 { Filter::try_from(print(f, &[]).0.as_str()).ok() } else { None };
                    let mut accepted: Vec<usize> = vec![];
                    let mut any_open = false;
                    for (ri, r) in records.iter().enumerate() {
                        rec.evals += 1;
                        let want = eval_or(f, r, &NoRefs);
                        if want == Tri::Open {
                            any_open = true;
                            continue;
                        }
                        if want == Tri::True {
                            accepted.push(ri);
                        }
                        let got = match guarded(|| built[ri].filter(&lib)) {
                            Ok(g) => g,
                            Err(p) => {
                                if fails.len() < 3 {
                                    fails.push((Verdict::fail(format!("C07:exhaustive:{}", panic_sig(&p)), p.msg), json!({"filter": or_json(f), "records": [to_json(&RVal::Dict(r.clone()))], "store": {}, "choices": []})));
                                }
                                continue;
                            }
                        };
                        let mut v = verdict_eval("exhaustive", &print(f, &[]).0, r, got, want, &kinds(f));
                        if !v.is_fail() {
                            if let Some(p) = &parsed {
                                let got2 = built[ri].filter(p);
                                v = verdict_eval("exhaustive-parsed", &print(f, &[]).0, r, got2, want, &kinds(f));
                            }
                        }
                        if v.is_fail() && fails.len() < 3 {
                            fails.push((v, json!({"filter": or_json(f), "records": [to_json(&RVal::Dict(r.clone()))], "store": {}, "choices": []})));
                        }
                    }
                    if !any_open && fails.is_empty() {
                        rec.evals += 1;
                        let got: Vec<&Dict> = all_rows.filter_all(&lib);
                        let same = got.len() == accepted.len() && got.iter().zip(accepted.iter()).all(|(d, ri)| std::ptr::eq(*d, &all_rows.rows[*ri]));
                        let first_ok = match (all_rows.filter(&lib), accepted.first()) {
                            (Some(d), Some(ri)) => std::ptr::eq(d, &all_rows.rows[*ri]),
                            (None, None) => true,
                            _ => false,
                        };
                        if !same || !first_ok {
                            fails.push((
                                Verdict::fail(
                                    format!("C07:exhaustive:grid-filter_all:{}", kinds(f)),
                                    format!("filter `{}` over the {} records as one grid: filter_all returns {} rows (first match ok: {first_ok}), the semantics select {}", print(f, &[]).0, records.len(), got.len(), accepted.len()),
                                ),
                                json!({"filter": or_json(f), "records": accepted.iter().take(3).map(|ri| to_json(&RVal::Dict(records[*ri].clone()))).collect::<Vec<_>>(), "store": {}, "choices": []}),
                            ));
                        }
                    }
                    if f.term_count() >= 2 || !matches!(f.0[0].0[0], FTerm::Has(_)) {
                        rec.nontrivial(key_of(&format!("{f:?}")));
                    }
                }
                let mut m = results.lock().unwrap();
                m.0.merge(rec);
                m.1.extend(fails);
            });
        }
    });
    let (rec, fails) = results.into_inner().unwrap();
    ctx.rec.merge(rec);
    ctx.extra.insert("exhaustive_filters".into(), json!(nfilters));
    ctx.extra.insert("exhaustive_records".into(), json!(records.len()));
    for (v, c) in fails {
        ctx.report("filter-eval", v, c);
    }
}

/// Every unit of the database x a few magnitudes x all six operators: a tag that *is* the literal (same magnitude, same
/// unit) satisfies `==`, `<=`, `>=` and no other comparison - whatever the unit's scale and offset are (a comparison that
/// converts one side on its way loses this for degrees Fahrenheit, feet or percent). Goes through `check_case`, so the
/// parser route, the grid route and the resolver routes see each of these cases as well.
fn same_unit_equal(ctx: &mut Ctx) {
    const MAGS: [f64; 8] = [70.0, 0.1, 1.0 / 3.0, 98.6, -40.0, 1e-7, 12345.678, 3.0];
    let units: Vec<Vec<String>> = unit_table().iter().map(|(_, u)| u.ids.clone()).collect();
    for (ui, ids) in units.iter().enumerate() {
        for (mi, m) in MAGS.iter().enumerate() {
            // two magnitudes per unit and operator keep the pass at a few thousand cases
            if (ui + mi) % 4 != 0 {
                continue;
            }
            for op in OPS {
                let lit = RVal::Num(m.to_bits(), Some(ids.clone()));
                let mut r = RDict::new();
                r.insert("c".to_string(), lit.clone());
                r.insert("dis".to_string(), RVal::Str("x".into()));
                let c = FCase { filter: FOr(vec![FAnd(vec![FTerm::Cmp(vec!["c".to_string()], op, lit)])]), records: vec![r], store: BTreeMap::new(), choices: vec![] };
                ctx.rec.evals += 1;
                let v = check_case(&c, &mut ctx.rec);
                ctx.rec.class("same-unit-equal");
                ctx.rec.nontrivial(key_of(&format!("same-unit-equal:{ui}:{mi}:{}", op.text())));
                ctx.report("filter-eval", v, c.to_json());
            }
        }
    }
}

pub fn run(ctx: &mut Ctx) {
    ctx.rule("generated: (filter AST with every term kind, every literal kind the syntax admits, paths of 1-4 segments, and/or/paren nesting; 1-3 records whose tags are steered near the filter's literals: equal, equal-but-for-the-display-name (Refs), same magnitude in a sibling unit (EUR/USD, Hz/per_second) or no unit, just above, just below, other kind, missing, Null, NaN, +-INF, list containing / not containing it, nested dicts; a small ref store with cycles) - the libhaystack Filter is built from the AST through the public node fields (and also through text -> parser); oracle: a direct evaluator of the statement (Tri-valued: comparisons of Numbers with different units are left open and only counted); grids: filter_all returns exactly the accepted rows in order, filter the first; exhaustive slice: all filters of size <= 2 (and, for a reduced term set, size 3 in all four and/or/paren shapes) over names {id,dis,c}, literals {1, 2m, \"x\", true, @r}, all six operators against all 512 records over an 8-value universe (absent, 1, 2m, \"x\", true, @r, NaN, [1,\"x\"]), plus, per filter, all 512 records as the rows of one grid (filter_all = exactly the accepted rows in order, filter = the first); every unit of the database x two of eight magnitudes x six operators with the tag equal to the literal (same magnitude, same unit: exactly ==, <=, >= hold); non-trivial: filter has a comparison, `not` or `->` and some path resolves; distinct by (filter text, record)");
    ctx.assume("Ref equality ignores the display name and timestamps compare by instant (Haystack semantics); ^symbol / relationship terms are decided by C13 and evaluate to false against the empty default namespace");
    enumerate(ctx);
    same_unit_equal(ctx);
    let depth = ctx.tier.pick(2, 3) as u32;
    ctx.run_sub::<FCase>("filter-eval", ctx.tier.pick(160_000, 3_200_000), &move || fcase(depth), &check_case);
}

pub fn replay(kind: &str, case: &J, rec: &mut Rec) -> Verdict {
    match kind {
        "filter-eval" => FCase::from_json(case).map(|c| check_case(&c, rec)).unwrap_or_else(|e| Verdict::fail("infra:bad-replay", e)),
        _ => Verdict::fail("infra:unknown-kind", kind),
    }
}
