//! C01 — Zinc encode -> decode returns the original value.

use super::common::*;
use crate::gen::value::{top_value, GenCfg};
use crate::runner::{key_of, Case, Ctx, Rec, Verdict};
use crate::rval::*;
use serde_json::Value as J;

pub fn check_value(v: &RVal, rec: &mut Rec) -> Verdict {
    classify(v, rec);
    let hv = build(v);
    // 1. top level
    let text = match zinc_encode(&hv) {
        Ok(t) => t,
        Err(f) => return prefix_sig("C01:zinc-rt", f, &shape(v)),
    };
    if !v.is_singleton() && !matches!(v, RVal::Bool(_)) {
        rec.nontrivial(key_of(&text));
    }
    rec.sample(|| format!("{} => {:?}", render(v), trunc(&text, 200)));
    // the same text whatever the writer: `to_zinc` into a writer that takes a few bytes per call
    {
        let r = zinc_encode_short_writes(&hv, &text);
        if r.is_fail() {
            return prefix_sig("C01:zinc-rt", r, &shape(v));
        }
    }
    // a decode that fails must leave nothing behind on this thread: two damaged prefixes of the text first
    // (cut at a position derived from the text, and inside its first string literal)
    {
        let cut = |at: usize| -> &str {
            let mut at = at.min(text.len());
            while !text.is_char_boundary(at) {
                at -= 1;
            }
            &text[..at]
        };
        let at = (key_of(&text) as usize) % (text.len() + 1);
        let mut rejected = 0;
        for t in [Some(cut(at)), text.find('"').map(|q| cut(q + 3))].into_iter().flatten() {
            if !matches!(crate::runner::fueled(t.len(), || libhaystack::encoding::zinc::decode::from_str(t)), Ok(Ok(_))) {
                rejected += 1;
            }
        }
        if rejected > 0 {
            rec.class("preceded-by-a-rejected-decode-on-the-same-thread");
        }
    }
    let back = match zinc_decode(&text) {
        Ok(b) => b,
        Err(f) => return prefix_sig("C01:zinc-rt", f, &shape(v)),
    };
    let r = diff_verdict_strict_zero("C01:zinc-rt", v, &project(&back), &text, rec);
    if r.is_fail() {
        return r;
    }
    // decoding the same text from a reader that hands it out in pieces (a socket, a pipe) is decoding too
    match zinc_decode_in_pieces(&text) {
        Ok(b2) => {
            if let Some(x) = diff(&project(&back), &project(&b2)).diffs.first() {
                return Verdict::fail(format!("C01:zinc-rt:reader:diff:{}:{}", x.code, shape(v)), format!("decoded from a reader in pieces: {} at {}: {} (text {:?})", x.code, x.path, x.detail, trunc(&text, 200)));
            }
        }
        Err(f) => return prefix_sig("C01:zinc-rt", f, &shape(v)),
    }
    // 2. the same value embedded as a list element (exercises `<< >>` for grids)
    let wrapped = RVal::List(vec![v.clone()]);
    let hv2 = build(&wrapped);
    let text2 = match zinc_encode(&hv2) {
        Ok(t) => t,
        Err(f) => return prefix_sig("C01:zinc-rt:in-list", f, &shape(v)),
    };
    let back2 = match zinc_decode(&text2) {
        Ok(b) => b,
        Err(f) => return prefix_sig("C01:zinc-rt:in-list", f, &shape(v)),
    };
    diff_verdict_strict_zero("C01:zinc-rt:in-list", &wrapped, &project(&back2), &text2, rec)
}

/// One value per (shape, depth): `depth` collections nested in each other, closed by a scalar.
/// shape 0 lists, 1 dicts, 2 grids (in a cell), 3 grids (in grid meta), 4 alternating list/dict/grid.
pub fn deep_value(shape: u8, depth: usize) -> RVal {
    let mut v = RVal::Str("leaf".into());
    for level in 0..depth {
        let kind = match shape {
            0 => 0,
            1 => 1,
            2 => 2,
            3 => 3,
            _ => level % 3,
        };
        v = match kind {
            0 => RVal::List(vec![RVal::num(level as f64), v]),
            1 => RVal::Dict([("a".to_string(), v), ("n".to_string(), RVal::num(level as f64))].into_iter().collect()),
            2 => RVal::Grid(RGrid {
                meta: None,
                cols: vec![RCol { name: "a".into(), meta: None }, RCol { name: "b".into(), meta: None }],
                rows: vec![[("a".to_string(), RVal::Marker), ("b".to_string(), v)].into_iter().collect()],
            }),
            _ => RVal::Grid(RGrid {
                meta: Some([("m".to_string(), v)].into_iter().collect()),
                cols: vec![RCol { name: "a".into(), meta: None }],
                rows: vec![],
            }),
        };
    }
    v
}

/// The decoder bounds nesting at 256 levels (repair da31585); up to that bound depth must not matter.
/// Runs on a thread with a large stack (every level costs native stack in encoder, decoder, projection and drop).
fn deep_ladder(ctx: &mut Ctx) {
    let depths: Vec<usize> = vec![1, 2, 3, 8, 16, 32, 63, 64, 65, 100, 126, 127, 128, 129, 160, 200, 230, 250];
    let results = std::thread::Builder::new()
        .stack_size(1 << 30)
        .spawn(move || {
            let mut rec = Rec::new();
            let mut fails = vec![];
            for shape in 0u8..5 {
                for &d in &depths {
                    rec.evals += 1;
                    rec.nontrivial(key_of(&format!("deep:{shape}:{d}")));
                    rec.class(&format!("deep-nesting:shape{shape}"));
                    let v = deep_value(shape, d);
                    let r = crate::runner::guarded(|| -> Verdict {
                        let hv = build(&v);
                        let text = match zinc_encode(&hv) {
                            Ok(t) => t,
                            Err(f) => return prefix_sig("C01:zinc-rt:deep", f, &format!("shape{shape}")),
                        };
                        let back = match zinc_decode(&text) {
                            Ok(b) => b,
                            Err(f) => return prefix_sig("C01:zinc-rt:deep", f, &format!("shape{shape}:depth{d}")),
                        };
                        match diff(&v, &project(&back)).diffs.first() {
                            None => Verdict::Pass,
                            Some(x) => Verdict::fail(format!("C01:zinc-rt:deep:diff:{}:shape{shape}", x.code), format!("depth {d}: {} at {}: {}", x.code, trunc(&x.path, 80), x.detail)),
                        }
                    });
                    let r = match r {
                        Ok(v) => v,
                        Err(p) => Verdict::fail(format!("C01:zinc-rt:deep:{}", crate::runner::panic_sig(&p)), format!("depth {d} shape {shape}: {}", p.msg)),
                    };
                    let r = match r {
                        Verdict::Fail { sig, msg } => Verdict::Fail { sig, msg: trunc(&msg, 400) },
                        p => p,
                    };
                    if r.is_fail() {
                        fails.push((r, serde_json::json!({"deep": {"shape": shape, "depth": d}})));
                        break; // deeper ones of this shape fail alike
                    }
                }
            }
            (rec, fails)
        })
        .expect("spawn")
        .join();
    match results {
        Ok((rec, fails)) => {
            ctx.rec.merge(rec);
            for (v, c) in fails {
                ctx.report("zinc-rt-deep", v, c);
            }
        }
        Err(_) => ctx.inconclusive.push("the deep-nesting ladder thread died".into()),
    }
}

pub fn run(ctx: &mut Ctx) {
    ctx.rule("generated: well-formed values of all 18 kinds (proptest, structured); oracle: decode(encode(v)) strictly equals v (RVal projection: kind, f64 bits up to sign of zero, unit ids, every string, Ref dis, instant+offset+city, collections in order; Null tag == absent tag); non-trivial: not a singleton/Bool kind; distinct by Zinc text; the value is also encoded with to_zinc into a writer that accepts 1-61 bytes per call (same text required); the text is also decoded through Parser::make over a reader that delivers it in pieces of three generated sizes; every decode is preceded by the (rejected) decode of two damaged prefixes of the same text on the same thread; plus a deep-nesting ladder: lists / dicts / grids in cells / grids in grid meta / alternating, 18 depths from 1 to 250 (the decoder's documented bound is 256 levels)");
    ctx.assume("chrono / chrono-tz give the true zone rules; values are built through public constructors only");
    let depth = ctx.tier.pick(3, 5) as u32;
    let total = ctx.tier.pick(64_000, 1_600_000);
    ctx.run_sub::<RVal>(
        "zinc-rt",
        total,
        &move || top_value(GenCfg::wf(depth)),
        &|v, rec| check_value(v, rec),
    );
    deep_ladder(ctx);
}

pub fn replay(kind: &str, case: &J, rec: &mut Rec) -> Verdict {
    match kind {
        "zinc-rt-deep" => {
            let (shape, d) = (case["deep"]["shape"].as_u64().unwrap_or(0) as u8, case["deep"]["depth"].as_u64().unwrap_or(1) as usize);
            std::thread::Builder::new()
                .stack_size(1 << 30)
                .spawn(move || {
                    let v = deep_value(shape, d);
                    let hv = build(&v);
                    let r = zinc_encode(&hv).and_then(|t| zinc_decode(&t));
                    match r {
                        Ok(back) => match diff(&v, &project(&back)).diffs.first() {
                            None => Verdict::Pass,
                            Some(x) => Verdict::fail(format!("C01:zinc-rt:deep:diff:{}:shape{shape}", x.code), x.detail.clone()),
                        },
                        Err(f) => prefix_sig("C01:zinc-rt:deep", f, &format!("shape{shape}:depth{d}")),
                    }
                })
                .expect("spawn")
                .join()
                .unwrap_or_else(|_| Verdict::fail("C01:zinc-rt:deep:panic", "the deep round trip panicked"))
        }
        "zinc-rt" => match RVal::from_json(case) {
            Ok(v) => check_value(&v, rec),
            Err(e) => Verdict::fail("infra:bad-replay", e),
        },
        _ => Verdict::fail("infra:unknown-kind", kind),
    }
}
