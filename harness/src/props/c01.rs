//! C01 — Zinc encode -> decode returns the original value.

use super::common::*;
use crate::gen::value::{top_value, GenCfg};
use crate::runner::{key_of, Case, Ctx, Rec, Verdict};
use crate::rval::*;
use serde_json::Value as J;

pub fn check_value(v: &RVal, rec: &mut Rec) -> Verdict {
    classify(v, rec);
    let hv = build(v);
    // 1. top level
    let text = match zinc_encode(&hv) {
        Ok(t) => t,
        Err(f) => return prefix_sig("C01:zinc-rt", f, &shape(v)),
    };
    if !v.is_singleton() && !matches!(v, RVal::Bool(_)) {
        rec.nontrivial(key_of(&text));
    }
    rec.sample(|| format!("{} => {:?}", render(v), trunc(&text, 200)));
    let back = match zinc_decode(&text) {
        Ok(b) => b,
        Err(f) => return prefix_sig("C01:zinc-rt", f, &shape(v)),
    };
    let r = diff_verdict_strict_zero("C01:zinc-rt", v, &project(&back), &text, rec);
    if r.is_fail() {
        return r;
    }
    // 2. the same value embedded as a list element (exercises `<< >>` for grids)
    let wrapped = RVal::List(vec![v.clone()]);
    let hv2 = build(&wrapped);
    let text2 = match zinc_encode(&hv2) {
        Ok(t) => t,
        Err(f) => return prefix_sig("C01:zinc-rt:in-list", f, &shape(v)),
    };
    let back2 = match zinc_decode(&text2) {
        Ok(b) => b,
        Err(f) => return prefix_sig("C01:zinc-rt:in-list", f, &shape(v)),
    };
    diff_verdict_strict_zero("C01:zinc-rt:in-list", &wrapped, &project(&back2), &text2, rec)
}

pub fn run(ctx: &mut Ctx) {
    ctx.rule("generated: well-formed values of all 18 kinds (proptest, structured); oracle: decode(encode(v)) strictly equals v (RVal projection: kind, f64 bits up to sign of zero, unit ids, every string, Ref dis, instant+offset+city, collections in order; Null tag == absent tag); non-trivial: not a singleton/Bool kind; distinct by Zinc text");
    ctx.assume("chrono / chrono-tz give the true zone rules; values are built through public constructors only");
    let depth = ctx.tier.pick(3, 5) as u32;
    let total = ctx.tier.pick(64_000, 1_600_000);
    ctx.run_sub::<RVal>(
        "zinc-rt",
        total,
        &move || top_value(GenCfg::wf(depth)),
        &|v, rec| check_value(v, rec),
    );
}

pub fn replay(kind: &str, case: &J, rec: &mut Rec) -> Verdict {
    match kind {
        "zinc-rt" => match RVal::from_json(case) {
            Ok(v) => check_value(&v, rec),
            Err(e) => Verdict::fail("infra:bad-replay", e),
        },
        _ => Verdict::fail("infra:unknown-kind", kind),
    }
}
