//! C02 — Hayson (JSON) encode -> decode returns the original value.

use super::common::*;
use crate::gen::value::{top_value, GenCfg};
use crate::runner::{guarded, key_of, panic_sig, Case, Ctx, Rec, Verdict};
use crate::rval::*;
use libhaystack::val::*;
use serde_json::Value as J;

fn enc_fail(route: &str, v: &RVal, e: String) -> Verdict {
    Verdict::fail(format!("C02:hayson-rt:{route}:encode-error:{}", shape(v)), e)
}

fn json_decode_str(text: &str) -> Result<Value, Verdict> {
    match guarded(|| serde_json::from_str::<Value>(text)) {
        Ok(Ok(v)) => Ok(v),
        Ok(Err(e)) => Err(Verdict::fail("decode-error", format!("Hayson decoder rejected {}: {e}", trunc(text, 300)))),
        Err(p) => Err(Verdict::fail(
            format!("decode-{}", panic_sig(&p)),
            format!("Hayson decoder panicked on {}: {} at {}", trunc(text, 300), p.msg, p.location),
        )),
    }
}

macro_rules! typed_rt {
    ($T:ty, $inner:expr, $wrap:expr, $v:expr, $rec:expr) => {{
        let inner: &$T = $inner;
        let r = guarded(|| serde_json::to_string(inner).map_err(|e| e.to_string()).and_then(|s| {
            serde_json::from_str::<$T>(&s).map(|b| (s.clone(), b)).map_err(|e| format!("{e} (text {})", trunc(&s, 200)))
        }));
        match r {
            Ok(Ok((s, back))) => {
                let backv: Value = $wrap(back);
                let d = diff_verdict(concat!("C02:hayson-rt:typed-", stringify!($T)), $v, &project(&backv), &s, $rec);
                if d.is_fail() {
                    return d;
                }
                // the same typed decoder fed by sources that cannot lend their strings: a reader, and a serde_json::Value
                let r2 = guarded(|| {
                    let a = serde_json::from_reader::<_, $T>(std::io::Cursor::new(s.as_bytes())).map_err(|e| format!("from_reader: {e}"))?;
                    let b = serde_json::to_value(inner).and_then(serde_json::from_value::<$T>).map_err(|e| format!("to_value/from_value: {e}"))?;
                    Ok::<($T, $T), String>((a, b))
                });
                match r2 {
                    Ok(Ok((a, b))) => {
                        for (route, x) in [("reader", a), ("value", b)] {
                            let xv: Value = $wrap(x);
                            let d = diff_verdict(&format!("C02:hayson-rt:typed-{}-{route}", stringify!($T)), $v, &project(&xv), &s, $rec);
                            if d.is_fail() {
                                return d;
                            }
                        }
                    }
                    Ok(Err(e)) => return Verdict::fail(format!("C02:hayson-rt:typed-{}:error:{}", stringify!($T), shape($v)), format!("typed {} through {e} (text {})", stringify!($T), trunc(&s, 200))),
                    Err(p) => return Verdict::fail(format!("C02:hayson-rt:typed-{}:{}:{}", stringify!($T), panic_sig(&p), shape($v)), p.msg),
                }
            }
            Ok(Err(e)) => {
                return Verdict::fail(
                    format!("C02:hayson-rt:typed-{}:error:{}", stringify!($T), shape($v)),
                    format!("typed {} round trip failed: {e}", stringify!($T)),
                )
            }
            Err(p) => {
                return Verdict::fail(
                    format!("C02:hayson-rt:typed-{}:{}:{}", stringify!($T), panic_sig(&p), shape($v)),
                    format!("typed {} round trip panicked: {} at {}", stringify!($T), p.msg, p.location),
                )
            }
        }
    }};
}

/// In Hayson the grid meta member "ver" *is* the format version, so a meta tag of that name is
/// outside the model for this encoding; the generator's output is steered away from it.
fn strip_meta_ver(v: &RVal, rec: &mut Rec) -> RVal {
    let mut v = v.clone();
    let mut n = 0;
    v.walk_mut(&mut |x| {
        if let RVal::Grid(g) = x {
            if let Some(m) = &mut g.meta {
                if m.remove("ver").is_some() {
                    n += 1;
                }
            }
        }
    });
    for _ in 0..n {
        rec.excluded("grid-meta-tag-named-ver(reserved-by-hayson)");
    }
    v
}

pub fn check_value(v: &RVal, rec: &mut Rec) -> Verdict {
    let v = &strip_meta_ver(v, rec);
    classify(v, rec);
    let hv = build(v);
    // route 1: to_string / from_str
    let text = match guarded(|| serde_json::to_string(&hv)) {
        Ok(Ok(t)) => t,
        Ok(Err(e)) => return enc_fail("str", v, format!("serde_json::to_string failed: {e}")),
        Err(p) => return enc_fail("str", v, format!("encoder panicked: {} at {}", p.msg, p.location)),
    };
    let has_kind = text.contains("\"_kind\"");
    let mut big = false;
    v.walk(&mut |n| {
        if let RVal::Num(b, _) = n {
            let f = f64::from_bits(*b);
            if f.is_finite() && (f.abs() > i32::MAX as f64) {
                big = true;
            }
        }
    });
    if has_kind || big {
        rec.nontrivial(key_of(&text));
    }
    if big {
        rec.class("number:outside-i32");
    }
    rec.sample(|| format!("{} => {}", render(v), trunc(&text, 200)));
    // a decode that fails must leave nothing behind on this thread: damaged versions of the text are decoded first
    // (cut at a derived position; with a wrong `_kind`; with a member missing its value)
    {
        let mut at = (key_of(&text) as usize) % (text.len() + 1);
        while !text.is_char_boundary(at) {
            at -= 1;
        }
        let damaged = [text[..at].to_string(), text.replacen("\"_kind\":\"", "\"_kind\":\"no-", 1), format!("[[[{}", text.replacen(':', "::", 1))];
        let mut rejected = 0;
        for t in &damaged {
            if !matches!(guarded(|| serde_json::from_str::<Value>(t)), Ok(Ok(_))) {
                rejected += 1;
            }
        }
        if rejected > 0 {
            rec.class("preceded-by-rejected-decodes-on-the-same-thread");
        }
    }
    let back = match json_decode_str(&text) {
        Ok(b) => b,
        Err(f) => return prefix_sig("C02:hayson-rt:str", f, &shape(v)),
    };
    let r = diff_verdict("C02:hayson-rt:str", v, &project(&back), &text, rec);
    if r.is_fail() {
        return r;
    }
    // route 2: to_vec / from_slice
    match guarded(|| serde_json::to_vec(&hv).map_err(|e| e.to_string()).and_then(|b| serde_json::from_slice::<Value>(&b).map_err(|e| e.to_string()))) {
        Ok(Ok(back)) => {
            let r = diff_verdict("C02:hayson-rt:vec", v, &project(&back), &text, rec);
            if r.is_fail() {
                return r;
            }
        }
        Ok(Err(e)) => return Verdict::fail(format!("C02:hayson-rt:vec:error:{}", shape(v)), e),
        Err(p) => return Verdict::fail(format!("C02:hayson-rt:vec:{}:{}", panic_sig(&p), shape(v)), p.msg),
    }
    // route 2b: from_reader (a source that cannot lend its strings)
    match guarded(|| serde_json::from_reader::<_, Value>(std::io::Cursor::new(text.as_bytes())).map_err(|e| e.to_string())) {
        Ok(Ok(back)) => {
            let r = diff_verdict("C02:hayson-rt:reader", v, &project(&back), &text, rec);
            if r.is_fail() {
                return r;
            }
        }
        Ok(Err(e)) => return Verdict::fail(format!("C02:hayson-rt:reader:error:{}", shape(v)), e),
        Err(p) => return Verdict::fail(format!("C02:hayson-rt:reader:{}:{}", panic_sig(&p), shape(v)), p.msg),
    }
    // route 3: to_value / from_value
    match guarded(|| serde_json::to_value(&hv).map_err(|e| e.to_string()).and_then(|j| serde_json::from_value::<Value>(j).map_err(|e| e.to_string()))) {
        Ok(Ok(back)) => {
            let r = diff_verdict("C02:hayson-rt:value", v, &project(&back), &text, rec);
            if r.is_fail() {
                return r;
            }
        }
        Ok(Err(e)) => return Verdict::fail(format!("C02:hayson-rt:value:error:{}", shape(v)), e),
        Err(p) => return Verdict::fail(format!("C02:hayson-rt:value:{}:{}", panic_sig(&p), shape(v)), p.msg),
    }
    // typed round trips T -> json -> T for every typed value implementing both traits
    match &hv {
        Value::Number(x) => typed_rt!(Number, x, |b: Number| Value::Number(b), v, rec),
        Value::Ref(x) => typed_rt!(Ref, x, |b: Ref| Value::Ref(b), v, rec),
        Value::Uri(x) => typed_rt!(Uri, x, |b: Uri| Value::Uri(b), v, rec),
        Value::Symbol(x) => typed_rt!(Symbol, x, |b: Symbol| Value::Symbol(b), v, rec),
        Value::Date(x) => typed_rt!(Date, x, |b: Date| Value::Date(b), v, rec),
        Value::Time(x) => typed_rt!(Time, x, |b: Time| Value::Time(b), v, rec),
        Value::DateTime(x) => typed_rt!(DateTime, x, |b: DateTime| Value::DateTime(b), v, rec),
        Value::Coord(x) => typed_rt!(Coord, x, |b: Coord| Value::Coord(b), v, rec),
        Value::XStr(x) => typed_rt!(XStr, x, |b: XStr| Value::XStr(b), v, rec),
        Value::Dict(x) => typed_rt!(Dict, x, |b: Dict| Value::Dict(b), v, rec),
        Value::Grid(x) => typed_rt!(Grid, x, |b: Grid| Value::Grid(b), v, rec),
        Value::List(x) => typed_rt!(List, x, |b: List| Value::List(b), v, rec),
        Value::Marker => typed_rt!(Marker, &Marker, |_b: Marker| Value::Marker, v, rec),
        Value::Na => typed_rt!(Na, &Na, |_b: Na| Value::Na, v, rec),
        Value::Remove => typed_rt!(Remove, &Remove, |_b: Remove| Value::Remove, v, rec),
        _ => {}
    }
    Verdict::Pass
}

/// Many threads encoding and decoding at the same moment: each gets what it gets alone (the codecs share no state).
fn concurrent_round_trips(ctx: &mut Ctx) {
    let depths = [3usize, 8, 12, 20];
    for (round, &depth) in depths.iter().enumerate() {
        let threads = 64usize;
        let v = super::c01::deep_value(4, depth);
        let hv = build(&v);
        let alone = serde_json::to_string(&hv).map_err(|e| e.to_string());
        let barrier = std::sync::Barrier::new(threads);
        let results: Vec<Result<String, String>> = std::thread::scope(|s| {
            let hs: Vec<_> = (0..threads)
                .map(|_| {
                    s.spawn(|| {
                        barrier.wait();
                        let mut last = Err("not run".to_string());
                        for _ in 0..40 {
                            last = serde_json::to_string(&hv).map_err(|e| e.to_string()).and_then(|t| serde_json::from_str::<Value>(&t).map(|_| t).map_err(|e| format!("decode: {e}")));
                            if last.is_err() {
                                break;
                            }
                        }
                        last
                    })
                })
                .collect();
            hs.into_iter().map(|h| h.join().unwrap_or_else(|_| Err("panicked".into()))).collect()
        });
        ctx.rec.evals += 1;
        ctx.rec.class("concurrent:64-threads-encode+decode");
        ctx.rec.nontrivial(key_of(&format!("concurrent:{round}")));
        let bad = results.iter().filter(|r| **r != alone).count();
        if bad > 0 {
            let first = results.iter().find(|r| **r != alone).cloned();
            ctx.report(
                "concurrent",
                Verdict::fail("C02:hayson-rt:concurrent", format!("{bad} of {threads} threads encoding/decoding a depth-{depth} value at the same time got something else than a lone thread gets: {:?}", first.map(|r| r.map(|t| trunc(&t, 80))))),
                serde_json::json!({"depth": depth, "threads": threads}),
            );
        }
    }
}

pub fn run(ctx: &mut Ctx) {
    ctx.rule("generated: well-formed values of all 18 kinds; routes to_string/from_str, to_vec/from_slice, from_reader, to_value/from_value and typed T->json->T (from_str, from_reader, from_value); each decode preceded by three damaged (rejected) versions of the same text on the same thread; 64 threads round-tripping deep values at the same moment get what a lone thread gets; oracle: strict RVal equality (absent grid/column meta == empty); non-trivial: JSON contains a _kind object or a finite number outside i32; distinct by JSON text");
    ctx.assume("serde_json implements JSON syntax correctly; chrono-tz zone rules");
    let depth = ctx.tier.pick(3, 5) as u32;
    let total = ctx.tier.pick(48_000, 960_000);
    ctx.run_sub::<RVal>("hayson-rt", total, &move || top_value(GenCfg::wf(depth)), &|v, rec| check_value(v, rec));
    concurrent_round_trips(ctx);
}

pub fn replay(kind: &str, case: &J, rec: &mut Rec) -> Verdict {
    match kind {
        "hayson-rt" => match RVal::from_json(case) {
            Ok(v) => check_value(&v, rec),
            Err(e) => Verdict::fail("infra:bad-replay", e),
        },
        "concurrent" => {
            let mut c = Ctx::new("C02", crate::runner::Tier::Quick, 1);
            concurrent_round_trips(&mut c);
            if c.violations.is_empty() {
                Verdict::Pass
            } else {
                Verdict::fail("C02:hayson-rt:concurrent", "threads encoding at the same time do not get what a lone thread gets")
            }
        }
        _ => Verdict::fail("infra:unknown-kind", kind),
    }
}
