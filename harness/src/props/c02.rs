//! C02 — Hayson (JSON) encode -> decode returns the original value.

use super::common::*;
use crate::gen::value::{top_value, GenCfg};
use crate::runner::{guarded, key_of, panic_sig, Case, Ctx, Rec, Verdict};
use crate::rval::*;
use libhaystack::val::*;
use serde_json::Value as J;

fn enc_fail(route: &str, v: &RVal, e: String) -> Verdict {
    Verdict::fail(format!("C02:hayson-rt:{route}:encode-error:{}", shape(v)), e)
}

fn json_decode_str(text: &str) -> Result<Value, Verdict> {
    match guarded(|| serde_json::from_str::<Value>(text)) {
        Ok(Ok(v)) => Ok(v),
        Ok(Err(e)) => Err(Verdict::fail("decode-error", format!("Hayson decoder rejected {}: {e}", trunc(text, 300)))),
        Err(p) => Err(Verdict::fail(
            format!("decode-{}", panic_sig(&p)),
            format!("Hayson decoder panicked on {}: {} at {}", trunc(text, 300), p.msg, p.location),
        )),
    }
}

macro_rules! typed_rt {
    ($T:ty, $inner:expr, $wrap:expr, $v:expr, $rec:expr) => {{
        let inner: &$T = $inner;
        let r = guarded(|| serde_json::to_string(inner).map_err(|e| e.to_string()).and_then(|s| {
            serde_json::from_str::<$T>(&s).map(|b| (s.clone(), b)).map_err(|e| format!("{e} (text {})", trunc(&s, 200)))
        }));
        match r {
            Ok(Ok((s, back))) => {
                let backv: Value = $wrap(back);
                let d = diff_verdict(concat!("C02:hayson-rt:typed-", stringify!($T)), $v, &project(&backv), &s, $rec);
                if d.is_fail() {
                    return d;
                }
            }
            Ok(Err(e)) => {
                return Verdict::fail(
                    format!("C02:hayson-rt:typed-{}:error:{}", stringify!($T), shape($v)),
                    format!("typed {} round trip failed: {e}", stringify!($T)),
                )
            }
            Err(p) => {
                return Verdict::fail(
                    format!("C02:hayson-rt:typed-{}:{}:{}", stringify!($T), panic_sig(&p), shape($v)),
                    format!("typed {} round trip panicked: {} at {}", stringify!($T), p.msg, p.location),
                )
            }
        }
    }};
}

/// In Hayson the grid meta member "ver" *is* the format version, so a meta tag of that name is
/// outside the model for this encoding; the generator's output is steered away from it.
fn strip_meta_ver(v: &RVal, rec: &mut Rec) -> RVal {
    let mut v = v.clone();
    let mut n = 0;
    v.walk_mut(&mut |x| {
        if let RVal::Grid(g) = x {
            if let Some(m) = &mut g.meta {
                if m.remove("ver").is_some() {
                    n += 1;
                }
            }
        }
    });
    for _ in 0..n {
        rec.excluded("grid-meta-tag-named-ver(reserved-by-hayson)");
    }
    v
}

pub fn check_value(v: &RVal, rec: &mut Rec) -> Verdict {
    let v = &strip_meta_ver(v, rec);
    classify(v, rec);
    let hv = build(v);
    // route 1: to_string / from_str
    let text = match guarded(|| serde_json::to_string(&hv)) {
        Ok(Ok(t)) => t,
        Ok(Err(e)) => return enc_fail("str", v, format!("serde_json::to_string failed: {e}")),
        Err(p) => return enc_fail("str", v, format!("encoder panicked: {} at {}", p.msg, p.location)),
    };
    let has_kind = text.contains("\"_kind\"");
    let mut big = false;
    v.walk(&mut |n| {
        if let RVal::Num(b, _) = n {
            let f = f64::from_bits(*b);
            if f.is_finite() && (f.abs() > i32::MAX as f64) {
                big = true;
            }
        }
    });
    if has_kind || big {
        rec.nontrivial(key_of(&text));
    }
    if big {
        rec.class("number:outside-i32");
    }
    rec.sample(|| format!("{} => {}", render(v), trunc(&text, 200)));
    let back = match json_decode_str(&text) {
        Ok(b) => b,
        Err(f) => return prefix_sig("C02:hayson-rt:str", f, &shape(v)),
    };
    let r = diff_verdict("C02:hayson-rt:str", v, &project(&back), &text, rec);
    if r.is_fail() {
        return r;
    }
    // route 2: to_vec / from_slice
    match guarded(|| serde_json::to_vec(&hv).map_err(|e| e.to_string()).and_then(|b| serde_json::from_slice::<Value>(&b).map_err(|e| e.to_string()))) {
        Ok(Ok(back)) => {
            let r = diff_verdict("C02:hayson-rt:vec", v, &project(&back), &text, rec);
            if r.is_fail() {
                return r;
            }
        }
        Ok(Err(e)) => return Verdict::fail(format!("C02:hayson-rt:vec:error:{}", shape(v)), e),
        Err(p) => return Verdict::fail(format!("C02:hayson-rt:vec:{}:{}", panic_sig(&p), shape(v)), p.msg),
    }
    // route 3: to_value / from_value
    match guarded(|| serde_json::to_value(&hv).map_err(|e| e.to_string()).and_then(|j| serde_json::from_value::<Value>(j).map_err(|e| e.to_string()))) {
        Ok(Ok(back)) => {
            let r = diff_verdict("C02:hayson-rt:value", v, &project(&back), &text, rec);
            if r.is_fail() {
                return r;
            }
        }
        Ok(Err(e)) => return Verdict::fail(format!("C02:hayson-rt:value:error:{}", shape(v)), e),
        Err(p) => return Verdict::fail(format!("C02:hayson-rt:value:{}:{}", panic_sig(&p), shape(v)), p.msg),
    }
    // typed round trips T -> json -> T for every typed value implementing both traits
    match &hv {
        Value::Number(x) => typed_rt!(Number, x, |b: Number| Value::Number(b), v, rec),
        Value::Ref(x) => typed_rt!(Ref, x, |b: Ref| Value::Ref(b), v, rec),
        Value::Uri(x) => typed_rt!(Uri, x, |b: Uri| Value::Uri(b), v, rec),
        Value::Symbol(x) => typed_rt!(Symbol, x, |b: Symbol| Value::Symbol(b), v, rec),
        Value::Date(x) => typed_rt!(Date, x, |b: Date| Value::Date(b), v, rec),
        Value::Time(x) => typed_rt!(Time, x, |b: Time| Value::Time(b), v, rec),
        Value::DateTime(x) => typed_rt!(DateTime, x, |b: DateTime| Value::DateTime(b), v, rec),
        Value::Coord(x) => typed_rt!(Coord, x, |b: Coord| Value::Coord(b), v, rec),
        Value::XStr(x) => typed_rt!(XStr, x, |b: XStr| Value::XStr(b), v, rec),
        Value::Dict(x) => typed_rt!(Dict, x, |b: Dict| Value::Dict(b), v, rec),
        Value::Grid(x) => typed_rt!(Grid, x, |b: Grid| Value::Grid(b), v, rec),
        Value::List(x) => typed_rt!(List, x, |b: List| Value::List(b), v, rec),
        Value::Marker => typed_rt!(Marker, &Marker, |_b: Marker| Value::Marker, v, rec),
        Value::Na => typed_rt!(Na, &Na, |_b: Na| Value::Na, v, rec),
        Value::Remove => typed_rt!(Remove, &Remove, |_b: Remove| Value::Remove, v, rec),
        _ => {}
    }
    Verdict::Pass
}

pub fn run(ctx: &mut Ctx) {
    ctx.rule("generated: well-formed values of all 18 kinds; routes to_string/from_str, to_vec/from_slice, to_value/from_value and typed T->json->T; oracle: strict RVal equality (absent grid/column meta == empty); non-trivial: JSON contains a _kind object or a finite number outside i32; distinct by JSON text");
    ctx.assume("serde_json implements JSON syntax correctly; chrono-tz zone rules");
    let depth = ctx.tier.pick(3, 5) as u32;
    let total = ctx.tier.pick(48_000, 960_000);
    ctx.run_sub::<RVal>("hayson-rt", total, &move || top_value(GenCfg::wf(depth)), &|v, rec| check_value(v, rec));
}

pub fn replay(kind: &str, case: &J, rec: &mut Rec) -> Verdict {
    match kind {
        "hayson-rt" => match RVal::from_json(case) {
            Ok(v) => check_value(&v, rec),
            Err(e) => Verdict::fail("infra:bad-replay", e),
        },
        _ => Verdict::fail("infra:unknown-kind", kind),
    }
}
