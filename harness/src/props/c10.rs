//! C10 — Encoders never panic on any constructible value.

use super::common::*;
use crate::gen::value::{spine, top_value, GenCfg};
use crate::runner::{bx, guarded, key_of, panic_sig, Case, Ctx, Rec, Verdict};
use crate::rval::*;
use libhaystack::encoding::zinc::encode::ToZinc;
use libhaystack::filter::nodes::{And, Cmp, CmpOp, Or, Term};
use libhaystack::filter::path::Path;
use libhaystack::filter::Filter;
use libhaystack::val::*;
use proptest::prelude::*;
use serde_json::Value as J;

fn ill_formed(v: &RVal) -> bool {
    fn ident(s: &str) -> bool {
        let mut c = s.chars();
        matches!(c.next(), Some(f) if f.is_ascii_lowercase()) && c.all(|x| x.is_ascii_alphanumeric() || x == '_')
    }
    fn id_ok(s: &str) -> bool {
        !s.is_empty() && s.chars().all(|c| c.is_ascii_alphanumeric() || "_:-.~".contains(c))
    }
    let mut bad = false;
    v.walk(&mut |n| match n {
        RVal::XStr(t, _) => {
            let mut c = t.chars();
            if !(matches!(c.next(), Some(f) if f.is_ascii_uppercase()) && c.all(|x| x.is_ascii_alphanumeric() || x == '_')) {
                bad = true
            }
        }
        RVal::Ref(i, _) => bad |= !id_ok(i),
        RVal::Symbol(s) => bad |= !(id_ok(s) && s.chars().next().map_or(false, |c| c.is_ascii_lowercase())),
        RVal::Uri(u) => bad |= u.chars().any(|c| (c as u32) < 0x20),
        RVal::Num(b, u) => bad |= !f64::from_bits(*b).is_finite() && u.is_some(),
        RVal::Date(y, ..) => bad |= !(0..=9999).contains(y),
        RVal::Dict(d) => bad |= d.keys().any(|k| !ident(k)),
        RVal::Grid(g) => {
            bad |= g.cols.is_empty() || g.cols.iter().any(|c| !ident(&c.name));
            bad |= g.rows.iter().any(|r| r.keys().any(|k| !g.cols.iter().any(|c| &c.name == k)));
        }
        _ => {}
    });
    bad
}

fn call(what: &str, v: &RVal, f: impl FnOnce()) -> Verdict {
    match guarded(f) {
        Ok(()) => Verdict::Pass,
        Err(p) => Verdict::fail(
            format!("C10:{what}:{}", panic_sig(&p)),
            format!("{what} panicked on {}: {} at {}", trunc(&render(v), 200), p.msg, p.location),
        ),
    }
}

macro_rules! try_call {
    ($e:expr) => {{
        let r = $e;
        if r.is_fail() {
            return r;
        }
    }};
}

/// A writer that accepts `cap` bytes and then fails (a full disk, a closed socket, a slice that is too small).
struct LimitedWriter {
    cap: usize,
    written: usize,
}
impl std::io::Write for LimitedWriter {
    fn write(&mut self, buf: &[u8]) -> std::io::Result<usize> {
        if self.written + buf.len() > self.cap {
            return Err(std::io::Error::new(std::io::ErrorKind::WriteZero, "generated: writer is full"));
        }
        self.written += buf.len();
        Ok(buf.len())
    }
    fn flush(&mut self) -> std::io::Result<()> {
        Ok(())
    }
}

pub fn check_value(v: &RVal, rec: &mut Rec) -> Verdict {
    let hv = build(v);
    // encoders given a writer that fails part-way return an error (no panic) and leave nothing behind: the text
    // produced afterwards on the same thread is the text produced before
    {
        let before = guarded(|| libhaystack::encoding::zinc::encode::to_zinc_string(&hv).ok());
        if let Ok(Some(text)) = &before {
            if !text.is_empty() {
                let cap = (key_of(text) as usize) % text.len();
                try_call!(call("to_zinc(failing writer)", v, || {
                    for c in [cap, cap / 2, 0] {
                        let mut w = LimitedWriter { cap: c, written: 0 };
                        let _ = hv.to_zinc(&mut w);
                        let mut w = LimitedWriter { cap: c, written: 0 };
                        let _ = serde_json::to_writer(&mut w, &hv);
                    }
                }));
                rec.class("writer-that-fails-part-way");
                let after = guarded(|| libhaystack::encoding::zinc::encode::to_zinc_string(&hv).ok());
                match after {
                    Ok(Some(t2)) if &t2 == text => {}
                    Ok(other) => {
                        return Verdict::fail(
                            "C10:to_zinc_string:differs-after-a-failed-write",
                            format!("after encoding into a writer that failed, to_zinc_string gives {:?} instead of {:?}", other.map(|t| trunc(&t, 120)), trunc(text, 120)),
                        )
                    }
                    Err(p) => return Verdict::fail(format!("C10:to_zinc_string:{}", panic_sig(&p)), format!("after a failed write: {} at {}", p.msg, p.location)),
                }
            }
        }
    }
    rec.class(&format!("top:{}", v.kind()));
    rec.class(&format!("depth:{}", (v.depth() / 8) * 8));
    let bad = ill_formed(v);
    if bad {
        rec.class("ill-formed");
        rec.nontrivial(key_of(&format!("{v:?}")));
    }
    rec.sample(|| render(v));
    try_call!(call("to_zinc_string", v, || {
        let _ = libhaystack::encoding::zinc::encode::to_zinc_string(&hv);
    }));
    try_call!(call("serde_json::to_string", v, || {
        let _ = serde_json::to_string(&hv);
    }));
    try_call!(call("serde_json::to_value", v, || {
        let _ = serde_json::to_value(&hv);
    }));
    try_call!(call("Value::to_string", v, || {
        // asking for display text: `to_string()` panics when Display returns an error, which is a panic to the caller
        let _ = hv.to_string().len();
        let _ = format!("{hv}").len();
        // the formatter's own knobs (precision, width, fill / alignment, alternate) are part of asking for display text
        let n = (key_of(&format!("{v:?}")) % 40) as usize;
        let _ = format!("{hv:.3}|{hv:.0}|{hv:.n$}|{hv:>12}|{hv:^5.2}|{hv:*<w$.p$}|{hv:#}", w = n + 1, p = n / 2).len();
    }));
    // typed ToZinc / Serialize
    match &hv {
        Value::Number(x) => try_call!(call("Number::to_zinc", v, || {
            let _ = x.to_zinc_string();
            let _ = serde_json::to_string(x);
        })),
        Value::Str(x) => try_call!(call("Str::to_zinc", v, || {
            let _ = x.to_zinc_string();
        })),
        Value::Ref(x) => try_call!(call("Ref::to_zinc", v, || {
            let _ = x.to_zinc_string();
            let _ = serde_json::to_string(x);
            let _ = x.to_string();
        })),
        Value::Uri(x) => try_call!(call("Uri::to_zinc", v, || {
            let _ = x.to_zinc_string();
            let _ = serde_json::to_string(x);
        })),
        Value::Symbol(x) => try_call!(call("Symbol::to_zinc", v, || {
            let _ = x.to_zinc_string();
            let _ = serde_json::to_string(x);
            let _ = x.to_string();
        })),
        Value::Date(x) => try_call!(call("Date::to_zinc", v, || {
            let _ = x.to_zinc_string();
            let _ = serde_json::to_string(x);
        })),
        Value::Time(x) => try_call!(call("Time::to_zinc", v, || {
            let _ = x.to_zinc_string();
            let _ = serde_json::to_string(x);
        })),
        Value::DateTime(x) => try_call!(call("DateTime::to_zinc", v, || {
            let _ = x.to_zinc_string();
            let _ = serde_json::to_string(x);
            let _ = x.to_string();
        })),
        Value::Coord(x) => try_call!(call("Coord::to_zinc", v, || {
            let _ = x.to_zinc_string();
            let _ = serde_json::to_string(x);
        })),
        Value::XStr(x) => try_call!(call("XStr::to_zinc", v, || {
            let _ = x.to_zinc_string();
            let _ = serde_json::to_string(x);
        })),
        Value::List(x) => try_call!(call("List::to_zinc", v, || {
            let _ = x.to_zinc_string();
        })),
        Value::Dict(x) => try_call!(call("Dict::to_zinc/dis", v, || {
            let _ = x.to_zinc_string();
            let _ = serde_json::to_string(x);
            let _ = x.dis();
            let _ = x.to_string();
        })),
        Value::Grid(x) => try_call!(call("Grid::to_zinc", v, || {
            let _ = x.to_zinc_string();
            let _ = serde_json::to_string(x);
            for c in &x.columns {
                let _ = c.to_zinc_string();
                let _ = serde_json::to_string(c);
            }
        })),
        _ => {}
    }
    // a filter carrying the value as comparison literal
    try_call!(call("Filter::to_string", v, || {
        use std::fmt::Write;
        let f = Filter {
            or: Or {
                ands: vec![And {
                    terms: vec![Term::Cmp(Cmp {
                        path: Path::from("a"),
                        op: CmpOp::Eq,
                        value: hv.clone(),
                    })],
                }],
            },
        };
        let mut s = String::new();
        let _ = write!(s, "{f}");
    }));
    // the image of each decoder offered to the other encoder
    let mut r = Verdict::Pass;
    if let Ok(Ok(text)) = guarded(|| serde_json::to_string(&hv)) {
        if let Ok(Ok(dec)) = guarded(|| serde_json::from_str::<Value>(&text)) {
            rec.class("route:hayson-image->zinc");
            r = call("to_zinc_string(hayson image)", v, || {
                let _ = libhaystack::encoding::zinc::encode::to_zinc_string(&dec);
                let _ = format!("{:?}", dec);
            });
        }
    }
    if r.is_fail() {
        return r;
    }
    if let Ok(Ok(text)) = guarded(|| libhaystack::encoding::zinc::encode::to_zinc_string(&hv)) {
        if let Ok(Ok(dec)) = crate::runner::fueled(text.len(), || libhaystack::encoding::zinc::decode::from_str(&text)) {
            rec.class("route:zinc-image->hayson");
            r = call("serde_json::to_string(zinc image)", v, || {
                let _ = serde_json::to_string(&dec);
            });
        }
    }
    r
}

/// Foreign Hayson documents (types, names and units no Zinc writer would produce) decoded, then Zinc encoded.
fn check_foreign(doc: &ForeignDoc, rec: &mut Rec) -> Verdict {
    let text = &doc.0;
    rec.sample(|| text.clone());
    match guarded(|| serde_json::from_str::<Value>(text)) {
        Ok(Ok(dec)) => {
            rec.class("foreign:accepted");
            rec.nontrivial(key_of(text));
            let v = project(&dec);
            call("to_zinc_string(foreign hayson)", &v, || {
                let _ = libhaystack::encoding::zinc::encode::to_zinc_string(&dec);
                use std::fmt::Write;
                let mut s = String::new();
                let _ = write!(s, "{dec}");
                if let Value::Dict(d) = &dec {
                    let _ = d.dis();
                }
            })
        }
        Ok(Err(_)) => {
            rec.class("foreign:rejected");
            Verdict::Pass
        }
        Err(p) => Verdict::fail(
            format!("C10:hayson-decode:{}", panic_sig(&p)),
            format!("Hayson decoder panicked on {text}: {} at {}", p.msg, p.location),
        ),
    }
}

#[derive(Clone, Debug)]
pub struct ForeignDoc(pub String);
impl Case for ForeignDoc {
    fn to_json(&self) -> J {
        J::String(self.0.clone())
    }
    fn from_json(j: &J) -> Result<Self, String> {
        j.as_str().map(|s| ForeignDoc(s.to_string())).ok_or_else(|| "string".to_string())
    }
}

fn foreign_doc() -> BoxedStrategy<ForeignDoc> {
    use crate::gen::value::ustring;
    let s = || ustring(6);
    let leaf = prop_oneof![
        (s(), s()).prop_map(|(t, v)| serde_json::json!({"_kind":"xstr","type":t,"val":v})),
        (s(), s()).prop_map(|(t, v)| serde_json::json!({"val":v,"type":t,"_kind":"xstr"})),
        s().prop_map(|v| serde_json::json!({"_kind":"ref","val":v})),
        (s(), s()).prop_map(|(v, d)| serde_json::json!({"_kind":"ref","val":v,"dis":d})),
        s().prop_map(|v| serde_json::json!({"_kind":"symbol","val":v})),
        s().prop_map(|v| serde_json::json!({"_kind":"uri","val":v})),
        (any::<f64>(), prop::sample::select(vec!["m", "%", "$", "kW", "°F", "_", "/"])).prop_map(|(f, u)| serde_json::json!({"_kind":"number","val":f,"unit":u})),
        prop::sample::select(vec!["NaN", "INF", "-INF"]).prop_map(|v| serde_json::json!({"_kind":"number","val":v,"unit":"m"})),
        (s(), s()).prop_map(|(k, v)| serde_json::json!({k: v})),
        (s(), s(), s()).prop_map(|(c, k, v)| serde_json::json!({"_kind":"grid","cols":[{"name":c}],"rows":[{k: v}]})),
        (s(), s()).prop_map(|(k, v)| serde_json::json!({"_kind":"grid","meta":{"ver":"2.0", k:v},"cols":[],"rows":[]})),
        s().prop_map(|v| serde_json::json!({"_kind":"dateTime","val":"2020-01-01T00:00:00Z","tz":v})),
    ];
    bx(prop::collection::vec(leaf, 1..4).prop_map(|v| {
        ForeignDoc(if v.len() == 1 {
            v[0].to_string()
        } else {
            J::Array(v).to_string()
        })
    }))
}

// ---------------------------------------------------------------------------------------------
// the C entry points of the two encoders (a panic inside `extern "C"` aborts the process: child processes)

/// `hv probe c10-capi <seed> <shard> <count>` or `hv probe c10-capi one <file>`
pub fn probe_capi_encoders(args: &[String]) -> i32 {
    use std::io::Write;
    let encode = |v: &RVal| {
        let hv = Box::new(build(v));
        let p: *const Value = &*hv;
        unsafe {
            for s in [libhaystack::c_api::zinc::haystack_value_to_zinc_string(p), libhaystack::c_api::json::haystack_value_to_json_string(p)] {
                if s.is_null() {
                    let m = libhaystack::c_api::err::last_error_message();
                    if !m.is_null() {
                        libhaystack::c_api::str::haystack_string_destroy(m as *mut std::os::raw::c_char);
                    }
                } else {
                    libhaystack::c_api::str::haystack_string_destroy(s as *mut std::os::raw::c_char);
                }
            }
        }
    };
    if args.first().map(|s| s.as_str()) == Some("one") {
        let Some(Ok(text)) = args.get(1).map(std::fs::read_to_string) else { return 2 };
        let Ok(j) = serde_json::from_str::<J>(&text) else { return 2 };
        let Ok(v) = RVal::from_json(&j) else { return 2 };
        encode(&v);
        return 0;
    }
    let seed: u64 = args.first().and_then(|s| s.parse().ok()).unwrap_or(1);
    let shard: usize = args.get(1).and_then(|s| s.parse().ok()).unwrap_or(0);
    let count: u32 = args.get(2).and_then(|s| s.parse().ok()).unwrap_or(100);
    use proptest::test_runner::{Config, RngAlgorithm, TestRng, TestRunner};
    let rng = TestRng::from_seed(RngAlgorithm::ChaCha, &crate::runner::seed_bytes(seed, "C10", "capi-encoders", shard));
    let mut runner = TestRunner::new_with_rng(Config { cases: count, failure_persistence: None, ..Config::default() }, rng);
    // values as the decoders return them: NUL and other controls in every string position
    let nul = prop::sample::select(vec!["\0", "a\0b", "\0x", "é\0"]).prop_map(String::from);
    let strat = prop_oneof![
        6 => top_value(GenCfg::any(2)),
        1 => nul.clone().prop_map(|s| RVal::Ref(s, None)),
        1 => nul.clone().prop_map(RVal::Symbol),
        1 => nul.clone().prop_map(|s| RVal::XStr(s, "v".into())),
        1 => nul.clone().prop_map(|s| RVal::Dict([(s, RVal::Marker)].into_iter().collect())),
        1 => nul.clone().prop_map(|s| RVal::List(vec![RVal::Str(s.clone()), RVal::Uri(s.clone()), RVal::Ref("a".into(), Some(s))])),
        1 => nul.prop_map(|s| RVal::Grid(RGrid { meta: Some([(s.clone(), RVal::Marker)].into_iter().collect()), cols: vec![RCol { name: s, meta: None }], rows: vec![] })),
    ];
    let out = std::io::stdout();
    let _ = runner.run(&strat, |v| {
        {
            let mut o = out.lock();
            let _ = writeln!(o, "CASE {}", v.to_json());
            let _ = o.flush();
        }
        encode(&v);
        let mut o = out.lock();
        let _ = writeln!(o, "DONE");
        let _ = o.flush();
        Ok(())
    });
    0
}

fn capi_encoders(ctx: &mut Ctx) {
    use crate::isolate::{run_probes, ProbeStatus};
    let per = ctx.tier.pick(1_500, 30_000);
    let jobs: Vec<Vec<String>> = (0..16).map(|sh| vec!["c10-capi".to_string(), ctx.seed.to_string(), sh.to_string(), per.to_string()]).collect();
    let results = run_probes(jobs, std::time::Duration::from_secs(600), 16);
    for r in results {
        let done = r.stdout.matches("\nDONE").count() as u64 + if r.stdout.starts_with("DONE") { 1 } else { 0 };
        ctx.rec.evals += done;
        ctx.rec.class_n("capi-encoders:values", done);
        match r.status {
            ProbeStatus::Exit(0) => {}
            other => {
                // the value in flight is the last CASE line without a DONE after it
                let last = r.stdout.rsplit("CASE ").next().unwrap_or("").lines().next().unwrap_or("").to_string();
                let case: J = serde_json::from_str(&last).unwrap_or(J::Null);
                ctx.rec.nontrivial(key_of(&last));
                ctx.report(
                    "capi-encode",
                    Verdict::fail("C10:capi-encoders:abort", format!("haystack_value_to_zinc_string / to_json_string ended the process ({other:?}) on {}: {}", trunc(&last, 200), r.stderr_tail.lines().last().unwrap_or(""))),
                    case,
                );
            }
        }
    }
}

pub fn run(ctx: &mut Ctx) {
    ctx.rule("generated: any constructible Value (every String field any Unicode string incl. empty, names need not be identifiers, rows need not match columns, NaN/INF with units), nesting to depth 64 by direct spines, plus the image of each decoder offered to the other encoder and foreign Hayson documents; the two encoders' C entry points over generated values (NUL in every string position included) in child processes; oracle: every encoder/Display (also with precision / width / alignment flags)/dis call returns (Ok or Err) without panicking - also into writers that fail after a generated number of bytes, after which the same thread must still produce the same text; non-trivial: value is ill-formed in at least one field or came from a decoder; distinct by Debug hash");
    ctx.assume("instants within 14 h of chrono's representable limits are a separately labelled class (not generated in the main strategy)");
    let total = ctx.tier.pick(160_000, 3_200_000);
    let depth = ctx.tier.pick(3, 4) as u32;
    ctx.run_sub::<RVal>("encode-any", total, &move || top_value(GenCfg::any(depth)), &|v, rec| check_value(v, rec));
    let total_spine = ctx.tier.pick(8_000, 160_000);
    ctx.run_sub::<RVal>(
        "encode-spine",
        total_spine,
        &|| bx((1usize..=64).prop_flat_map(|d| spine(GenCfg::any(0), d))),
        &|v, rec| check_value(v, rec),
    );
    let total_foreign = ctx.tier.pick(32_000, 640_000);
    ctx.run_sub::<ForeignDoc>("foreign-hayson", total_foreign, &foreign_doc, &check_foreign);
    capi_encoders(ctx);
}

pub fn replay(kind: &str, case: &J, rec: &mut Rec) -> Verdict {
    match kind {
        "encode-any" | "encode-spine" => match RVal::from_json(case) {
            Ok(v) => check_value(&v, rec),
            Err(e) => Verdict::fail("infra:bad-replay", e),
        },
        "capi-encode" => {
            // one value through the C entry points, in a child process
            let dir = crate::runner::verif_root().join("work");
            let _ = std::fs::create_dir_all(&dir);
            let path = dir.join(format!("c10-capi-{}.json", std::process::id()));
            let _ = std::fs::write(&path, case.to_string());
            let r = crate::isolate::run_probe(&["c10-capi".to_string(), "one".to_string(), path.display().to_string()], None, std::time::Duration::from_secs(60), &[]);
            let _ = std::fs::remove_file(&path);
            match r.status {
                crate::isolate::ProbeStatus::Exit(0) => Verdict::Pass,
                other => Verdict::fail("C10:capi-encoders:abort", format!("the C encoder entry points ended the process: {other:?} {}", r.stderr_tail.lines().last().unwrap_or(""))),
            }
        }
        "foreign-hayson" => match ForeignDoc::from_json(case) {
            Ok(v) => check_foreign(&v, rec),
            Err(e) => Verdict::fail("infra:bad-replay", e),
        },
        _ => Verdict::fail("infra:unknown-kind", kind),
    }
}

pub fn check_foreign_pub(text: &str, rec: &mut Rec) -> Verdict {
    check_foreign(&ForeignDoc(text.to_string()), rec)
}
