//! C09 — The filter parser is total; evaluating any parsed filter terminates.

use super::c07::Store;
use super::common::*;
use crate::gen::filter::*;
use crate::gen::mutate::{self, FILTER_TOKENS};
use crate::isolate::{run_probe, run_probes, ProbeStatus};
use crate::runner::{bx, fueled, guarded, idx, key_of, panic_sig, Case, Ctx, Rec, Verdict};
use crate::rval::*;
use libhaystack::defs::namespace::{Namespace, DEFAULT_NS};
use libhaystack::filter::eval::EvalContext;
use libhaystack::filter::path::Path;
use libhaystack::filter::{Eval, Filter, PathResolver};
use libhaystack::val::{Dict, Grid, List, Ref, Value};
use proptest::prelude::*;
use serde_json::{json, Value as J};
use std::cell::Cell;
use std::collections::BTreeMap;
use std::time::Duration;

#[derive(Clone, Debug)]
pub struct FText {
    pub bytes: Vec<u8>,
    pub origin: String,
    /// ref graph for the cyclic resolver: r<i> -> r<next[i]>
    pub next: Vec<u8>,
}
impl Case for FText {
    fn to_json(&self) -> J {
        json!({"hex": self.bytes.iter().map(|b| format!("{b:02x}")).collect::<String>(), "text": String::from_utf8_lossy(&self.bytes), "origin": self.origin, "next": self.next})
    }
    fn from_json(j: &J) -> Result<Self, String> {
        let h = j["hex"].as_str().ok_or("hex")?;
        Ok(FText {
            bytes: (0..h.len() / 2).filter_map(|i| u8::from_str_radix(&h[2 * i..2 * i + 2], 16).ok()).collect(),
            origin: j["origin"].as_str().unwrap_or("").to_string(),
            next: j["next"].as_array().map(|a| a.iter().map(|x| x.as_u64().unwrap_or(0) as u8).collect()).unwrap_or_default(),
        })
    }
}

pub fn real_ns() -> &'static Namespace<'static> {
    static NS: std::sync::OnceLock<&'static Namespace<'static>> = std::sync::OnceLock::new();
    NS.get_or_init(|| {
        let text = std::fs::read_to_string("/repo/tests/defs/defs.zinc").expect("defs.zinc");
        let v = libhaystack::encoding::zinc::decode::from_str(&text).expect("defs.zinc decodes");
        let grid = match v {
            Value::Grid(g) => g,
            _ => panic!("defs.zinc is not a grid"),
        };
        Box::leak(Box::new(Namespace::make(grid)))
    })
}

/// A resolver whose refs form cycles and which counts its calls: an evaluation that keeps
/// following refs forever exhausts the budget (deterministic non-termination oracle).
struct BudgetResolver<'a> {
    store: &'a Store,
    calls: Cell<u32>,
}
const BUDGET: u32 = 20_000;
struct BudgetExhausted;
impl BudgetResolver<'_> {
    fn tick(&self) {
        let c = self.calls.get() + 1;
        self.calls.set(c);
        if c > BUDGET {
            std::panic::panic_any(BudgetExhausted);
        }
    }
}
impl PathResolver for BudgetResolver<'_> {
    fn resolve_for(&self, root: &Dict, path: &Path) -> Value {
        self.tick();
        self.store.resolve_for(root, path)
    }
    fn resolve(&self, path: &Path) -> Value {
        self.tick();
        self.store.resolve(path)
    }
    fn resolve_ref(&self, reference: &Ref) -> Option<Dict> {
        self.tick();
        self.store.resolve_ref(reference)
    }
    fn resolve_ref_list(&self, ref_list: &List) -> Vec<Dict> {
        self.tick();
        self.store.resolve_ref_list(ref_list)
    }
}

fn cyclic_store(next: &[u8]) -> Store {
    // records r0..r5: every ref-valued tag of record i points at r<next[i]> (cycles, self loops)
    let n = 6usize;
    let mut recs = BTreeMap::new();
    for i in 0..n {
        // (r6 is a record without any tag: a resolver may well hand out an empty record for a known id)
        let to = format!("r{}", next.get(i).copied().unwrap_or((i as u8 + 1) % n as u8) as usize % (n + 1));
        let mut d = RDict::new();
        d.insert("id".into(), RVal::Ref(format!("r{i}"), None));
        for (k, tag) in ["a", "b", "c", "d", "siteRef", "equipRef", "spaceRef", "site", "equip", "point"].into_iter().enumerate() {
            if tag.len() == 1 || tag.ends_with("Ref") {
                // a ref-valued tag holds one ref, a list with that ref, or a list of two refs
                let r = RVal::Ref(to.clone(), None);
                let v = match (i + k + next.get(i).copied().unwrap_or(0) as usize) % 4 {
                    0 | 1 => r,
                    2 => RVal::List(vec![r]),
                    _ => RVal::List(vec![RVal::Ref(format!("r{i}"), None), r]),
                };
                d.insert(tag.into(), v);
            } else {
                d.insert(tag.into(), RVal::Marker);
            }
        }
        d.insert("n1".into(), RVal::num(i as f64));
        recs.insert(format!("r{i}"), d);
    }
    recs.insert("r6".into(), RDict::new());
    Store::new(recs)
}

fn check_text(c: &FText, rec: &mut Rec) -> Verdict {
    rec.class(&format!("origin:{}", c.origin));
    let Ok(text) = std::str::from_utf8(&c.bytes) else {
        rec.class("input:not-utf8(only through bytes->lossy)");
        let lossy = String::from_utf8_lossy(&c.bytes).to_string();
        return parse_and_eval(&lossy, c, rec);
    };
    parse_and_eval(text, c, rec)
}

fn parse_and_eval(text: &str, c: &FText, rec: &mut Rec) -> Verdict {
    rec.sample(|| format!("[{}] {:?}", c.origin, trunc(text, 160)));
    let tokens = text.split(|ch: char| ch.is_whitespace()).filter(|s| !s.is_empty()).count();
    if tokens >= 2 {
        rec.nontrivial(key_of(text));
    }
    let parsed = match fueled(text.len(), || Filter::try_from(text)) {
        Ok(Ok(f)) => f,
        Ok(Err(_)) => {
            rec.class("parse:rejected");
            return Verdict::Pass;
        }
        Err(p) if p.fuel => return Verdict::fail("C09:parse:hang:fuel", format!("the filter parser does not terminate on {:?}", trunc(text, 300))),
        Err(p) => return Verdict::fail(format!("C09:parse:{}", panic_sig(&p)), format!("the filter parser panicked on {:?}: {} at {}", trunc(text, 300), p.msg, p.location)),
    };
    rec.class("parse:accepted");
    // printing a parsed filter must not panic either
    if let Err(p) = guarded(|| parsed.to_string()) {
        return Verdict::fail(format!("C09:print:{}", panic_sig(&p)), format!("printing the filter parsed from {:?} panicked: {}", trunc(text, 200), p.msg));
    }
    // evaluation terminates with any resolver, including one whose refs form cycles
    let store = cyclic_store(&c.next);
    for (ns_name, ns) in [("default-ns", &*DEFAULT_NS as &Namespace), ("project-haystack-defs", real_ns())] {
        for (rid, subject) in store.built.iter() {
            let resolver = BudgetResolver { store: &store, calls: Cell::new(0) };
            let r = std::panic::catch_unwind(std::panic::AssertUnwindSafe(|| {
                let ctx = EvalContext::make(subject, ns, &resolver);
                parsed.eval(&ctx)
            }));
            match r {
                Ok(_) => {}
                Err(payload) => {
                    if payload.downcast_ref::<BudgetExhausted>().is_some() {
                        return Verdict::fail(
                            "C09:eval:does-not-terminate",
                            format!("evaluating `{parsed}` on record {rid} ({ns_name}) made more than {BUDGET} resolver calls: the evaluation follows a ref cycle forever (ref graph {:?})", c.next),
                        );
                    }
                    let msg = payload.downcast_ref::<String>().cloned().or_else(|| payload.downcast_ref::<&str>().map(|s| s.to_string())).unwrap_or_default();
                    return Verdict::fail("C09:eval:panic", format!("evaluating `{parsed}` on record {rid} ({ns_name}) panicked: {msg}"));
                }
            }
        }
    }
    rec.class("eval:completed");
    Verdict::Pass
}

fn check_prefixes(c: &super::c08::TCase, rec: &mut Rec) -> Verdict {
    let (text, _) = print(&c.filter, &c.choices);
    let lib_text = to_lib(&c.filter).to_string();
    for t in [text, lib_text] {
        let bytes = t.as_bytes();
        if bytes.len() > 400 {
            rec.class("prefixes:skipped-long");
            continue;
        }
        for cut in 0..=bytes.len() {
            if !t.is_char_boundary(cut) {
                continue;
            }
            if rec.on {
                rec.evals += 1;
            }
            let v = parse_and_eval(&t[..cut], &FText { bytes: vec![], origin: "prefix".into(), next: vec![1, 2, 0, 3, 5, 4] }, rec);
            if v.is_fail() {
                return v;
            }
        }
    }
    Verdict::Pass
}

fn ftext(depth: u32) -> BoxedStrategy<FText> {
    let next = || prop::collection::vec(0u8..7, 6);
    let printed = move || bx((filter_or(depth, true), super::c04::choices()).prop_map(|(f, c)| print(&f, &c).0.into_bytes()));
    let soup = prop::collection::vec(any::<u16>(), 1..24).prop_map(|v| {
        let mut s = String::new();
        for i in v {
            s.push_str(FILTER_TOKENS[idx(i, FILTER_TOKENS.len())]);
            if i % 3 != 0 {
                s.push(' ');
            }
        }
        s.into_bytes()
    });
    // filters that make the evaluator follow refs: wildcard and relationship terms over ref tags
    let chasing = (prop::sample::select(vec!["a", "b", "siteRef", "equipRef", "a->b", "a->b->c", "siteRef->equipRef"]), 0u8..7, prop::sample::select(vec!["containedBy", "contains", "siteRef", "equipRef", "hotWaterRef", "a", "inputs", "outputs"]), prop::sample::select(vec!["", " ^site", " ^equip", " ^point", " ^space"]), prop::sample::select(vec!["", " @r0", " @r3", " @zz"]))
        .prop_map(|(p, r, rel, term, rf)| format!("{p} *== @r{r} or {rel}?{term}{rf} or {p}->dis == \"x\" or ^site").into_bytes());
    // string-like literals whose bodies are runs of escapes (paired, unpaired and half-finished surrogates, bad hex, lone backslashes)
    let escapes = (super::c03::escape_body(), super::c03::escape_body(), 0u8..6).prop_map(|(a, b, wrap)| {
        match wrap {
            0 => format!("dis == \"{a}\""),
            1 => format!("u == `{a}`"),
            2 => format!("r == @x \"{a}\""),
            3 => format!("a *== @x \"{a}\" or b == \"{b}\""),
            4 => format!("( dis == \"{a}\" ) and x != `{b}`"),
            _ => format!("s == \"{a}\" and t == \"{b}\""),
        }
        .into_bytes()
    });
    // date and timestamp literals assembled from boundary parts (skipped / repeated local hours, 29 February of
    // century years, out-of-range fields and offsets, known / unknown zones)
    let stamps = (super::c03::timestamp_text(), super::c03::timestamp_text(), 0u8..5).prop_map(|(a, b, form)| {
        match form {
            0 => format!("ts < {a}"),
            1 => format!("ts >= {a} and ts < {b}"),
            2 => format!("d == {a} or not x"),
            3 => format!("( ts != {a} ) and e->ts <= {b}"),
            _ => format!("ts == {a}"),
        }
        .into_bytes()
    });
    prop_oneof![
        2 => (stamps, next()).prop_map(|(bytes, next)| FText { bytes, origin: "timestamp-soup".into(), next }),
        2 => (escapes, next()).prop_map(|(bytes, next)| FText { bytes, origin: "escape-soup".into(), next }),
        2 => (prop::collection::vec(any::<u8>(), 0..64), next()).prop_map(|(bytes, next)| FText { bytes, origin: "arbitrary-bytes".into(), next }),
        2 => (crate::gen::value::ustring(24), next()).prop_map(|(s, next)| FText { bytes: s.into_bytes(), origin: "arbitrary-utf8".into(), next }),
        3 => (soup, next()).prop_map(|(bytes, next)| FText { bytes, origin: "operator-soup".into(), next }),
        2 => (printed(), next()).prop_map(|(bytes, next)| FText { bytes, origin: "valid".into(), next }),
        5 => (printed(), mutate::mutations(3), next()).prop_map(|(mut bytes, m, next)| { mutate::apply_all(&mut bytes, &m, FILTER_TOKENS); FText { bytes, origin: "mutant".into(), next } }),
        3 => (chasing, next()).prop_map(|(bytes, next)| FText { bytes, origin: "ref-chasing".into(), next }),
    ]
    .boxed()
}

// ---------------------------------------------------------------------------------------------
// paren-depth ladder in child processes

pub fn ladder_text(shape: &str, depth: usize, closed: bool) -> String {
    // the same nesting after a first term whose literal holds brackets / quotes of its own: whatever counts
    // parentheses must agree with the lexer about where literals begin and end
    for (name, prefix) in [("after-str", "dis == \"((\\\"(\" and "), ("after-uri-quote", "u == `\"` and "), ("after-uri-parens", "u == `)))(` and "), ("after-ref-dis", "r == @x \"(\\\"(\" and ")] {
        if shape == name {
            return format!("{prefix}{}", ladder_text("parens", depth, closed));
        }
    }
    match shape {
        "parens" => {
            let mut s = "(".repeat(depth);
            if closed {
                s.push('a');
                s.push_str(&")".repeat(depth));
            }
            s
        }
        "parens-spaced" => {
            let mut s = "( ".repeat(depth);
            if closed {
                s.push_str("a == 1");
                s.push_str(&" )".repeat(depth));
            }
            s
        }
        "and-parens" => {
            let mut s = "a and (".repeat(depth);
            if closed {
                s.push('b');
                s.push_str(&")".repeat(depth));
            }
            s
        }
        _ => {
            // long flat chains must not recurse at all
            let mut s = String::from("a");
            for _ in 0..depth {
                s.push_str(if closed { " and not b" } else { " or c->d" });
            }
            s
        }
    }
}

pub const SHAPES: [&str; 8] = ["parens", "parens-spaced", "and-parens", "flat-chain", "after-str", "after-uri-quote", "after-uri-parens", "after-ref-dis"];

pub fn probe_ladder(args: &[String]) -> i32 {
    let shape = args.first().cloned().unwrap_or_default();
    let depth: usize = args.get(1).and_then(|s| s.parse().ok()).unwrap_or(1);
    let closed = args.get(2).map_or(true, |s| s == "1");
    let thread = args.get(3).map_or(false, |s| s == "1");
    let capi = args.get(4).map_or(false, |s| s == "1");
    let text = ladder_text(&shape, depth, closed);
    let work = move || -> i32 {
        if capi {
            // through the C entry point: a panic in there aborts the process, which the parent sees
            let c = std::ffi::CString::new(text.clone()).unwrap();
            let r = unsafe { libhaystack::c_api::filter::haystack_filter_parse(c.as_ptr()) };
            println!("returned {}", if r.is_some() { "Ok" } else { "Err" });
            let _ = unsafe { libhaystack::c_api::err::last_error_message() };
            return 0;
        }
        match fueled(text.len(), || {
            let f = Filter::try_from(text.as_str());
            let ok = f.is_ok();
            if let Ok(f) = &f {
                // evaluating and printing a deep filter recurse as well
                let d = Dict::default();
                let _ = libhaystack::filter::Filtered::filter(&d, f);
                let _ = f.to_string().len();
            }
            drop(f);
            ok
        }) {
            Ok(ok) => {
                println!("returned {}", if ok { "Ok" } else { "Err" });
                0
            }
            Err(p) if p.fuel => {
                println!("fuel exhausted");
                5
            }
            Err(p) => {
                println!("panic: {} at {}", p.msg, p.location);
                3
            }
        }
    };
    if thread {
        std::thread::spawn(work).join().unwrap_or(4)
    } else {
        work()
    }
}

fn run_ladder(ctx: &mut Ctx) {
    let depths: Vec<usize> = (0..=17).map(|i| 1usize << i).collect();
    let mut jobs = vec![];
    let mut meta = vec![];
    for shape in SHAPES {
        for &d in &depths {
            for closed in [true, false] {
                for (thread, capi) in [(false, false), (true, false), (true, true)] {
                    jobs.push(vec!["filter-ladder".to_string(), shape.to_string(), d.to_string(), (closed as u8).to_string(), (thread as u8).to_string(), (capi as u8).to_string()]);
                    meta.push((shape, d, closed, thread, capi));
                }
            }
        }
    }
    let results = run_probes(jobs.clone(), Duration::from_secs(60), 16);
    for ((r, (shape, d, closed, thread, capi)), job) in results.iter().zip(meta.iter()).zip(jobs.iter()) {
        ctx.rec.evals += 1;
        ctx.rec.class(&format!("ladder:{shape}"));
        if *d >= 2 {
            ctx.rec.nontrivial(key_of(&format!("ladder:{shape}:{d}:{closed}:{thread}:{capi}")));
        }
        let case = json!({"shape": shape, "depth": d, "closed": closed, "thread_stack": thread, "capi": capi});
        let how = format!("{shape}, depth {d}, closed={closed}, {}{}", if *thread { "2MiB thread" } else { "main thread" }, if *capi { ", haystack_filter_parse" } else { "" });
        match &r.status {
            ProbeStatus::Exit(0) => ctx.rec.class(if r.stdout.contains("Ok") { "ladder:accepted" } else { "ladder:rejected" }),
            ProbeStatus::Exit(5) => ctx.report("filter-ladder", Verdict::fail(format!("C09:ladder:hang:fuel:{shape}"), format!("the filter parser does not terminate ({how})")), case),
            ProbeStatus::Exit(3) => ctx.report("filter-ladder", Verdict::fail(format!("C09:ladder:panic:{shape}"), format!("the filter parser panicked ({how}): {}", r.stdout.trim())), case),
            ProbeStatus::Signal(sig) => ctx.report(
                "filter-ladder",
                Verdict::fail(format!("C09:ladder:abort:{shape}"), format!("process killed by signal {sig} ({how}): {}", r.stderr_tail.lines().last().unwrap_or(""))),
                case,
            ),
            ProbeStatus::Timeout => {
                let again = run_probe(job, None, Duration::from_secs(120), &[]);
                if again.status == ProbeStatus::Timeout {
                    ctx.report("filter-ladder", Verdict::fail(format!("C09:ladder:hang:{shape}"), format!("no result within 120 s ({how})")), case);
                } else {
                    ctx.inconclusive.push(format!("filter ladder watchdog hit ({how}) did not reproduce"));
                }
            }
            other => ctx.inconclusive.push(format!("filter ladder probe ({how}): {other:?} {}", r.stderr_tail)),
        }
    }
}

pub fn run(ctx: &mut Ctx) {
    ctx.rule("inputs: arbitrary bytes and UTF-8 strings, operator soup from the token dictionary, printed valid filters, every prefix of them, 1-3 mutations, date / timestamp literals assembled from boundary parts, ref-chasing filters (*==, relationship queries, paths over ref tags), and a paren-depth ladder 1..131072 (eight shapes - bare, spaced, and-chains, flat chains, and the nesting placed after a Str / Uri / Ref-display literal that holds brackets and quotes of its own - closed and unclosed) in child processes on the main and a 2 MiB thread stack, also through haystack_filter_parse; every filter that parses is printed and evaluated on six records (and a seventh, empty one) whose refs (single refs and lists of refs) form generated cycles, against the empty and the real Project Haystack namespace, through a resolver with a call budget; oracle: parse returns Ok/Err, evaluation returns - no panic, fuel exhaustion, abort, confirmed hang or budget exhaustion; non-trivial: >= 2 tokens; distinct by text");
    ctx.assume("an evaluation that does not terminate must keep calling the resolver (both ref-following loops do); the budget of 20000 calls per evaluation is far above what six records allow");
    let _ = real_ns();
    run_ladder(ctx);
    let depth = ctx.tier.pick(2, 3) as u32;
    ctx.run_sub::<FText>("filter-text", ctx.tier.pick(96_000, 1_920_000), &move || ftext(depth), &check_text);
    ctx.run_sub::<super::c08::TCase>("filter-prefixes", ctx.tier.pick(1_600, 32_000), &move || super::c08::tcase(depth), &check_prefixes);
    let _ = Grid::make_empty;
}

pub fn replay(kind: &str, case: &J, rec: &mut Rec) -> Verdict {
    match kind {
        "filter-text" => FText::from_json(case).map(|c| check_text(&c, rec)).unwrap_or_else(|e| Verdict::fail("infra:bad-replay", e)),
        "filter-prefixes" => super::c08::TCase::from_json(case).map(|c| check_prefixes(&c, rec)).unwrap_or_else(|e| Verdict::fail("infra:bad-replay", e)),
        "filter-ladder" => {
            let b = |k: &str| (case[k].as_bool().unwrap_or(false) as u8).to_string();
            let args = vec!["filter-ladder".to_string(), case["shape"].as_str().unwrap_or("parens").to_string(), case["depth"].as_u64().unwrap_or(1).to_string(), b("closed"), b("thread_stack"), b("capi")];
            let r = run_probe(&args, None, Duration::from_secs(120), &[]);
            match r.status {
                ProbeStatus::Exit(0) => Verdict::Pass,
                other => Verdict::fail("C09:ladder", format!("{other:?} {} {}", r.stdout.trim(), r.stderr_tail)),
            }
        }
        _ => Verdict::fail("infra:unknown-kind", kind),
    }
}

/// entry point for the coverage-guided target
pub fn check_text_pub(c: &FText, rec: &mut Rec) -> Verdict {
    check_text(c, rec)
}

/// libFuzzer input layout of the `filter_parse` target: six bytes of ref graph, then the text
pub fn ftext_from_fuzz(data: &[u8]) -> FText {
    let (next, body) = if data.len() > 6 { (data[..6].iter().map(|b| b % 6).collect(), &data[6..]) } else { (vec![1, 2, 0, 4, 5, 3], data) };
    FText { bytes: body.to_vec(), origin: "libfuzzer".into(), next }
}
