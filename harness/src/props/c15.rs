//! C15 — Every database unit is found by each of its names and survives both codecs.

use super::common::*;
use crate::refimpl::units as db;
use crate::refimpl::zinc as rz;
use crate::runner::{bx, guarded, idx, key_of, Case, Ctx, Rec, Verdict};
use crate::rval::*;
use libhaystack::units::{get_unit, Unit};
use libhaystack::val::Value;
use proptest::prelude::*;
use serde_json::{json, Value as J};

pub const MAGNITUDES: [f64; 9] = [0.0, -0.0, 1.0, -1.0, 0.5, -273.15, 1e-7, 1e21, 12345.678];

pub fn dim_of(u: &Unit) -> [i8; 7] {
    match &u.dimensions {
        None => [0; 7],
        Some(d) => [d.kg, d.m, d.sec, d.k, d.a, d.mol, d.cd],
    }
}

fn same_unit(a: &Unit, b: &Unit) -> bool {
    a.ids == b.ids && dim_of(a) == dim_of(b) && a.scale.to_bits() == b.scale.to_bits() && a.offset.to_bits() == b.offset.to_bits() && a.quantity == b.quantity
}

fn enumerate(ctx: &mut Ctx) {
    let table = unit_table();
    ctx.extra.insert("units_in_table".into(), json!(table.len()));
    ctx.extra.insert("units_in_units_txt".into(), json!(db::db().len()));
    let mut unspellable = vec![];
    let mut pairs = 0u64;
    for (name, u) in table.iter() {
        let case = |id: &str| json!({"static": name, "id": id});
        // the static agrees with the database text it was generated from
        match db::db().iter().find(|d| d.ids == u.ids) {
            None => ctx.report("unit-id", Verdict::fail("C15:table-vs-db:missing", format!("static {name} (ids {:?}) has no entry with the same ids in units.txt", u.ids)), case("")),
            Some(d) => {
                ctx.rec.evals += 1;
                let rel = |a: f64, b: f64| a == b || ((a - b).abs() <= 1e-12 * a.abs().max(b.abs()));
                if d.dim != dim_of(u) || !rel(d.scale, u.scale) || !rel(d.offset, u.offset) || Some(&d.quantity) != u.quantity.as_ref() {
                    ctx.report(
                        "unit-id",
                        Verdict::fail("C15:table-vs-db:differs", format!("static {name}: dim {:?} scale {} offset {} quantity {:?}; units.txt says dim {:?} scale {} offset {} quantity {:?}", dim_of(u), u.scale, u.offset, u.quantity, d.dim, d.scale, d.offset, d.quantity)),
                        case(""),
                    );
                }
            }
        }
        if !u.ids.iter().any(|i| db::zinc_spellable(i)) {
            unspellable.push(name.to_string());
        }
        for id in &u.ids {
            pairs += 1;
            ctx.rec.evals += 1;
            ctx.rec.nontrivial(key_of(&format!("{name}:{id}")));
            // 1. lookup by every identifier returns that very unit
            match guarded(|| get_unit(id)) {
                Ok(Some(found)) => {
                    if !same_unit(found, u) {
                        // two database units may share an identifier; then no lookup can return both
                        let shared = db::by_id().get(id).map_or(0, |v| v.len()) > 1;
                        if shared {
                            ctx.rec.class("id-shared-by-two-database-units(unasserted)");
                        } else {
                            ctx.report("unit-id", Verdict::fail("C15:lookup:wrong-unit", format!("get_unit({id:?}) returns {:?}, expected {:?} ({name})", found.ids, u.ids)), case(id));
                        }
                        continue;
                    }
                }
                Ok(None) => {
                    ctx.report("unit-id", Verdict::fail("C15:lookup:not-found", format!("get_unit({id:?}) returns None, expected {name}")), case(id));
                    continue;
                }
                Err(p) => {
                    ctx.report("unit-id", Verdict::fail("C15:lookup:panic", p.msg), case(id));
                    continue;
                }
            }
            // 2. a Number carrying the unit survives both codecs, also when the unit is spelled by this identifier
            for m in MAGNITUDES {
                ctx.rec.evals += 1;
                let rv = RVal::Num(m.to_bits(), Some(u.ids.clone()));
                let v = unit_codecs(&rv, id, &mut ctx.rec);
                if v.is_fail() {
                    ctx.report("unit-codec", v, json!({"static": name, "id": id, "magnitude": m}));
                    break;
                }
            }
            // Hayson spells non-finite magnitudes as strings next to the same `unit` member: the unit is kept there too
            // (Zinc has no spelling for a non-finite number with a unit, so this is asked of Hayson only)
            for m in [f64::INFINITY, f64::NEG_INFINITY, f64::NAN] {
                ctx.rec.evals += 1;
                let rv = RVal::Num(m.to_bits(), Some(u.ids.clone()));
                let hv = build(&rv);
                let r = guarded(|| serde_json::to_string(&hv).map_err(|e| e.to_string()).and_then(|t| serde_json::from_str::<Value>(&t).map(|v| (t.clone(), v)).map_err(|e| format!("{e} on {t}"))));
                let v = match r {
                    Ok(Ok((t, b))) => diff_verdict("C15:hayson:non-finite", &rv, &project(&b), &t, &mut ctx.rec),
                    Ok(Err(e)) => Verdict::fail(format!("C15:hayson:non-finite:error:{id}"), e),
                    Err(p) => Verdict::fail(format!("C15:hayson:non-finite:panic:{id}"), p.msg),
                };
                if v.is_fail() {
                    ctx.report("unit-codec-hayson", v, json!({"static": name, "id": id, "magnitude": format!("{m}")}));
                    break;
                }
            }
        }
    }
    ctx.extra.insert("unit_id_pairs".into(), json!(pairs));
    ctx.extra.insert("units_without_zinc_spellable_id".into(), json!(unspellable));
    ctx.exhaustive = true;
}

/// Zinc and Hayson round trips of a number with a unit; `id` is the identifier used by foreign writers.
fn unit_codecs(rv: &RVal, id: &str, rec: &mut Rec) -> Verdict {
    let hv = build(rv);
    // libhaystack's own spelling
    let text = match zinc_encode(&hv) {
        Ok(t) => t,
        Err(f) => return prefix_sig("C15:zinc", f, id),
    };
    {
        let r = zinc_encode_short_writes(&hv, &text);
        if r.is_fail() {
            return prefix_sig("C15:zinc", r, id);
        }
    }
    match zinc_decode(&text) {
        Ok(b) => {
            let v = diff_verdict("C15:zinc", rv, &project(&b), &text, rec);
            if v.is_fail() {
                return v;
            }
        }
        Err(f) => return prefix_sig("C15:zinc", f, id),
    }
    match guarded(|| serde_json::to_string(&hv).map_err(|e| e.to_string()).and_then(|t| serde_json::from_str::<Value>(&t).map(|v| (t.clone(), v)).map_err(|e| format!("{e} on {t}")))) {
        Ok(Ok((t, b))) => {
            let v = diff_verdict("C15:hayson", rv, &project(&b), &t, rec);
            if v.is_fail() {
                return v;
            }
        }
        Ok(Err(e)) => return Verdict::fail(format!("C15:hayson:error:{id}"), e),
        Err(p) => return Verdict::fail(format!("C15:hayson:panic:{id}"), p.msg),
    }
    // the typed Number decoder, and the sources that cannot lend their strings (a reader, a serde_json::Value), and a
    // writer that puts `unit` before `val` or escapes the unit's characters
    {
        use libhaystack::val::Number;
        let f = match rv {
            RVal::Num(bits, _) => f64::from_bits(*bits),
            _ => 0.0,
        };
        let own = serde_json::to_string(&hv).unwrap_or_default();
        let escaped: String = id.chars().map(|c| if c.is_ascii() { c.to_string() } else { let mut b = [0u16; 2]; c.encode_utf16(&mut b).iter().map(|u| format!("\\u{u:04x}")).collect::<String>() }).collect();
        let docs = [own.clone(), format!("{{\"_kind\":\"number\",\"unit\":\"{id}\",\"val\":{f:?}}}"), format!("{{\"unit\":\"{escaped}\",\"val\":{f:?},\"_kind\":\"number\"}}"), format!("{{\"_kind\":\"number\",\"val\":{f:?},\"unit\":\"{escaped}\"}}")];
        for doc in docs.iter().filter(|d| !d.is_empty() && f.is_finite()) {
            let routes: [(&str, Box<dyn Fn() -> Result<Value, String>>); 6] = [
                ("value/str", Box::new(|| serde_json::from_str::<Value>(doc).map_err(|e| e.to_string()))),
                ("value/reader", Box::new(|| serde_json::from_reader::<_, Value>(std::io::Cursor::new(doc.as_bytes())).map_err(|e| e.to_string()))),
                ("value/value", Box::new(|| serde_json::from_str::<J>(doc).and_then(serde_json::from_value::<Value>).map_err(|e| e.to_string()))),
                ("number/str", Box::new(|| serde_json::from_str::<Number>(doc).map(Value::Number).map_err(|e| e.to_string()))),
                ("number/reader", Box::new(|| serde_json::from_reader::<_, Number>(std::io::Cursor::new(doc.as_bytes())).map(Value::Number).map_err(|e| e.to_string()))),
                ("number/value", Box::new(|| serde_json::from_str::<J>(doc).and_then(serde_json::from_value::<Number>).map(Value::Number).map_err(|e| e.to_string()))),
            ];
            for (route, fun) in routes.iter() {
                match guarded(|| fun()) {
                    Ok(Ok(b)) => {
                        let v = diff_verdict(&format!("C15:hayson:{route}"), rv, &project(&b), doc, rec);
                        if v.is_fail() {
                            return v;
                        }
                    }
                    Ok(Err(e)) => return Verdict::fail(format!("C15:hayson:{route}:error:{id}"), format!("{e} on {doc}")),
                    Err(p) => return Verdict::fail(format!("C15:hayson:{route}:panic:{id}"), p.msg),
                }
            }
        }
    }
    // a foreign writer may use any identifier of the unit
    if let RVal::Num(bits, _) = rv {
        let f = f64::from_bits(*bits);
        if db::zinc_spellable(id) {
            let text = format!("{}{id}", rz::write_number_text(f, &mut rz::Ch::canonical()));
            match zinc_decode(&text) {
                Ok(b) => {
                    let v = diff_verdict("C15:zinc-foreign-id", rv, &project(&b), &text, rec);
                    if v.is_fail() {
                        return v;
                    }
                }
                Err(f) => return prefix_sig("C15:zinc-foreign-id", f, id),
            }
        } else {
            rec.class("id-not-spellable-in-zinc");
        }
        let doc = json!({"_kind":"number","val": f, "unit": id}).to_string();
        match guarded(|| serde_json::from_str::<Value>(&doc)) {
            Ok(Ok(b)) => {
                let v = diff_verdict("C15:hayson-foreign-id", rv, &project(&b), &doc, rec);
                if v.is_fail() {
                    return v;
                }
            }
            Ok(Err(e)) => return Verdict::fail(format!("C15:hayson-foreign-id:error:{id}"), format!("{e} on {doc}")),
            Err(p) => return Verdict::fail(format!("C15:hayson-foreign-id:panic:{id}"), p.msg),
        }
    }
    Verdict::Pass
}

#[derive(Clone, Debug)]
pub struct NonId(pub String);
impl Case for NonId {
    fn to_json(&self) -> J {
        J::String(self.0.clone())
    }
    fn from_json(j: &J) -> Result<Self, String> {
        j.as_str().map(|s| NonId(s.to_string())).ok_or_else(|| "string".into())
    }
}

fn non_ids() -> BoxedStrategy<NonId> {
    let all: Vec<String> = db::by_id().keys().cloned().collect();
    let n = all.len();
    let near = (0..n, 0u8..6, any::<u16>(), prop::char::range('a', 'z')).prop_map(move |(i, op, pos, c)| {
        let id = db::by_id().keys().nth(i).unwrap().clone();
        let chars: Vec<char> = id.chars().collect();
        let p = idx(pos, chars.len().max(1));
        let mut out: Vec<char> = chars.clone();
        match op {
            0 => out.insert(p, c),
            1 => {
                if !out.is_empty() {
                    out.remove(p.min(out.len() - 1));
                }
            }
            2 => {
                if !out.is_empty() {
                    let q = p.min(out.len() - 1);
                    out[q] = if out[q].is_uppercase() { out[q].to_ascii_lowercase() } else { out[q].to_ascii_uppercase() };
                }
            }
            3 => out.insert(0, ' '),
            4 => out.push(' '),
            _ => out.push(c),
        }
        out.into_iter().collect::<String>()
    });
    let _ = all;
    bx(prop_oneof![
        3 => near,
        1 => crate::gen::value::ustring(10),
        1 => "[a-zA-Z_%/$]{1,12}",
    ]
    .prop_map(NonId))
}

fn check_non_id(c: &NonId, rec: &mut Rec) -> Verdict {
    let is_id = db::by_id().contains_key(&c.0);
    rec.sample(|| format!("{:?}", c.0));
    if is_id {
        rec.class("near-miss-is-another-id");
        return match guarded(|| get_unit(&c.0)) {
            Ok(Some(u)) if u.ids.contains(&c.0) => Verdict::Pass,
            other => Verdict::fail("C15:lookup:id-not-found", format!("get_unit({:?}) = {:?}", c.0, other.map(|o| o.map(|u| u.ids.clone())))),
        };
    }
    rec.nontrivial(key_of(&c.0));
    match guarded(|| get_unit(&c.0)) {
        Ok(None) => Verdict::Pass,
        Ok(Some(u)) => Verdict::fail("C15:lookup:non-identifier-found", format!("get_unit({:?}) returns {:?} although no database unit has that identifier", c.0, u.ids)),
        Err(p) => Verdict::fail("C15:lookup:panic", p.msg),
    }
}

pub fn run(ctx: &mut Ctx) {
    ctx.rule("enumerated exhaustively: every `pub static ref ..: Unit` of units_generated.rs (listed by the harness build script, independent of the UNITS map) x every identifier: get_unit(id) returns that very unit with the ids/dimension/scale/offset/quantity units.txt gives; x 9 magnitudes {0,-0,1,-1,0.5,-273.15,1e-7,1e21,12345.678}: Zinc and Hayson round trip (Hayson also with INF, -INF and NaN, which it spells as strings next to the unit), and decoding of a foreign spelling by that identifier (Zinc suffix, Hayson unit member); Hayson documents in four member orders / escapings through six routes (Value and typed Number x from_str, from_reader, from_value); generated: near-miss and random strings that are no unit's identifier must give None; non-trivial: every (unit, id) pair / every non-identifier; distinct by string");
    ctx.assume("unit-gen/units.txt is the database; an identifier shared by two database units is not asserted to resolve to either");
    enumerate(ctx);
    ctx.run_sub::<NonId>("non-identifier", ctx.tier.pick(80_000, 1_600_000), &non_ids, &check_non_id);
}

pub fn replay(kind: &str, case: &J, rec: &mut Rec) -> Verdict {
    match kind {
        "non-identifier" => NonId::from_json(case).map(|c| check_non_id(&c, rec)).unwrap_or_else(|e| Verdict::fail("infra:bad-replay", e)),
        "unit-id" | "unit-codec" => {
            let id = case["id"].as_str().unwrap_or("");
            let name = case["static"].as_str().unwrap_or("");
            let Some((_, u)) = unit_table().iter().find(|(n, _)| *n == name) else { return Verdict::fail("infra:bad-replay", "unknown static") };
            match get_unit(id) {
                Some(f) if same_unit(f, u) => {}
                other => return Verdict::fail("C15:lookup", format!("get_unit({id:?}) = {:?}", other.map(|u| u.ids.clone()))),
            }
            let m = case["magnitude"].as_f64().unwrap_or(1.0);
            unit_codecs(&RVal::Num(m.to_bits(), Some(u.ids.clone())), id, rec)
        }
        "unit-codec-hayson" => {
            let name = case["static"].as_str().unwrap_or("");
            let Some((_, u)) = unit_table().iter().find(|(n, _)| *n == name) else { return Verdict::fail("infra:bad-replay", "unknown static") };
            let m: f64 = match case["magnitude"].as_str().unwrap_or("") {
                "inf" => f64::INFINITY,
                "-inf" => f64::NEG_INFINITY,
                _ => f64::NAN,
            };
            let rv = RVal::Num(m.to_bits(), Some(u.ids.clone()));
            let hv = build(&rv);
            match guarded(|| serde_json::to_string(&hv).map_err(|e| e.to_string()).and_then(|t| serde_json::from_str::<Value>(&t).map(|v| (t.clone(), v)).map_err(|e| format!("{e} on {t}")))) {
                Ok(Ok((t, b))) => diff_verdict("C15:hayson:non-finite", &rv, &project(&b), &t, rec),
                Ok(Err(e)) => Verdict::fail("C15:hayson:non-finite:error", e),
                Err(p) => Verdict::fail("C15:hayson:non-finite:panic", p.msg),
            }
        }
        _ => Verdict::fail("infra:unknown-kind", kind),
    }
}
