//! Helpers shared by the codec properties: shapes for signatures, feature classes, exclusions.

use crate::runner::{fueled, guarded, panic_sig, Rec, Verdict};
use crate::rval::*;
use libhaystack::encoding::zinc;
use libhaystack::val::Value;
use std::collections::HashSet;

/// Compact kind skeleton of a (shrunk) value, used inside failure signatures.
pub fn shape(v: &RVal) -> String {
    fn go(v: &RVal, out: &mut String, budget: &mut i32) {
        if *budget <= 0 {
            out.push('…');
            return;
        }
        *budget -= 1;
        match v {
            RVal::List(l) => {
                out.push_str("list[");
                for (i, e) in l.iter().enumerate() {
                    if i > 0 {
                        out.push(',');
                    }
                    go(e, out, budget);
                }
                out.push(']');
            }
            RVal::Dict(d) => {
                out.push_str("dict{");
                for (i, e) in d.values().enumerate() {
                    if i > 0 {
                        out.push(',');
                    }
                    go(e, out, budget);
                }
                out.push('}');
            }
            RVal::Grid(g) => {
                out.push_str(&format!(
                    "grid(meta={},cols={},colmeta={},rows={})",
                    g.meta.as_ref().map(|m| m.len() as i64).unwrap_or(-1),
                    g.cols.len(),
                    g.cols.iter().filter(|c| c.meta.as_ref().map_or(false, |m| !m.is_empty())).count(),
                    g.rows.len()
                ));
            }
            RVal::Ref(_, Some(_)) => out.push_str("ref+dis"),
            RVal::Num(_, Some(_)) => out.push_str("number+unit"),
            other => out.push_str(other.kind()),
        }
    }
    let mut s = String::new();
    let mut budget = 12;
    go(v, &mut s, &mut budget);
    s
}

/// Class labels of a value for the evidence histogram.
pub fn classify(v: &RVal, rec: &mut Rec) {
    rec.class(&format!("top:{}", v.kind()));
    let d = v.depth();
    rec.class(&format!("depth:{}", d.min(6)));
    let mut seen: HashSet<&'static str> = HashSet::new();
    v.walk(&mut |n| {
        match n {
            RVal::Str(s) | RVal::XStr(_, s) | RVal::Ref(_, Some(s)) => {
                if s.chars().any(|c| c == '"' || c == '\\' || c == '$') {
                    seen.insert("string:quote-backslash-dollar");
                }
                if s.chars().any(|c| (c as u32) < 0x20) {
                    seen.insert("string:control");
                }
                if s.chars().any(|c| (c as u32) > 0xffff) {
                    seen.insert("string:astral");
                }
                if s.is_empty() {
                    seen.insert("string:empty");
                }
            }
            RVal::Uri(s) => {
                if s.contains('`') {
                    seen.insert("uri:backtick");
                }
                if s.contains('\\') {
                    seen.insert("uri:backslash");
                }
                if s.chars().any(|c| (c as u32) > 0x7e) {
                    seen.insert("uri:non-ascii");
                }
                if s.chars().any(|c| (c as u32) > 0xffff) {
                    seen.insert("uri:astral");
                }
            }
            RVal::Num(b, u) => {
                let f = f64::from_bits(*b);
                if f.is_nan() || f.is_infinite() {
                    seen.insert("number:non-finite");
                } else if f == 0.0 && f.is_sign_negative() {
                    seen.insert("number:-0");
                } else if f != 0.0 && f.abs() < f64::MIN_POSITIVE {
                    seen.insert("number:subnormal");
                } else if f.abs() >= 1e21 {
                    seen.insert("number:>=1e21");
                } else if f.fract() != 0.0 {
                    seen.insert("number:fraction");
                }
                if u.is_some() {
                    seen.insert("number:unit");
                }
            }
            RVal::DateTime(d) => {
                if d.tz != "UTC" {
                    seen.insert("datetime:zoned");
                    if d.offset.abs() >= 36000 {
                        seen.insert("datetime:|offset|>=10h");
                    }
                    if d.offset % 3600 != 0 {
                        seen.insert("datetime:non-hour-offset");
                    }
                }
                if d.nanos != 0 {
                    seen.insert("datetime:fraction");
                }
            }
            RVal::Grid(g) => {
                if g.meta.as_ref().map_or(false, |m| !m.is_empty()) {
                    seen.insert("grid:meta");
                }
                if g.cols.iter().any(|c| c.meta.as_ref().map_or(false, |m| !m.is_empty())) {
                    seen.insert("grid:col-meta");
                }
                if g.rows.is_empty() {
                    seen.insert("grid:zero-rows");
                }
                if g.rows.iter().any(|r| r.values().any(|v| matches!(v, RVal::Null))) {
                    seen.insert("grid:null-cell");
                }
                if g.rows.iter().any(|r| r.len() < g.cols.len()) {
                    seen.insert("grid:missing-cell");
                }
                if g.rows.iter().any(|r| r.values().any(|v| matches!(v, RVal::Grid(_)))) {
                    seen.insert("grid:nested-in-grid");
                }
            }
            RVal::List(l) => {
                if l.iter().any(|v| matches!(v, RVal::Grid(_))) {
                    seen.insert("grid:nested-in-list");
                }
            }
            RVal::Dict(d) => {
                if d.values().any(|v| matches!(v, RVal::Grid(_))) {
                    seen.insert("grid:nested-in-dict");
                }
            }
            _ => {}
        }
    });
    for s in seen {
        rec.class(s);
    }
}

/// Encode with libhaystack's Zinc writer (guarded).
pub fn zinc_encode(hv: &Value) -> Result<String, Verdict> {
    match guarded(|| zinc::encode::to_zinc_string(hv)) {
        Ok(Ok(s)) => Ok(s),
        Ok(Err(e)) => Err(Verdict::fail("encode-error", format!("Zinc encoder returned Err: {e}"))),
        Err(p) => Err(Verdict::fail(
            format!("encode-{}", panic_sig(&p)),
            format!("Zinc encoder panicked: {} at {}", p.msg, p.location),
        )),
    }
}

/// Decode with libhaystack's Zinc reader (guarded, fueled).
pub fn zinc_decode(text: &str) -> Result<Value, Verdict> {
    match fueled(text.len(), || zinc::decode::from_str(text)) {
        Ok(Ok(v)) => Ok(v),
        Ok(Err(e)) => Err(Verdict::fail("decode-error", format!("Zinc decoder rejected {text:?}: {e}"))),
        Err(p) => Err(Verdict::fail(
            format!("decode-{}", panic_sig(&p)),
            format!("Zinc decoder panicked on {text:?}: {} at {}", p.msg, p.location),
        )),
    }
}

/// A writer that is slow to take bytes: every `write` accepts at most a few bytes of what it is offered (sizes
/// cycle through `steps`), which `Write` permits and pipes, sockets and small buffers do. `flush` is a no-op.
pub struct ShortWriter {
    pub out: Vec<u8>,
    steps: Vec<usize>,
    calls: usize,
}
impl ShortWriter {
    pub fn new(salt: u64) -> ShortWriter {
        ShortWriter { out: vec![], steps: vec![1 + (salt % 7) as usize, 1 + ((salt >> 8) % 3) as usize, 1 + ((salt >> 16) % 61) as usize], calls: 0 }
    }
}
impl std::io::Write for ShortWriter {
    fn write(&mut self, buf: &[u8]) -> std::io::Result<usize> {
        if buf.is_empty() {
            return Ok(0);
        }
        let n = self.steps[self.calls % self.steps.len()].min(buf.len());
        self.calls += 1;
        self.out.extend_from_slice(&buf[..n]);
        Ok(n)
    }
    fn flush(&mut self) -> std::io::Result<()> {
        Ok(())
    }
}

/// `to_zinc` into a writer that takes a few bytes per call must produce the text `to_zinc_string` produces.
pub fn zinc_encode_short_writes(hv: &Value, text: &str) -> Verdict {
    use libhaystack::encoding::zinc::encode::ToZinc;
    let mut w = ShortWriter::new(crate::runner::key_of(text));
    match guarded(|| hv.to_zinc(&mut w)) {
        Ok(Ok(())) => {
            if w.out != text.as_bytes() {
                let got = String::from_utf8_lossy(&w.out).to_string();
                let at = w.out.iter().zip(text.as_bytes()).position(|(a, b)| a != b).unwrap_or(w.out.len().min(text.len()));
                return Verdict::fail("short-writes:text-differs", format!("to_zinc into a writer that accepts 1-61 bytes per call wrote {} bytes, to_zinc_string {} bytes; first difference at byte {at}: ...{:?} vs ...{:?}", w.out.len(), text.len(), trunc(&got[got.char_indices().map(|(i, _)| i).filter(|i| *i <= at.saturating_sub(20)).last().unwrap_or(0)..], 60), trunc(&text[text.char_indices().map(|(i, _)| i).filter(|i| *i <= at.saturating_sub(20)).last().unwrap_or(0)..], 60)));
            }
            Verdict::Pass
        }
        Ok(Err(e)) => Verdict::fail("short-writes:error", format!("to_zinc into a slow writer failed: {e}")),
        Err(p) => Verdict::fail(format!("short-writes:{}", panic_sig(&p)), p.msg),
    }
}

/// Decode through `Parser::make` over a reader that hands the text out in pieces (sizes derived from the text).
pub fn zinc_decode_in_pieces(text: &str) -> Result<Value, Verdict> {
    use crate::gen::readers::{PlanReader, ReaderPlan};
    let k = crate::runner::key_of(text);
    let plan = ReaderPlan { chunks: vec![1 + (k % 7) as u8, 1 + ((k >> 8) % 61) as u8, 1 + ((k >> 16) % 3) as u8], interrupt_every: ((k >> 24) % 4) as u8, ..ReaderPlan::default() };
    let r = fueled(text.len(), || {
        let mut rd = PlanReader::new(text.as_bytes(), &plan);
        libhaystack::encoding::zinc::decode::parser::Parser::make(&mut rd).and_then(|mut p| p.parse_value())
    });
    match r {
        Ok(Ok(v)) => Ok(v),
        Ok(Err(e)) => Err(Verdict::fail("reader:decode-error", format!("the text is not decoded from a reader that delivers it in pieces {:?}: {e} (text {:?})", plan.chunks, trunc(text, 200)))),
        Err(p) => Err(Verdict::fail(format!("reader:decode-{}", panic_sig(&p)), format!("{} at {}", p.msg, p.location))),
    }
}

pub fn prefix_sig(prefix: &str, v: Verdict, shape: &str) -> Verdict {
    match v {
        Verdict::Fail { sig, msg } => Verdict::Fail {
            sig: format!("{prefix}:{sig}:{shape}"),
            msg,
        },
        p => p,
    }
}

/// like diff_verdict, but the sign of zero must survive too (Zinc: the property names -0 explicitly)
pub fn diff_verdict_strict_zero(prefix: &str, orig: &RVal, back: &RVal, text: &str, rec: &mut Rec) -> Verdict {
    let di = diff(orig, back);
    if di.diffs.is_empty() && di.zero_sign > 0 {
        return Verdict::fail(
            format!("{prefix}:diff:number:sign-of-zero:{}", shape(orig)),
            format!("the sign of a zero changed (-0 and +0 are different f64 values) (text {:?})", trunc(text, 300)),
        );
    }
    diff_verdict(prefix, orig, back, text, rec)
}

pub fn diff_verdict(prefix: &str, orig: &RVal, back: &RVal, text: &str, rec: &mut Rec) -> Verdict {
    let di = diff(orig, back);
    rec.class_n("info:zero-sign-changed", di.zero_sign);
    rec.class_n("info:null-tag<->absent", di.null_absent);
    if let Some(d) = di.diffs.first() {
        Verdict::fail(
            format!("{prefix}:diff:{}:{}", d.code, shape(orig)),
            format!("{} at {}: {} (text {:?})", d.code, d.path, d.detail, trunc(text, 300)),
        )
    } else {
        Verdict::Pass
    }
}

pub fn trunc(s: &str, n: usize) -> String {
    if s.len() <= n {
        s.to_string()
    } else {
        let mut cut = n;
        while !s.is_char_boundary(cut) {
            cut -= 1;
        }
        format!("{}…", &s[..cut])
    }
}
