//! C06 — Timestamps keep their instant and zone through every constructor and codec.

use super::common::*;
use crate::gen::value::{frac_nanos, make_dt};
use crate::refimpl::zinc::civil;
use crate::refimpl::zones::{self, ZoneInfo, T_MAX, T_MIN};
use crate::runner::{bx, guarded, idx, key_of, panic_sig, Case, Ctx, Rec, Verdict, SHARDS};
use crate::rval::*;
use libhaystack::c_api;
use libhaystack::val::*;
use proptest::prelude::*;
use serde_json::{json, Value as J};
use std::ffi::{CStr, CString};

fn rfc3339_with_offset(secs: i64, nanos: u32, offset: i32, digits: usize, z_for_zero: bool) -> String {
    let (y, mo, d, h, mi, s) = civil(secs + offset as i64);
    let mut out = format!("{y:04}-{mo:02}-{d:02}T{h:02}:{mi:02}:{s:02}");
    if digits > 0 {
        let all = format!("{nanos:09}");
        out.push('.');
        out.push_str(&all[..digits]);
    }
    if offset == 0 && z_for_zero {
        out.push('Z');
    } else {
        let sign = if offset < 0 { '-' } else { '+' };
        let a = offset.abs();
        out.push_str(&format!("{sign}{:02}:{:02}", a / 3600, (a % 3600) / 60));
    }
    out
}

/// nanos truncated to the number of digits written
fn trunc_nanos(nanos: u32, digits: usize) -> u32 {
    if digits >= 9 {
        nanos
    } else {
        let p = 10u32.pow(9 - digits as u32);
        nanos / p * p
    }
}

// ---------------------------------------------------------------------------------------------
// (a) parse_from_rfc3339 for every offset

fn check_rfc3339(secs: i64, nanos: u32, offset: i32, digits: usize) -> Verdict {
    let s = rfc3339_with_offset(secs, nanos, offset, digits, secs % 2 == 0);
    let want_nanos = trunc_nanos(nanos, digits);
    // chrono is the trusted RFC 3339 oracle; cross-check our own arithmetic against it first
    match chrono::DateTime::parse_from_rfc3339(&s) {
        Ok(c) => {
            if c.timestamp() != secs || c.timestamp_subsec_nanos() != want_nanos {
                return Verdict::fail("infra:rfc3339-oracle-mismatch", format!("{s}: chrono {} vs harness {secs}", c.timestamp()));
            }
        }
        Err(e) => return Verdict::fail("infra:rfc3339-oracle-reject", format!("{s}: {e}")),
    }
    match guarded(|| DateTime::parse_from_rfc3339(&s)) {
        Ok(Ok(dt)) => {
            if dt.timestamp() != secs || dt.timestamp_subsec_nanos() != want_nanos {
                return Verdict::fail(
                    format!("C06:rfc3339:instant:offset{}", if offset % 3600 == 0 { ":whole-hour" } else { ":fractional-hour" }),
                    format!("DateTime::parse_from_rfc3339({s:?}) denotes {}.{:09}, the string denotes {secs}.{want_nanos:09} (off by {} s)", dt.timestamp(), dt.timestamp_subsec_nanos(), dt.timestamp() - secs),
                );
            }
            // the FromStr impl must agree
            match s.parse::<DateTime>() {
                Ok(d2) if d2.timestamp() == secs => Verdict::Pass,
                other => Verdict::fail("C06:rfc3339:from_str-disagrees", format!("{s}: {:?}", other.map(|d| d.timestamp()))),
            }
        }
        Ok(Err(_)) => Verdict::Pass, // rejected with an error: allowed
        Err(p) => Verdict::fail(format!("C06:rfc3339:{}", panic_sig(&p)), format!("parse_from_rfc3339({s:?}) panicked: {} at {}", p.msg, p.location)),
    }
}

// ---------------------------------------------------------------------------------------------
// (b) + (c) for one (zone, instant, fraction)

fn cstring_take(p: *const std::os::raw::c_char) -> Option<String> {
    if p.is_null() {
        return None;
    }
    unsafe {
        let s = CStr::from_ptr(p).to_string_lossy().to_string();
        c_api::str::haystack_string_destroy(p as *mut _);
        Some(s)
    }
}

pub fn check_zone_instant(z: &ZoneInfo, secs: i64, nanos: u32, digits: usize) -> Verdict {
    let off = zones::offset_at(&z.tz, secs);
    let want_nanos = trunc_nanos(nanos, digits);
    let ctx = format!("zone {} instant {secs}.{want_nanos:09} (offset {off})", z.id);
    let fail = |what: &str, msg: String| Verdict::fail(format!("C06:{what}"), format!("{msg}; {ctx}"));
    // (b) from an instant and a zone name: the string may carry any offset (UTC, the local one)
    // ... or any other one: two foreign offsets derived from the instant (quarter hours between -12:00 and +14:00)
    let foreign = |salt: i64| -> i32 { (((secs / 7 + salt).rem_euclid(105)) as i32 - 48) * 900 };
    for (label, s) in [
        ("utc", rfc3339_with_offset(secs, nanos, 0, digits, true)),
        ("local", rfc3339_with_offset(secs, nanos, off, digits, false)),
        ("foreign", rfc3339_with_offset(secs, nanos, foreign(0), digits, false)),
        ("foreign", rfc3339_with_offset(secs, nanos, foreign(53), digits, false)),
    ] {
        let r = guarded(|| DateTime::parse_from_rfc3339_with_timezone(&s, &z.city));
        let dt = match r {
            Ok(Ok(dt)) => dt,
            Ok(Err(e)) => return fail(&format!("with-timezone:{label}:rejected"), format!("parse_from_rfc3339_with_timezone({s:?}, {:?}) failed: {e}", z.city)),
            Err(p) => return fail(&format!("with-timezone:{}", panic_sig(&p)), format!("panicked: {} at {}", p.msg, p.location)),
        };
        let p = project_dt(&dt);
        if p.secs != secs || p.nanos != want_nanos {
            return fail("with-timezone:instant", format!("got instant {}.{:09} from {s:?}", p.secs, p.nanos));
        }
        if p.offset != off {
            return fail("with-timezone:offset", format!("local offset {} instead of {off}", p.offset));
        }
        if p.city != z.city {
            return fail("with-timezone:zone-name", format!("zone name {:?} instead of {:?}", p.city, z.city));
        }
    }
    // (c) codecs
    let rv = RVal::DateTime(RDt {
        secs,
        nanos: want_nanos,
        offset: off,
        city: z.city.clone(),
        tz: z.id.to_string(),
    });
    let hv = build(&rv);
    let mut rec = Rec::new();
    rec.on = false;
    let text = match zinc_encode(&hv) {
        Ok(t) => t,
        Err(f) => return prefix_sig("C06:zinc", f, z.id),
    };
    {
        let r = zinc_encode_short_writes(&hv, &text);
        if r.is_fail() {
            return prefix_sig("C06:zinc", r, z.id);
        }
    }
    match zinc_decode(&text) {
        Ok(back) => {
            let v = diff_verdict("C06:zinc", &rv, &project(&back), &text, &mut rec);
            if v.is_fail() {
                return v;
            }
        }
        Err(f) => return prefix_sig("C06:zinc", f, "dateTime"),
    }
    match guarded(|| serde_json::to_string(&hv).map_err(|e| e.to_string()).and_then(|t| serde_json::from_str::<Value>(&t).map(|v| (t.clone(), v)).map_err(|e| format!("{e} on {t}")))) {
        Ok(Ok((t, back))) => {
            let v = diff_verdict("C06:hayson", &rv, &project(&back), &t, &mut rec);
            if v.is_fail() {
                return v;
            }
        }
        Ok(Err(e)) => return fail("hayson:error", e),
        Err(p) => return fail(&format!("hayson:{}", panic_sig(&p)), p.msg),
    }
    // C API: constructor from (date, time, zone name) and the three getters
    let (y, mo, d, h, mi, s) = civil(secs);
    let millis_only = want_nanos % 1_000_000 == 0;
    let r = guarded(|| -> Verdict {
        unsafe {
            let mut date = build(&RVal::Date(y, mo, d));
            let mut time = build(&RVal::Time(h, mi, s, want_nanos));
            let tz = CString::new(z.city.as_str()).unwrap();
            let made = c_api::value::haystack_value_make_tz_datetime(&mut date, &mut time, tz.as_ptr());
            let made = match made {
                Some(b) => b,
                None => {
                    let msg = cstring_take(c_api::err::last_error_message());
                    return fail("capi:make_tz_datetime:rejected", format!("haystack_value_make_tz_datetime returned null: {msg:?}"));
                }
            };
            let got = project(&made);
            let RVal::DateTime(g) = &got else { return fail("capi:make_tz_datetime:kind", "not a DateTime".into()) };
            if g.city != z.city {
                return fail("capi:make_tz_datetime:zone-name", format!("zone {:?}", g.city));
            }
            // the (date, time) arguments are either the UTC fields or the local fields of the instant
            let as_utc = g.secs == secs;
            let local_secs_in = secs; // the fields we passed, read as a local wall clock
            let as_local = g.secs + g.offset as i64 == local_secs_in;
            if !(as_utc || as_local) {
                return fail("capi:make_tz_datetime:instant", format!("instant {} is neither the UTC nor the local reading of the fields", g.secs));
            }
            if g.offset != zones::offset_at(&z.tz, g.secs) {
                return fail("capi:make_tz_datetime:offset", format!("offset {} at {}", g.offset, g.secs));
            }
            if g.nanos != want_nanos {
                return fail("capi:make_tz_datetime:nanos", format!("{}", g.nanos));
            }
            // getters on the value the codecs also use
            let val: *const Value = &hv;
            let name = cstring_take(c_api::datetime::haystack_value_get_datetime_timezone(val));
            if name.as_deref() != Some(z.city.as_str()) {
                return fail("capi:get_datetime_timezone", format!("{name:?} instead of {:?}", z.city));
            }
            for utc in [true, false] {
                let mut rd = Value::Null;
                let mut rt = Value::Null;
                let a = c_api::datetime::haystack_value_get_datetime_date(val, utc, &mut rd);
                let b = c_api::datetime::haystack_value_get_datetime_time(val, utc, &mut rt);
                if a != c_api::ResultType::TRUE || b != c_api::ResultType::TRUE {
                    return fail("capi:get_datetime_date/time:status", format!("{a:?} {b:?}"));
                }
                let base = if utc { secs } else { secs + off as i64 };
                let (ey, emo, ed, eh, emi, es) = civil(base);
                if project(&rd) != RVal::Date(ey, emo, ed) {
                    return fail(if utc { "capi:get_datetime_date:utc" } else { "capi:get_datetime_date:local" }, format!("{} instead of {ey}-{emo}-{ed}", render(&project(&rd))));
                }
                if project(&rt) != RVal::Time(eh, emi, es, want_nanos) {
                    return fail(if utc { "capi:get_datetime_time:utc" } else { "capi:get_datetime_time:local" }, format!("{} instead of {eh}:{emi}:{es}", render(&project(&rt))));
                }
            }
            let _ = millis_only;
            Verdict::Pass
        }
    });
    match r {
        Ok(v) => v,
        Err(p) => fail(&format!("capi:{}", panic_sig(&p)), format!("panicked: {} at {}", p.msg, p.location)),
    }
}

// ---------------------------------------------------------------------------------------------

#[derive(Clone, Debug)]
pub struct ZoneInstant {
    zone: String,
    secs: i64,
    nanos: u32,
    digits: usize,
}
impl Case for ZoneInstant {
    fn to_json(&self) -> J {
        json!({"zone": self.zone, "secs": self.secs, "nanos": self.nanos, "digits": self.digits})
    }
    fn from_json(j: &J) -> Result<Self, String> {
        Ok(ZoneInstant {
            zone: j["zone"].as_str().ok_or("zone")?.to_string(),
            secs: j["secs"].as_i64().ok_or("secs")?,
            nanos: j["nanos"].as_u64().unwrap_or(0) as u32,
            digits: j["digits"].as_u64().unwrap_or(0) as usize,
        })
    }
}

#[derive(Clone, Debug)]
pub struct OffsetCase {
    secs: i64,
    nanos: u32,
    offset: i32,
    digits: usize,
}
impl Case for OffsetCase {
    fn to_json(&self) -> J {
        json!({"secs": self.secs, "nanos": self.nanos, "offset": self.offset, "digits": self.digits})
    }
    fn from_json(j: &J) -> Result<Self, String> {
        Ok(OffsetCase {
            secs: j["secs"].as_i64().ok_or("secs")?,
            nanos: j["nanos"].as_u64().unwrap_or(0) as u32,
            offset: j["offset"].as_i64().unwrap_or(0) as i32,
            digits: j["digits"].as_u64().unwrap_or(0) as usize,
        })
    }
}

fn nontrivial_zone_case(z: &ZoneInfo, secs: i64) -> bool {
    let off = zones::offset_at(&z.tz, secs);
    z.id != "UTC" && (off.abs() >= 36000 || off % 3600 != 0 || z.transitions.iter().any(|t| (t - secs).abs() <= 3600))
}

fn enumerate(ctx: &mut Ctx) {
    let zs = zones::zones();
    let in_scope: Vec<&ZoneInfo> = zs.iter().filter(|z| z.in_scope).collect();
    let out: Vec<&str> = zs.iter().filter(|z| !z.in_scope).map(|z| z.id).collect();
    ctx.extra.insert("zones_total".into(), json!(zs.len()));
    ctx.extra.insert("zones_in_scope".into(), json!(in_scope.len()));
    ctx.extra.insert("zones_out_of_scope_ambiguous_city".into(), json!(out));
    let step = ctx.tier.pick(4, 1) as usize;
    let total_tr: usize = zs.iter().map(|z| z.transitions.len()).sum();
    ctx.extra.insert("offset_transitions_1980_2060".into(), json!(total_tr));
    // the zone x transition grid, sharded over threads by zone
    let results: std::sync::Mutex<(Rec, Vec<(Verdict, J)>)> = std::sync::Mutex::new((Rec::new(), vec![]));
    let seed = ctx.seed;
    std::thread::scope(|s| {
        for shard in 0..SHARDS {
            let in_scope = &in_scope;
            let results = &results;
            s.spawn(move || {
                let mut rec = Rec::new();
                let mut fails = vec![];
                for (zi, z) in in_scope.iter().enumerate() {
                    if zi % SHARDS != shard {
                        continue;
                    }
                    let mut failed = false;
                    // instants: around each (step-th) transition, plus the ends of the range
                    let mut instants: Vec<i64> = vec![T_MIN, T_MAX - 1, 1_000_000_000, 1_700_000_000];
                    for (ti, t) in z.transitions.iter().enumerate() {
                        if (ti + zi + seed as usize) % step != 0 {
                            continue;
                        }
                        for d in [-3600i64, -1, 0, 1, 3600] {
                            instants.push((t + d).clamp(T_MIN, T_MAX - 1));
                        }
                    }
                    for (k, secs) in instants.iter().enumerate() {
                        for digits in [0usize, 3, 6, 9] {
                            let nanos = ((*secs as u64).wrapping_mul(2654435761) % 1_000_000_000) as u32;
                            rec.evals += 1;
                            if nontrivial_zone_case(z, *secs) {
                                rec.nontrivial(key_of(&format!("{}:{secs}:{digits}", z.id)));
                            }
                            if k == 5 && digits == 3 && zi % 97 == 0 {
                                rec.samples.push(format!("{} @ {secs} ({} fractional digits)", z.id, digits));
                            }
                            let v = check_zone_instant(z, *secs, nanos, digits);
                            if v.is_fail() && !failed {
                                failed = true;
                                fails.push((v, json!({"zone": z.id, "secs": secs, "nanos": nanos, "digits": digits})));
                            }
                        }
                    }
                    rec.class("zone-enumerated");
                }
                let mut m = results.lock().unwrap();
                m.0.merge(rec);
                m.1.extend(fails);
            });
        }
    });
    let (rec, fails) = results.into_inner().unwrap();
    ctx.rec.merge(rec);
    for (v, case) in fails {
        ctx.report("zone-instant", v, case);
    }
    // all RFC 3339 offsets -12:00 .. +14:00 in 15 minute steps x sampled local times
    let mut off = -12 * 3600;
    while off <= 14 * 3600 {
        for (k, secs) in [T_MIN + 86_400, 951_782_400 /* 2000-02-29 */, 1_000_000_000, 1_330_559_999, 1_700_000_000, T_MAX - 86_400, 1_234_567_890].iter().enumerate() {
            for digits in [0usize, 3, 9] {
                ctx.rec.evals += 1;
                ctx.rec.nontrivial(key_of(&format!("offset:{off}:{secs}:{digits}")));
                let v = check_rfc3339(*secs, 123_456_789, off, digits);
                if k == 0 && digits == 0 {
                    ctx.rec.class(if off % 3600 == 0 { "offset:whole-hour" } else { "offset:fractional-hour" });
                }
                ctx.report("rfc3339-offset", v, json!({"secs": secs, "nanos": 123_456_789, "offset": off, "digits": digits}));
            }
        }
        off += 900;
    }
    if step == 1 {
        ctx.exhaustive = true;
    }
}

pub fn run(ctx: &mut Ctx) {
    ctx.rule("enumerated: every zone of chrono-tz whose city name is unambiguous x its offset transitions 1980-2060 (quick: every 4th, rotating with the seed; thorough: all) x {t-3600, t-1, t, t+1, t+3600} x {0,3,6,9} fractional digits, and all RFC 3339 offsets -12:00..+14:00 in 15 min steps x 7 instants x 3 precisions; generated: random (zone, instant, fraction, precision) and (offset, instant); oracles: (a) parse_from_rfc3339 is Err or denotes chrono's instant, (b) parse_from_rfc3339_with_timezone has that instant, the zone oracle's offset and the city name, (c) Zinc and Hayson round trips keep instant/offset/city, C API make_tz_datetime and the date/time/timezone getters agree; non-trivial: zone != UTC and (|offset| >= 10 h or non-whole-hour offset or within 1 h of a transition); distinct by (zone, instant, precision)");
    ctx.assume("chrono (RFC 3339 parsing) and chrono-tz (zone rules) are the oracle; zones sharing a city name with a different zone are out of scope and listed");
    enumerate(ctx);
    let total = ctx.tier.pick(64_000, 1_280_000);
    ctx.run_sub::<ZoneInstant>(
        "zone-instant",
        total,
        &|| {
            let n = zones::in_scope_zones().len();
            bx((0..n, T_MIN..T_MAX, frac_nanos(), prop::sample::select(vec![0usize, 1, 2, 3, 4, 5, 6, 7, 8, 9]), any::<u16>(), 0u8..4, -4000i64..4000).prop_map(|(zi, secs, nanos, digits, ti, mode, delta)| {
                let z = zones::in_scope_zones()[zi];
                let secs = if mode == 0 && !z.transitions.is_empty() {
                    (z.transitions[idx(ti, z.transitions.len())] + delta).clamp(T_MIN, T_MAX - 1)
                } else {
                    secs
                };
                ZoneInstant { zone: z.id.to_string(), secs, nanos, digits }
            }))
        },
        &|c, rec| {
            let z = zones::zone_by_id(&c.zone).expect("zone");
            if nontrivial_zone_case(z, c.secs) {
                rec.nontrivial(key_of(&format!("{}:{}:{}", c.zone, c.secs, c.digits)));
            }
            rec.class(&format!("digits:{}", c.digits));
            rec.sample(|| format!("{c:?}"));
            check_zone_instant(z, c.secs, c.nanos, c.digits)
        },
    );
    ctx.run_sub::<OffsetCase>(
        "rfc3339-offset",
        total,
        &|| {
            bx((T_MIN..T_MAX, frac_nanos(), -48i32..=56, prop::sample::select(vec![0usize, 1, 3, 6, 9])).prop_map(|(secs, nanos, q, digits)| OffsetCase { secs, nanos, offset: q * 900, digits }))
        },
        &|c, rec| {
            rec.nontrivial(key_of(&format!("{c:?}")));
            rec.class(if c.offset % 3600 == 0 { "offset:whole-hour" } else { "offset:fractional-hour" });
            check_rfc3339(c.secs, c.nanos, c.offset, c.digits)
        },
    );
    let _ = make_dt;
}

pub fn replay(kind: &str, case: &J, _rec: &mut Rec) -> Verdict {
    match kind {
        "zone-instant" => match ZoneInstant::from_json(case) {
            Ok(c) => match zones::zone_by_id(&c.zone) {
                Some(z) => check_zone_instant(z, c.secs, c.nanos, c.digits),
                None => Verdict::fail("infra:bad-replay", "unknown zone"),
            },
            Err(e) => Verdict::fail("infra:bad-replay", e),
        },
        "rfc3339-offset" => OffsetCase::from_json(case).map(|c| check_rfc3339(c.secs, c.nanos, c.offset, c.digits)).unwrap_or_else(|e| Verdict::fail("infra:bad-replay", e)),
        _ => Verdict::fail("infra:unknown-kind", kind),
    }
}
