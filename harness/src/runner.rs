//! Seeded, sharded proptest runner with class counters, distinct-case hashing,
//! sampling, known-finding matching, replay files and evidence output.

use proptest::strategy::{BoxedStrategy, Strategy};
use proptest::test_runner::{Config, RngAlgorithm, TestCaseError, TestError, TestRng, TestRunner};
use serde_json::{json, Value as J};
use std::cell::RefCell;
use std::collections::{BTreeMap, HashSet};
use std::fmt::Debug;
use std::path::PathBuf;
use std::sync::Mutex;
use std::time::Instant;

pub const SHARDS: usize = 16;

#[derive(Clone, Copy, PartialEq, Eq, Debug)]
pub enum Tier {
    Quick,
    Thorough,
}

impl Tier {
    pub fn name(self) -> &'static str {
        match self {
            Tier::Quick => "quick",
            Tier::Thorough => "thorough",
        }
    }
    /// pick a per-tier number
    pub fn pick(self, quick: u64, thorough: u64) -> u64 {
        match self {
            Tier::Quick => quick,
            Tier::Thorough => thorough,
        }
    }
}

#[derive(Clone, Debug, PartialEq)]
pub enum Verdict {
    Pass,
    Fail { sig: String, msg: String },
}

impl Verdict {
    pub fn fail(sig: impl Into<String>, msg: impl Into<String>) -> Verdict {
        Verdict::Fail {
            sig: sig.into(),
            msg: msg.into(),
        }
    }
    pub fn is_fail(&self) -> bool {
        matches!(self, Verdict::Fail { .. })
    }
}

/// A generated case that can be written to / read from a replay file.
pub trait Case: Debug + Clone + Send + 'static {
    fn to_json(&self) -> J;
    fn from_json(j: &J) -> Result<Self, String>
    where
        Self: Sized;
}

// ---------------------------------------------------------------------------------------------
// hashing helpers (no RNG of our own: only used to derive seeds and distinct-case keys)

pub fn fnv64(data: &[u8]) -> u64 {
    let mut h: u64 = 0xcbf29ce484222325;
    for b in data {
        h ^= *b as u64;
        h = h.wrapping_mul(0x100000001b3);
    }
    h
}

pub fn key_of(s: &str) -> u64 {
    fnv64(s.as_bytes())
}

fn splitmix(x: &mut u64) -> u64 {
    *x = x.wrapping_add(0x9E3779B97F4A7C15);
    let mut z = *x;
    z = (z ^ (z >> 30)).wrapping_mul(0xBF58476D1CE4E5B9);
    z = (z ^ (z >> 27)).wrapping_mul(0x94D049BB133111EB);
    z ^ (z >> 31)
}

pub fn seed_bytes(seed: u64, prop: &str, kind: &str, shard: usize) -> [u8; 32] {
    let mut x = seed ^ fnv64(prop.as_bytes()).rotate_left(17) ^ fnv64(kind.as_bytes()).rotate_left(41)
        ^ (shard as u64).wrapping_mul(0xD6E8FEB86659FD93);
    let mut out = [0u8; 32];
    for i in 0..4 {
        let v = splitmix(&mut x);
        out[i * 8..i * 8 + 8].copy_from_slice(&v.to_le_bytes());
    }
    out
}

// ---------------------------------------------------------------------------------------------
// panic capture

#[derive(Clone, Debug)]
pub struct PanicInfo {
    pub msg: String,
    pub location: String,
    pub fuel: bool,
}

thread_local! {
    static LAST_PANIC: RefCell<Option<(String, String)>> = const { RefCell::new(None) };
}

pub fn install_quiet_panic_hook() {
    std::panic::set_hook(Box::new(|info| {
        let msg = if let Some(s) = info.payload().downcast_ref::<&str>() {
            s.to_string()
        } else if let Some(s) = info.payload().downcast_ref::<String>() {
            s.clone()
        } else if info
            .payload()
            .downcast_ref::<libhaystack::verif_hooks::FuelExhausted>()
            .is_some()
        {
            "<fuel exhausted>".to_string()
        } else {
            "<non-string panic>".to_string()
        };
        let loc = info
            .location()
            .map(|l| format!("{}:{}", l.file(), l.line()))
            .unwrap_or_default();
        LAST_PANIC.with(|p| *p.borrow_mut() = Some((msg, loc)));
    }));
}

/// Run `f`, turning a panic into a `PanicInfo`.
pub fn guarded<T>(f: impl FnOnce() -> T) -> Result<T, PanicInfo> {
    LAST_PANIC.with(|p| *p.borrow_mut() = None);
    let r = std::panic::catch_unwind(std::panic::AssertUnwindSafe(f));
    match r {
        Ok(v) => Ok(v),
        Err(payload) => {
            let fuel = payload
                .downcast_ref::<libhaystack::verif_hooks::FuelExhausted>()
                .is_some();
            libhaystack::verif_hooks::set_fuel(u64::MAX);
            let (msg, location) = LAST_PANIC
                .with(|p| p.borrow_mut().take())
                .unwrap_or_else(|| ("<unknown panic>".into(), String::new()));
            Err(PanicInfo {
                msg,
                location: short_loc(&location),
                fuel,
            })
        }
    }
}

/// Run `f` under a fuel budget proportional to the input length (deterministic hang oracle).
pub fn fueled<T>(input_len: usize, f: impl FnOnce() -> T) -> Result<T, PanicInfo> {
    let fuel = 64u64 * (input_len as u64 + 16);
    libhaystack::verif_hooks::set_fuel(fuel);
    let r = guarded(f);
    libhaystack::verif_hooks::set_fuel(u64::MAX);
    r
}

fn short_loc(loc: &str) -> String {
    // keep path relative to the repository so signatures do not depend on where it is checked out
    if let Some(i) = loc.find("/src/") {
        loc[i + 1..].to_string()
    } else {
        loc.to_string()
    }
}

pub fn panic_sig(p: &PanicInfo) -> String {
    if p.fuel {
        "hang:fuel".to_string()
    } else {
        // location without line number keeps the signature stable under unrelated edits
        let file = p.location.split(':').next().unwrap_or("");
        format!("panic:{file}")
    }
}

// ---------------------------------------------------------------------------------------------
// recorder

#[derive(Default, Clone)]
pub struct Rec {
    pub on: bool,
    pub evals: u64,
    pub nontrivial: HashSet<u64>,
    pub classes: BTreeMap<String, u64>,
    pub samples: Vec<String>,
    pub excluded: BTreeMap<String, u64>,
    pub max_samples: usize,
}

impl Rec {
    pub fn new() -> Rec {
        Rec {
            on: true,
            max_samples: 6,
            ..Default::default()
        }
    }
    pub fn eval(&mut self) {
        if self.on {
            self.evals += 1;
        }
    }
    pub fn class(&mut self, c: &str) {
        if self.on {
            *self.classes.entry(c.to_string()).or_insert(0) += 1;
        }
    }
    pub fn class_n(&mut self, c: &str, n: u64) {
        if self.on && n > 0 {
            *self.classes.entry(c.to_string()).or_insert(0) += n;
        }
    }
    pub fn nontrivial(&mut self, key: u64) {
        if self.on {
            self.nontrivial.insert(key);
        }
    }
    pub fn excluded(&mut self, c: &str) {
        if self.on {
            *self.excluded.entry(c.to_string()).or_insert(0) += 1;
        }
    }
    /// Offer a sample; kept at exponentially spaced evaluation counts so samples span the run.
    pub fn sample(&mut self, f: impl FnOnce() -> String) {
        if self.on && self.samples.len() < self.max_samples && (self.evals.is_power_of_two() || self.evals % 997 == 0) {
            let mut s = f();
            if s.len() > 600 {
                let mut cut = 600;
                while !s.is_char_boundary(cut) {
                    cut -= 1;
                }
                s.truncate(cut);
                s.push('…');
            }
            self.samples.push(s);
        }
    }
    pub fn to_json(&self) -> J {
        json!({
            "evals": self.evals,
            "nontrivial": self.nontrivial.iter().collect::<Vec<_>>(),
            "classes": self.classes,
            "samples": self.samples,
            "excluded": self.excluded,
        })
    }
    pub fn from_json(j: &J) -> Rec {
        let mut r = Rec::new();
        r.evals = j["evals"].as_u64().unwrap_or(0);
        r.nontrivial = j["nontrivial"].as_array().map(|a| a.iter().filter_map(|x| x.as_u64()).collect()).unwrap_or_default();
        if let Some(o) = j["classes"].as_object() {
            r.classes = o.iter().map(|(k, v)| (k.clone(), v.as_u64().unwrap_or(0))).collect();
        }
        if let Some(o) = j["excluded"].as_object() {
            r.excluded = o.iter().map(|(k, v)| (k.clone(), v.as_u64().unwrap_or(0))).collect();
        }
        r.samples = j["samples"].as_array().map(|a| a.iter().filter_map(|x| x.as_str().map(String::from)).collect()).unwrap_or_default();
        r
    }
    pub fn merge(&mut self, other: Rec) {
        self.evals += other.evals;
        self.nontrivial.extend(other.nontrivial);
        for (k, v) in other.classes {
            *self.classes.entry(k).or_insert(0) += v;
        }
        for (k, v) in other.excluded {
            *self.excluded.entry(k).or_insert(0) += v;
        }
        for s in other.samples {
            if self.samples.len() < 12 {
                self.samples.push(s);
            }
        }
    }
}

// ---------------------------------------------------------------------------------------------
// known findings

#[derive(Clone, Debug)]
pub struct Finding {
    pub id: String,
    pub property: String,
    pub status: String, // "open" | "fixed"
    pub signature: String,
    pub what: String,
    pub replay: Option<String>,
    pub commit: Option<String>,
}

pub fn verif_root() -> PathBuf {
    std::env::var("VERIF_ROOT")
        .map(PathBuf::from)
        .unwrap_or_else(|_| PathBuf::from("/verif"))
}

pub fn load_findings() -> Vec<Finding> {
    let p = verif_root().join("known_findings.json");
    let text = match std::fs::read_to_string(&p) {
        Ok(t) => t,
        Err(_) => return vec![],
    };
    let j: J = serde_json::from_str(&text).expect("known_findings.json must be valid JSON");
    let mut out = vec![];
    for f in j["findings"].as_array().cloned().unwrap_or_default() {
        let props: Vec<String> = match &f["property"] {
            J::String(s) => vec![s.clone()],
            J::Array(a) => a.iter().filter_map(|x| x.as_str().map(String::from)).collect(),
            _ => vec![],
        };
        for p in props {
            out.push(Finding {
                id: f["id"].as_str().unwrap_or("").to_string(),
                property: p,
                status: f["status"].as_str().unwrap_or("open").to_string(),
                signature: f["signature"].as_str().unwrap_or("").to_string(),
                what: f["what"].as_str().unwrap_or("").to_string(),
                replay: f["replay"].as_str().map(String::from),
                commit: f["commit"].as_str().map(String::from),
            });
        }
    }
    out
}

// ---------------------------------------------------------------------------------------------
// context

#[derive(Clone, Debug)]
pub struct ViolationRec {
    pub kind: String,
    pub sig: String,
    pub msg: String,
    pub case: J,
}

pub struct Ctx {
    pub prop: &'static str,
    pub tier: Tier,
    pub seed: u64,
    pub rec: Rec,
    pub violations: Vec<ViolationRec>,
    pub known_reproduced: Vec<String>,
    pub findings: Vec<Finding>,
    pub start: Instant,
    pub rules: Vec<String>,
    pub assumptions: Vec<String>,
    pub extra: BTreeMap<String, J>,
    pub exhaustive: bool,
    pub inconclusive: Vec<String>,
}

impl Ctx {
    pub fn new(prop: &'static str, tier: Tier, seed: u64) -> Ctx {
        let findings = load_findings().into_iter().filter(|f| f.property == prop).collect();
        Ctx {
            prop,
            tier,
            seed,
            rec: Rec::new(),
            violations: vec![],
            known_reproduced: vec![],
            findings,
            start: Instant::now(),
            rules: vec![],
            assumptions: vec![],
            extra: BTreeMap::new(),
            exhaustive: false,
            inconclusive: vec![],
        }
    }

    /// Is the finding with this signature still open? (drives generator exclusions)
    pub fn open(&self, sig: &str) -> bool {
        self.findings.iter().any(|f| f.status == "open" && f.signature == sig)
    }

    pub fn open_set(&self) -> HashSet<String> {
        self.findings
            .iter()
            .filter(|f| f.status == "open")
            .map(|f| f.signature.clone())
            .collect()
    }

    pub fn rule(&mut self, text: &str) {
        self.rules.push(text.to_string());
    }
    pub fn assume(&mut self, text: &str) {
        self.assumptions.push(text.to_string());
    }

    /// Record a failure found by an enumeration (not proptest).
    pub fn report(&mut self, kind: &str, v: Verdict, case: J) {
        if let Verdict::Fail { sig, msg } = v {
            if self.violations.iter().any(|x| x.sig == sig) {
                return;
            }
            self.violations.push(ViolationRec {
                kind: kind.to_string(),
                sig,
                msg,
                case,
            });
        }
    }

    /// Run one generated sub-check over `total` cases split on 16 fixed shards.
    pub fn run_sub<C: Case>(
        &mut self,
        kind: &'static str,
        total: u64,
        mk: &(dyn Fn() -> BoxedStrategy<C> + Sync),
        check: &(dyn Fn(&C, &mut Rec) -> Verdict + Sync),
    ) {
        let per = std::cmp::max(1, total / SHARDS as u64) as u32;
        let merged: Mutex<(Rec, Vec<ViolationRec>)> = Mutex::new((Rec::new(), vec![]));
        let prop = self.prop;
        let seed = self.seed;
        let tier = self.tier;
        // watchdog: the case each shard is executing right now, and since when
        let inflight: Vec<Mutex<Option<(Instant, C)>>> = (0..SHARDS).map(|_| Mutex::new(None)).collect();
        let finished = std::sync::atomic::AtomicUsize::new(0);
        std::thread::scope(|s| {
            {
                let (inflight, finished) = (&inflight, &finished);
                s.spawn(move || watchdog(prop, kind, seed, tier, inflight, finished));
            }
            for shard in 0..SHARDS {
                let merged = &merged;
                let (inflight, finished) = (&inflight, &finished);
                std::thread::Builder::new()
                    .stack_size(64 << 20)
                    .spawn_scoped(s, move || {
                        let strat = mk();
                        let rng = TestRng::from_seed(RngAlgorithm::ChaCha, &seed_bytes(seed, prop, kind, shard));
                        let cfg = Config {
                            cases: per,
                            failure_persistence: None,
                            max_shrink_iters: 3000,
                            max_global_rejects: 1 << 20,
                            ..Config::default()
                        };
                        let mut runner = TestRunner::new_with_rng(cfg, rng);
                        let rec = RefCell::new(Rec::new());
                        let result = runner.run(&strat, |c| {
                            let mut r = rec.borrow_mut();
                            r.eval();
                            *inflight[shard].lock().unwrap() = Some((Instant::now(), c.clone()));
                            let v = match guarded(|| check(&c, &mut r)) {
                                Ok(v) => v,
                                Err(p) => Verdict::fail(
                                    format!("harness-or-uncaught:{}", panic_sig(&p)),
                                    format!("uncaught panic in check: {} at {}", p.msg, p.location),
                                ),
                            };
                            *inflight[shard].lock().unwrap() = None;
                            match v {
                                Verdict::Pass => Ok(()),
                                Verdict::Fail { sig, msg } => {
                                    r.on = false; // stop counting: the closure re-runs during shrinking
                                    Err(TestCaseError::fail(format!("{sig} :: {msg}")))
                                }
                            }
                        });
                        let mut viol = vec![];
                        match result {
                            Ok(()) => {}
                            Err(TestError::Fail(_reason, minimal)) => {
                                let mut scratch = Rec::new();
                                scratch.on = false;
                                let v = match guarded(|| check(&minimal, &mut scratch)) {
                                    Ok(v) => v,
                                    Err(p) => Verdict::fail(
                                        format!("harness-or-uncaught:{}", panic_sig(&p)),
                                        format!("uncaught panic in check: {} at {}", p.msg, p.location),
                                    ),
                                };
                                if let Verdict::Fail { sig, msg } = v {
                                    viol.push(ViolationRec {
                                        kind: kind.to_string(),
                                        sig,
                                        msg,
                                        case: minimal.to_json(),
                                    });
                                } else {
                                    viol.push(ViolationRec {
                                        kind: kind.to_string(),
                                        sig: "flaky:minimal-case-passes".into(),
                                        msg: "shrunk case passed on re-run".into(),
                                        case: minimal.to_json(),
                                    });
                                }
                            }
                            Err(TestError::Abort(reason)) => {
                                viol.push(ViolationRec {
                                    kind: kind.to_string(),
                                    sig: "infra:proptest-abort".into(),
                                    msg: format!("{reason}"),
                                    case: J::Null,
                                });
                            }
                        }
                        let mut m = merged.lock().unwrap();
                        m.0.merge(rec.into_inner());
                        m.1.extend(viol);
                        finished.fetch_add(1, std::sync::atomic::Ordering::SeqCst);
                    })
                    .expect("spawn shard");
            }
        });
        let (rec, viol) = merged.into_inner().unwrap();
        self.rec.merge(rec);
        for v in viol {
            if v.sig.starts_with("infra:") {
                self.inconclusive.push(format!("{}: {}", v.sig, v.msg));
            } else if !self.violations.iter().any(|x| x.sig == v.sig) {
                self.violations.push(v);
            }
        }
    }

    /// Replays committed replay files of the property's findings. `replay` executes one file.
    pub fn replay_findings(&mut self, replay: &dyn Fn(&str, &J, &mut Rec) -> Verdict) {
        let findings = self.findings.clone();
        for f in findings {
            let Some(rel) = &f.replay else { continue };
            let path = verif_root().join(rel);
            let Ok(text) = std::fs::read_to_string(&path) else {
                self.inconclusive.push(format!("replay file missing: {}", path.display()));
                continue;
            };
            let j: J = match serde_json::from_str(&text) {
                Ok(j) => j,
                Err(e) => {
                    self.inconclusive.push(format!("replay file invalid: {}: {e}", path.display()));
                    continue;
                }
            };
            let kind = j["kind"].as_str().unwrap_or("").to_string();
            let mut scratch = Rec::new();
            let v = match guarded(|| replay(&kind, &j["case"], &mut scratch)) {
                Ok(v) => v,
                Err(p) => Verdict::fail(
                    format!("harness-or-uncaught:{}", panic_sig(&p)),
                    format!("uncaught panic in replay: {} at {}", p.msg, p.location),
                ),
            };
            self.rec.class("replayed-finding-files");
            match (f.status.as_str(), v) {
                ("open", Verdict::Fail { .. }) => {
                    self.known_reproduced.push(format!("{} {}", f.id, f.what));
                }
                ("open", Verdict::Pass) => {
                    // no longer reproduces: nothing to say (a fixed defect is not an alarm)
                    self.rec.class("open-finding-no-longer-reproduces");
                }
                (_, Verdict::Fail { sig, msg }) => {
                    // a fixed finding came back
                    self.violations.push(ViolationRec {
                        kind,
                        sig: format!("regression:{}:{}", f.id, sig),
                        msg: format!("fixed finding {} fails again: {}", f.id, msg),
                        case: j["case"].clone(),
                    });
                }
                _ => {}
            }
        }
    }

    /// Finish: classify violations against open findings, write replay files + evidence, print lines.
    /// Returns the process exit code.
    pub fn finish(mut self) -> i32 {
        let root = verif_root();
        let mut real: Vec<(ViolationRec, PathBuf)> = vec![];
        let open: Vec<Finding> = self.findings.iter().filter(|f| f.status == "open").cloned().collect();
        for v in std::mem::take(&mut self.violations) {
            if let Some(f) = open.iter().find(|f| f.signature == v.sig) {
                let line = format!("{} {}", f.id, f.what);
                if !self.known_reproduced.contains(&line) {
                    self.known_reproduced.push(line);
                }
                continue;
            }
            let dir = root.join("violations");
            let _ = std::fs::create_dir_all(&dir);
            let name = format!("{}-{}-{:016x}.json", self.prop, sanitize_name(&v.kind), key_of(&format!("{}{}", v.sig, v.case)));
            let path = dir.join(name);
            let doc = json!({
                "property": self.prop,
                "kind": v.kind,
                "signature": v.sig,
                "message": v.msg,
                "case": v.case,
                "seed": self.seed,
                "tier": self.tier.name(),
                "found_by": "hv",
            });
            let _ = std::fs::write(&path, serde_json::to_string_pretty(&doc).unwrap());
            real.push((v, path));
        }
        let wall = self.start.elapsed().as_secs_f64();
        // evidence
        let mut classes = serde_json::Map::new();
        for (k, v) in &self.rec.classes {
            classes.insert(k.clone(), json!(v));
        }
        let mut excluded = serde_json::Map::new();
        for (k, v) in &self.rec.excluded {
            excluded.insert(k.clone(), json!(v));
        }
        let mut coverage = serde_json::Map::new();
        coverage.insert("evaluations".into(), json!(self.rec.evals));
        coverage.insert("distinct_nontrivial".into(), json!(self.rec.nontrivial.len()));
        coverage.insert("rule".into(), json!(self.rules.join(" | ")));
        // samples: cases of this run, written out; a run that ended before any case completed (the code under test
        // crashed at once) still shows the cases it reports, or says so
        let mut samples: Vec<J> = self.rec.samples.iter().map(|s| json!(s)).collect();
        if samples.is_empty() {
            samples.extend(real.iter().take(3).map(|(v, _)| json!({"violating_case": v.case, "kind": v.kind})));
        }
        if samples.is_empty() {
            samples.push(json!("no case completed in this run (see `inconclusive` / the violations)"));
        }
        coverage.insert("samples".into(), J::Array(samples));
        coverage.insert("classes".into(), J::Object(classes));
        coverage.insert("excluded".into(), J::Object(excluded));
        coverage.insert("known_findings_reproduced".into(), json!(self.known_reproduced));
        coverage.insert("exhaustive".into(), json!(self.exhaustive));
        if !self.inconclusive.is_empty() {
            coverage.insert("inconclusive".into(), json!(self.inconclusive));
        }
        for (k, v) in &self.extra {
            coverage.insert(k.clone(), v.clone());
        }
        let ev = json!({
            "property_id": self.prop,
            "tier": self.tier.name(),
            "seed": self.seed,
            "level": "exploration",
            "coverage": J::Object(coverage),
            "assumptions": self.assumptions,
            "wall_s": (wall * 1000.0).round() / 1000.0,
            "violations": real.len(),
        });
        let evdir = root.join("evidence");
        let _ = std::fs::create_dir_all(&evdir);
        let evpath = evdir.join(format!("{}.json", self.prop));
        std::fs::write(&evpath, serde_json::to_string_pretty(&ev).unwrap()).expect("write evidence");

        for k in &self.known_reproduced {
            println!("KNOWN-FINDING: property={} {}", self.prop, k);
        }
        for (v, path) in &real {
            println!("VIOLATION property={} replay={}", self.prop, path.display());
            println!("  kind={} signature={}", v.kind, v.sig);
            println!("  {}", first_line(&v.msg));
        }
        println!(
            "{} {}: evaluations={} distinct_nontrivial={} violations={} known={} wall={:.1}s seed={}",
            self.prop,
            self.tier.name(),
            self.rec.evals,
            self.rec.nontrivial.len(),
            real.len(),
            self.known_reproduced.len(),
            wall,
            self.seed
        );
        if !real.is_empty() {
            1
        } else if !self.inconclusive.is_empty() {
            for i in &self.inconclusive {
                eprintln!("INCONCLUSIVE: {i}");
            }
            2
        } else {
            0
        }
    }
}

/// Wall-clock watchdog for hangs that the fuel / budget oracles cannot see (a loop that never
/// reads a token or calls the resolver). A case in flight for more than HANG_SECS is written out
/// and re-run alone in a child process; only if it does not finish there either is it reported
/// (the stuck thread cannot be stopped, so the process ends here with the VIOLATION line).
fn watchdog<C: Case>(prop: &'static str, kind: &'static str, seed: u64, tier: Tier, inflight: &[Mutex<Option<(Instant, C)>>], finished: &std::sync::atomic::AtomicUsize) {
    const HANG_SECS: u64 = 25;
    let mut strikes = 0;
    loop {
        for _ in 0..10 {
            std::thread::sleep(std::time::Duration::from_millis(100));
            if finished.load(std::sync::atomic::Ordering::SeqCst) >= SHARDS {
                return;
            }
        }
        for slot in inflight.iter() {
            let stuck: Option<C> = {
                let g = slot.lock().unwrap();
                match &*g {
                    Some((since, c)) if since.elapsed().as_secs() >= HANG_SECS => Some(c.clone()),
                    _ => None,
                }
            };
            let Some(c) = stuck else { continue };
            let root = verif_root();
            let dir = root.join("violations");
            let _ = std::fs::create_dir_all(&dir);
            let case = c.to_json();
            let path = dir.join(format!("{}-{}-hang-{:016x}.json", prop, sanitize_name(kind), key_of(&case.to_string())));
            let doc = json!({"property": prop, "kind": kind, "signature": format!("{prop}:hang:watchdog"), "message": "case did not finish", "case": case, "seed": seed, "tier": tier.name(), "found_by": "hv watchdog"});
            let _ = std::fs::write(&path, serde_json::to_string_pretty(&doc).unwrap());
            // confirm alone in a fresh process
            let r = crate::isolate::run_probe(&["replay-file".to_string(), prop.to_string(), path.display().to_string()], None, std::time::Duration::from_secs(90), &[]);
            if r.status == crate::isolate::ProbeStatus::Timeout {
                println!("VIOLATION property={} replay={}", prop, path.display());
                println!("  kind={kind} signature={prop}:hang:watchdog");
                println!("  the case did not finish within {HANG_SECS} s in the run and within 90 s alone in a fresh process (non-termination)");
                let ev = json!({"property_id": prop, "tier": tier.name(), "seed": seed, "level": "exploration",
                    "coverage": {"evaluations": 1, "distinct_nontrivial": 0, "rule": "run ended by the hang watchdog", "samples": [doc["case"].to_string()]},
                    "wall_s": 0.0, "violations": 1});
                let _ = std::fs::create_dir_all(root.join("evidence"));
                let _ = std::fs::write(root.join("evidence").join(format!("{prop}.json")), serde_json::to_string_pretty(&ev).unwrap());
                std::process::exit(1);
            }
            // finished alone: slow, not stuck. Give the run more time, but not forever.
            let _ = std::fs::remove_file(&path);
            strikes += 1;
            {
                let mut g = slot.lock().unwrap();
                if let Some((_, c)) = g.take() {
                    *g = Some((Instant::now(), c));
                }
            }
            if strikes >= 6 {
                eprintln!("INCONCLUSIVE: a case of {prop}/{kind} keeps exceeding {HANG_SECS} s in the run but finishes alone");
                std::process::exit(2);
            }
        }
    }
}

fn first_line(s: &str) -> String {
    let l = s.lines().next().unwrap_or("");
    if l.len() > 400 {
        let mut cut = 400;
        while !l.is_char_boundary(cut) {
            cut -= 1;
        }
        format!("{}…", &l[..cut])
    } else {
        l.to_string()
    }
}

fn sanitize_name(s: &str) -> String {
    s.chars().map(|c| if c.is_ascii_alphanumeric() { c } else { '_' }).collect()
}

/// Monotone index mapping (keeps shrinking convergent): u16 -> [0, len)
pub fn idx(i: u16, len: usize) -> usize {
    if len == 0 {
        0
    } else {
        ((i as usize) * len) >> 16
    }
}

/// Convenience: box a strategy.
pub fn bx<S: Strategy + 'static>(s: S) -> BoxedStrategy<S::Value> {
    s.boxed()
}
