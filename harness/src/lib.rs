pub mod units_list {
    include!(concat!(env!("OUT_DIR"), "/unit_statics.rs"));
}
pub mod gen;
pub mod isolate;
pub mod props;
pub mod refimpl;
pub mod runner;
pub mod rval;
