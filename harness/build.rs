// Lists every `pub static ref NAME: Unit` of libhaystack's generated unit table so the
// harness can enumerate units independently of the `UNITS` lookup map it checks.
use std::{env, fs, path::Path};

fn main() {
    let src = "/repo/src/haystack/units/units_generated.rs";
    println!("cargo:rerun-if-changed={src}");
    println!("cargo:rerun-if-changed=/repo/unit-gen/units.txt");
    let text = fs::read_to_string(src).expect("units_generated.rs");
    let mut names = Vec::new();
    for line in text.lines() {
        let l = line.trim();
        if let Some(rest) = l.strip_prefix("pub static ref ") {
            if let Some((name, ty)) = rest.split_once(':') {
                if ty.trim_start().starts_with("Unit ") || ty.trim_start().starts_with("Unit=") {
                    names.push(name.trim().to_string());
                }
            }
        }
    }
    let mut out = String::new();
    out.push_str("pub fn unit_statics() -> Vec<(&'static str, &'static libhaystack::units::Unit)> {\n    vec![\n");
    for n in &names {
        out.push_str(&format!(
            "        (\"{n}\", &*libhaystack::units::units_generated::{n}),\n"
        ));
    }
    out.push_str("    ]\n}\n");
    let dest = Path::new(&env::var("OUT_DIR").unwrap()).join("unit_statics.rs");
    fs::write(dest, out).unwrap();
}
