#!/usr/bin/env python3
import json, sys, glob, jsonschema
m = json.load(open('/verif/MANIFEST.json'))
jsonschema.validate(m, json.load(open('/root/.vp/MANIFEST.schema.json')))
es = json.load(open('/root/.vp/EVIDENCE.schema.json'))
for f in sorted(glob.glob('/verif/evidence/*.json')):
    jsonschema.validate(json.load(open(f)), es)
ps = json.load(open('/root/.vp/PROPERTIES.schema.json'))
for l in open('/verif/properties.jsonl'):
    jsonschema.validate(json.loads(l), ps)
print("valid: manifest,", len(glob.glob('/verif/evidence/*.json')), "evidence files")
