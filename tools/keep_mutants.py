#!/usr/bin/env python3
"""Copies confirmed seeded changes from the sub-agents' scratch worktrees into /verif/seeded/<id>/
(patch.diff, the demonstration demo.rs, the author's notes.md, meta.json)."""
import json, os, re, shutil, sys, glob

# usage: keep_mutants.py [src-dir [first-letter]]   (round 1: /tmp/mut a; round 2: /tmp/mut2 c)
SRC = sys.argv[1] if len(sys.argv) > 1 else "/tmp/mut"
FIRST = sys.argv[2] if len(sys.argv) > 2 else "a"
DST = "/verif/seeded"
confirm = {}
for log in sorted(glob.glob(f"{SRC}/confirm*.log")):
    for line in open(log):
        m = re.match(r"RESULT (\S+): confirmed=(\w+) suite\(pass/fail\)=(\d+)/(\d+) demo_with_change_rc=(\d+) demo_without_rc=(\d+)", line)
        if m:
            confirm[m.group(1)] = dict(confirmed=m.group(2) == "YES", suite_passed=int(m.group(3)), suite_failed=int(m.group(4)), demo_with_change_rc=int(m.group(5)), demo_without_change_rc=int(m.group(6)))
# detection results: parse eval logs (later logs override earlier ones)
detect = {}
for log in sorted(glob.glob(f"{SRC}/eval*.log")):
    cur = None
    lines = open(log).read().splitlines()
    i = 0
    while i < len(lines):
        l = lines[i]
        m = re.match(r"##### (\S+) -> (.*)", l)
        if m:
            cur = m.group(1)
        m = re.match(r"== (C\d+) (\w+): (\S+) rc=(\d+) (\d+)s", l)
        if m and cur:
            sig = None
            for k in range(i + 1, min(i + 8, len(lines))):
                s = re.search(r"signature=(\S+)", lines[k])
                if s:
                    sig = s.group(1); break
                if lines[k].startswith("==") or lines[k].startswith("#####"):
                    break
            entry = dict(tier=m.group(2), result=m.group(3), exit_code=int(m.group(4)), seconds_incl_rebuild=int(m.group(5)), signature=sig, run=os.path.basename(log))
            prev = detect.setdefault(cur, {}).get(m.group(1))
            if prev and prev["result"] != entry["result"]:
                entry["earlier_result_before_the_check_was_strengthened"] = prev["result"]
            detect[cur][m.group(1)] = entry
        i += 1

meta_extra = json.load(open("/verif/tools/seeded_table.json")) if os.path.exists("/verif/tools/seeded_table.json") else {}
kept = 0
for d in sorted(glob.glob(f"{SRC}/C??/mutant-?")):
    key = d
    rel = d[len(SRC) + 1:]           # C01/mutant-a
    prop, which = rel.split("/")
    c = confirm.get(key)
    if not c or not c["confirmed"]:
        print("skip (not confirmed):", rel, c)
        continue
    sid = f"{prop}-{chr(ord(FIRST) + ord(which[-1]) - ord('a'))}"
    out = f"{DST}/{sid}"
    os.makedirs(out, exist_ok=True)
    for f in ("patch.diff", "patch.orig.diff", "demo.rs", "notes.md"):
        if os.path.exists(f"{d}/{f}"):
            shutil.copy(f"{d}/{f}", f"{out}/{f}")
    extra = meta_extra.get(sid, {})
    meta = {
        "id": sid,
        "property": prop,
        "summary": extra.get("summary", ""),
        "needs_to_manifest": extra.get("needs", ""),
        "author": "independent sub-agent given only the property text and a scratch worktree of /repo",
        "confirmed_in_scratch_worktree": {
            "how": "tools/confirm_mutant.sh <dir>: git worktree of /repo under /tmp; `git apply patch.diff`; `cargo test --workspace --offline --no-fail-fast`; copy demo.rs to tests/mutant_demo.rs; `cargo test --offline --test mutant_demo` with and without the change",
            "existing_suite_with_change": f"{c['suite_passed']} passed, {c['suite_failed']} failed (365 tests + 104 doctests)",
            "demonstration_with_change": "fails" if c["demo_with_change_rc"] != 0 else "passes",
            "demonstration_without_change": "passes" if c["demo_without_change_rc"] == 0 else "fails",
        },
        "detection": detect.get(rel, {}),
        "how_to_run": f"git -C /repo apply /verif/seeded/{sid}/patch.diff && (cd /verif && ./check {prop} quick); git -C /repo reset --hard HEAD",
    }
    json.dump(meta, open(f"{out}/meta.json", "w"), indent=1)
    kept += 1
print("kept", kept)
