#!/bin/bash
# usage: tools/fuzz_stage.sh <Cxx> <seed>
# Coverage-guided stage of a thorough run: builds the libFuzzer targets against /repo's working tree,
# runs 16 instances per target for a fixed number of executions with the property's oracle inside the
# target, converts any artifact into a replay file (VIOLATION line) and records the stage in the evidence.
prop="$1"; seed="${2:-1}"
cd "$(dirname "$0")/.."
root="$(pwd)"
case "$prop" in
  C01|C02|C04) targets="zinc_value"; runs=12000; maxlen=1024 ;;
  C03) targets="zinc_decode hayson_decode"; runs=400000; maxlen=2048 ;;
  C09) targets="filter_parse"; runs=300000; maxlen=400 ;;
  C10) targets="hayson_decode"; runs=400000; maxlen=2048 ;;
  C11) targets="zinc_decode hayson_decode"; runs=200000; maxlen=2048 ;;
  *) exit 0 ;;
esac
mkdir -p work
log="work/fuzz-build-$$.log"
( cd fuzz && CARGO_NET_OFFLINE=true flock ../work/.build-fuzz.lock cargo +nightly fuzz build --fuzz-dir . ) >"$log" 2>&1
if [ $? -ne 0 ]; then echo "FUZZ BUILD FAILED (infrastructure, not a violation):" >&2; tail -30 "$log" >&2; rm -f "$log"; exit 2; fi
rm -f "$log"
rc=0
stats="[]"
for t in $targets; do
  bin="fuzz/target/x86_64-unknown-linux-gnu/release/$t"
  wd="work/fuzz-$prop-$t-$$"; mkdir -p "$wd"
  pids=""
  for i in $(seq 0 15); do
    mkdir -p "$wd/c$i" "$wd/a$i"
    [ -d "corpus/$t" ] && cp corpus/$t/* "$wd/c$i/" 2>/dev/null
    dict=""; [ -f "dict/$t.dict" ] && dict="-dict=dict/$t.dict"
    HV_FUZZ_PROP="$prop" VERIF_ROOT="$root" "$bin" -runs=$runs -seed=$((seed * 1000 + i + 1)) -max_len=$maxlen -len_control=0 -timeout=60 -report_slow_units=120 -rss_limit_mb=4096 $dict -artifact_prefix="$wd/a$i/" "$wd/c$i" >"$wd/log$i" 2>&1 &
    pids="$pids $!"
  done
  wait $pids
  execs=$(grep -h "^Done" $wd/log* | awk '{s+=$2} END {print s+0}')
  arts=$(ls $wd/a*/* 2>/dev/null | wc -l)
  found=0
  for a in $(ls $wd/a*/* 2>/dev/null | head -20); do
    out=$(VERIF_ROOT="$root" harness/target/verif/hv fuzz-artifact "$prop" "$t" "$a"); arc=$?
    echo "$out"
    if [ $arc -eq 1 ]; then rc=1; found=$((found+1)); fi
  done
  # timeouts that do not fail through the replay path are reported as inconclusive, never as violations
  stats=$(python3 -c "import json,sys; s=json.loads(sys.argv[1]); s.append({'target':sys.argv[2],'instances':16,'runs_each':int(sys.argv[3]),'executions':int(sys.argv[4]),'artifacts':int(sys.argv[5]),'artifacts_confirmed_by_replay':int(sys.argv[6])}); print(json.dumps(s))" "$stats" "$t" "$runs" "$execs" "$arts" "$found")
  echo "fuzz $prop/$t: executions=$execs artifacts=$arts confirmed=$found"
  rm -rf "$wd"
done
python3 - "$prop" "$stats" <<'PY'
import json, sys
prop, stats = sys.argv[1], json.loads(sys.argv[2])
p = f"evidence/{prop}.json"
try:
    e = json.load(open(p))
    e["coverage"]["libfuzzer_stage"] = stats
    e["coverage"]["rule"] += " | coverage-guided stage: libFuzzer targets with the property's oracle inside the target (HV_FUZZ_PROP), 16 instances x fixed -runs, seeded corpus + dictionary, -len_control=0; every artifact is converted to a replay file and only counts if it fails through the plain replay path"
    json.dump(e, open(p, "w"), indent=2)
except Exception as ex:
    print("evidence update skipped:", ex)
PY
exit $rc
