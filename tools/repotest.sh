#!/bin/bash
# Runs the repository's own suite (hooks OFF) and prints pass/fail totals (365 expected, plus doctests).
cd /repo && CARGO_NET_OFFLINE=true cargo test --workspace --no-fail-fast --offline 2>&1 | grep -E "^test result|FAILED|panicked|^failures:" | awk '{print} /^test result/ {p+=$4; f+=$6} END {print "TOTAL passed=" p " failed=" f}'
