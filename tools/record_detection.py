#!/usr/bin/env python3
"""usage: tools/record_detection.py <eval log> [note]
Reads a log written by an evaluation loop (lines `##### <seeded id> -> <Cxx>` followed by the output of
tools/try_mutant.sh) and records, in seeded/<id>/meta.json, what the property's check reported.
Prints one markdown table row per seeded change."""
import json, os, re, sys, subprocess
ROOT = os.path.dirname(os.path.dirname(os.path.abspath(__file__)))
log = open(sys.argv[1], errors="replace").read().splitlines()
note = sys.argv[2] if len(sys.argv) > 2 else os.path.basename(sys.argv[1])
head = subprocess.check_output(["git", "-C", "/repo", "rev-parse", "--short", "HEAD"], text=True).strip()
cur = None; res = {}
for i, l in enumerate(log):
    m = re.match(r"##### (\S+) -> (C\d+)", l)
    if m: cur = m.group(1); continue
    m = re.match(r"== (C\d+) (\w+): (\S+) rc=(\d+) (\d+)s", l)
    if m and cur:
        sig = None
        for k in range(i + 1, min(i + 10, len(log))):
            s = re.search(r"signature=(\S+)", log[k])
            if s and not s.group(1).startswith("flaky:"): sig = s.group(1); break
            if log[k].startswith("==") or log[k].startswith("#####"): break
        res.setdefault(cur, {})[m.group(1)] = dict(tier=m.group(2), result=m.group(3), exit_code=int(m.group(4)), seconds_incl_rebuild=int(m.group(5)), signature=sig, run=note, repo_head=head)
table = json.load(open(os.path.join(ROOT, "tools", "seeded_table.json")))
for sid in sorted(res):
    mp = os.path.join(ROOT, "seeded", sid, "meta.json")
    meta = json.load(open(mp))
    for prop, e in res[sid].items():
        prev = meta.setdefault("detection", {}).get(prop)
        if prev:
            for k in ("earlier_result_before_the_check_was_strengthened",):
                if k in prev: e[k] = prev[k]
            if prev.get("result") == "MISSED" and e["result"] == "CAUGHT": e["earlier_result_before_the_check_was_strengthened"] = "MISSED"
        meta["detection"][prop] = e
    if os.path.exists(os.path.join(ROOT, "seeded", sid, "patch.orig.diff")):
        meta["rebased"] = "patch.diff was rebased by hand onto the /repo HEAD that carries the F25/F26 repairs (same change; patch.orig.diff is the author's diff against 4e6e09f) and re-confirmed with tools/confirm_mutant.sh"
    json.dump(meta, open(mp, "w"), indent=1, ensure_ascii=False)
    e = res[sid].get(meta["property"], {})
    print(f"| {sid} | {table.get(sid, {}).get('summary', '')[:110]} | {e.get('result')} | `{e.get('signature')}` | {e.get('seconds_incl_rebuild')} s |")
