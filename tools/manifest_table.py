NOTES = "Property-based testing / fuzzing family only. Every check is ./check <id> <tier>; exit 0/1/2 as described in DESIGN.md appendix D."
NOT_APPLICABLE = {}
CHECKS = {
 "C01": {
  "technique": "property-based round-trip testing (proptest structured generation + shrinking) against a strict projection oracle",
  "level": "Generated-input search: well-formed values of all 18 kinds are encoded to Zinc and decoded again; the result must be strictly equal (field-by-field projection, not libhaystack's ==). Held on everything explored; no absence claim.",
  "note": "Trusts chrono/chrono-tz for zone rules and Rust's f64 formatting/parsing; values are built through public constructors.",
  "ref": "DESIGN.md section 3 C01",
 },
 "C02": {
  "technique": "property-based round-trip testing (proptest) through three serde_json routes and typed T->json->T, strict projection oracle",
  "level": "Generated-input search: well-formed values are serialised to Hayson and deserialised through to_string/from_str, to_vec/from_slice, to_value/from_value and the typed Serialize+Deserialize impls; result must be strictly equal. Held on everything explored.",
  "note": "Trusts serde_json for JSON syntax and chrono-tz for zone rules. A grid meta tag named 'ver' is excluded (reserved by the Hayson grid encoding).",
  "ref": "DESIGN.md section 3 C02",
 },
}
