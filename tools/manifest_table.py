NOTES = "Property-based testing / fuzzing family only. Every check is ./check <id> <tier>; exit 0/1/2 as described in DESIGN.md appendix D."
NOT_APPLICABLE = {}
CHECKS = {
 "C01": {
  "technique": "property-based round-trip testing (proptest structured generation + shrinking) against a strict projection oracle; the thorough tier adds a coverage-guided libFuzzer stage (cargo-fuzz) with the same oracle inside the target",
  "level": "Generated-input search: well-formed values of all 18 kinds are encoded to Zinc and decoded again; the result must be strictly equal (field-by-field projection, not libhaystack's ==). Held on everything explored; no absence claim.",
  "note": "Trusts chrono/chrono-tz for zone rules and Rust's f64 formatting/parsing; values are built through public constructors.",
  "ref": "DESIGN.md section 3 C01; section 9 (what the build added, findings, sensitivity rounds 9.7-9.12 and 9.14, appendix E)",
 },
 "C02": {
  "technique": "property-based round-trip testing (proptest) through three serde_json routes and typed T->json->T, strict projection oracle; the thorough tier adds a coverage-guided libFuzzer stage (cargo-fuzz) with the same oracle inside the target",
  "level": "Generated-input search: well-formed values are serialised to Hayson and deserialised through to_string/from_str, to_vec/from_slice, to_value/from_value and the typed Serialize+Deserialize impls; result must be strictly equal. Held on everything explored.",
  "note": "Trusts serde_json for JSON syntax and chrono-tz for zone rules. A grid meta tag named 'ver' is excluded (reserved by the Hayson grid encoding).",
  "ref": "DESIGN.md section 3 C02; section 9 (what the build added, findings, sensitivity rounds 9.7-9.12 and 9.14, appendix E)",
 },
 "C10": {
  "technique": "property-based testing (proptest): any constructible value, deep spines and decoder images through every encoder under catch_unwind; the thorough tier adds a coverage-guided libFuzzer stage (cargo-fuzz) with the same oracle inside the target",
  "level": "Generated-input search over ill-formed and well-formed values (depth to 64), the image of each decoder offered to the other encoder, and foreign Hayson documents; oracle: no encoder / Display / dis call panics. Held on everything explored.",
  "note": "Instants within 14 h of chrono's limits are excluded from generation (open known finding F12b, replayed on every run).",
  "ref": "DESIGN.md section 3 C10; section 9 (what the build added, findings, sensitivity rounds 9.7-9.12 and 9.14, appendix E)",
 },
 "C12": {
  "technique": "property-based testing of algebraic laws (proptest) over near-collision triples, plus differential check of HashSet/BTreeSet/sort+dedup against a quadratic ==-class count",
  "level": "Generated-input search: triples with deliberate near-collisions; all stated laws of ==, Hash, Ord, PartialOrd checked on Value and on each typed value. Held on everything explored.",
  "note": "NaN excluded as the property states. std sort()/collect (PartialOrd::lt based) are only asserted when all Numbers in the triple share one unit (open known finding F13d).",
  "ref": "DESIGN.md section 3 C12; section 9 (what the build added, findings, sensitivity rounds 9.7-9.12 and 9.14, appendix E)",
 },
 "C19": {
  "technique": "exhaustive enumeration (18 kinds x 256 codes x names) plus property-based testing (proptest) of predicates, typed conversions, dict getters and grid construction against the RVal model",
  "level": "The finite kind/code/name space is enumerated completely; values, dicts and record lists are generated. Held on everything explored.",
  "note": "Model of make_from_dicts: rows unchanged in order; columns = sorted distinct union of keys, no column meta.",
  "ref": "DESIGN.md section 3 C19; section 9 (what the build added, findings, sensitivity rounds 9.7-9.12 and 9.14, appendix E)",
 },
 "C03": {
  "technique": "property-based testing + mutation/grammar-based fuzzing (proptest) with a deterministic fuel oracle for non-termination and child-process containment for stack exhaustion; the thorough tier adds a coverage-guided libFuzzer stage (cargo-fuzz) with the same oracle inside the target",
  "level": "Generated-input search: arbitrary bytes, grammar-generated documents, every prefix, mutants, damaged grids, corpus windows, chunked/faulting readers, and a nesting ladder to 131072 in child processes; oracle: every decoder entry point returns Ok or Err (no panic, no fuel exhaustion, no abort, no confirmed hang). Held on everything explored.",
  "note": "Non-termination is detected by fuel ticks at Scanner::read/Lexer::read (verif-hooks); a loop that never reads would only be seen by the 30 s child-process watchdog of the ladder. Stack limits: the environment's main-thread stack and a 2 MiB thread.",
  "ref": "DESIGN.md section 3 C03; section 9 (what the build added, findings, sensitivity rounds 9.7-9.12 and 9.14, appendix E)",
 },
 "C04": {
  "technique": "differential property-based testing (proptest) against an independent reference Zinc writer and strict grammar reader written from the specification; the thorough tier adds a coverage-guided libFuzzer stage (cargo-fuzz) with the same oracle inside the target",
  "level": "Direction A: libhaystack's output must be a sentence of the grammar (reference reader) denoting the value. Direction B: every legal spelling produced by the reference writer must decode to the value. The reference pair is self-tested first. Held on everything explored.",
  "note": "Reference = DESIGN.md appendix A; spellings the specification leaves open are never written. Number denotation by Rust's correctly rounded parse; units from unit-gen/units.txt; zones from chrono-tz.",
  "ref": "DESIGN.md section 3 C04; section 9 (what the build added, findings, sensitivity rounds 9.7-9.12 and 9.14, appendix E)",
 },
 "C05": {
  "technique": "differential property-based testing (proptest) against an independent reference Hayson writer/reader with its own JSON parser",
  "level": "Direction A: libhaystack's JSON must be read by the strict reference reader (exact _kind and member names) as the same value. Direction B: every member order, optional-member choice and number spelling from the reference writer must decode to the value. Held on everything explored.",
  "note": "Reference = DESIGN.md appendix B. A dict tag named _kind and a grid meta tag named ver are outside the model of this encoding.",
  "ref": "DESIGN.md section 3 C05; section 9 (what the build added, findings, sensitivity rounds 9.7-9.12 and 9.14, appendix E)",
 },
 "C06": {
  "technique": "exhaustive enumeration (zones x offset transitions x instants x precisions; all RFC 3339 offsets) plus property-based testing (proptest) against chrono / chrono-tz as oracle",
  "level": "Every zone with an unambiguous city name is enumerated with the seconds around its offset transitions (every 4th transition in quick, all in thorough = exhaustive grid), every RFC 3339 offset in 15 min steps; random (zone, instant, precision) fill in between. Constructors, Zinc, Hayson and the C API getters must keep instant, offset and zone name. Held on everything explored.",
  "note": "chrono and chrono-tz are trusted. Four zones sharing a city name with a different zone are out of scope and listed in the evidence.",
  "ref": "DESIGN.md section 3 C06; section 9 (what the build added, findings, sensitivity rounds 9.7-9.12 and 9.14, appendix E)",
 },
 "C11": {
  "technique": "metamorphic property-based testing (proptest): decode-encode-decode fixed point, chunked-reader vs buffer differential, byte-counting reader for the laziness bound; the thorough tier adds a coverage-guided libFuzzer stage (cargo-fuzz) with the same oracle inside the target",
  "level": "Generated accepted texts (random legal spellings, accepted mutants, corpus files) must reach a fixed point after one normalisation; reader decoding with generated chunk/Interrupted schedules must equal buffer decoding and the lazy iterator must yield parse_grid's rows; each row must be handed out before more than (end of first token after the row + 16 bytes) were consumed. Held on everything explored.",
  "note": "Row offsets are known because the harness assembles the grid text row by row. The 16 byte slack is the scanner's documented peek-ahead for number/date/time disambiguation.",
  "ref": "DESIGN.md section 3 C11; section 9 (what the build added, findings, sensitivity rounds 9.7-9.12 and 9.14, appendix E)",
 },
 "C15": {
  "technique": "exhaustive enumeration of the unit table (every unit x every identifier x 8 magnitudes x both codecs) plus property-based testing (proptest) of non-identifiers",
  "level": "The positive half is finite and enumerated completely on every run (exhaustive: true); near-miss and random non-identifiers are generated. Held on everything explored.",
  "note": "Units are listed from the source of units_generated.rs by the harness build script and compared with unit-gen/units.txt, independently of the UNITS map.",
  "ref": "DESIGN.md section 3 C15; section 9 (what the build added, findings, sensitivity rounds 9.7-9.12 and 9.14, appendix E)",
 },
 "C16": {
  "technique": "exhaustive enumeration of all ordered unit pairs (conversion, product, quotient) against the physical formula from units.txt, plus property-based testing (proptest) of Number arithmetic",
  "level": "All ~196k ordered pairs x 7 magnitudes are enumerated on every run (exhaustive: true); Number + - * / over generated pairs. Held on everything explored.",
  "note": "Tolerance 1e-9 relative to the operands; results beyond the f64 range are not compared; one-side-unit-less addition is left open by the statement and only counted.",
  "ref": "DESIGN.md section 3 C16; section 9 (what the build added, findings, sensitivity rounds 9.7-9.12 and 9.14, appendix E)",
 },
 "C07": {
  "technique": "model-based property testing (proptest) against a reference evaluator written from the filter semantics, plus bounded exhaustive enumeration of small filters x small records",
  "level": "Generated (filter, records) pairs with tags steered near the literals, evaluated by libhaystack (filter built through public node fields, and through the parser) and by a three-valued reference evaluator; grids through filter/filter_all; all filters of size <= 2 (size 3 over a reduced term set) against all 343 records of a 7-value universe are enumerated. Held on everything explored.",
  "note": "Ordering of Numbers with different units is left open by the statement and only counted. ^symbol and relationship terms are covered by C13. Ref equality ignores dis; timestamps compare by instant.",
  "ref": "DESIGN.md section 3 C07; section 9 (what the build added, findings, sensitivity rounds 9.7-9.12 and 9.14, appendix E)",
 },
 "C08": {
  "technique": "round-trip property testing (proptest) between filter trees, libhaystack's printer and parser, and an independent reference printer with random legal spacing",
  "level": "Generated filter trees: print-then-parse gives an equal tree (literals strictly), reference-printed text with arbitrary legal blanks/line breaks parses to exactly the tree (precedence, grouping, path end), second round stable, visitor order. Held on everything explored.",
  "note": "Names exclude the keywords not/and/or/true/false. *== and relationship refs are compared by id after library printing (Display omits dis).",
  "ref": "DESIGN.md section 3 C08; section 9 (what the build added, findings, sensitivity rounds 9.7-9.12 and 9.14, appendix E)",
 },
 "C09": {
  "technique": "fuzzing by generation and mutation (proptest) with fuel oracle, child-process paren-depth ladder, and a call-budget resolver as deterministic non-termination oracle for evaluation; the thorough tier adds a coverage-guided libFuzzer stage (cargo-fuzz) with the same oracle inside the target",
  "level": "Arbitrary bytes, operator soup, valid filters, every prefix, mutants, ref-chasing filters; paren ladder to 131072 in child processes (also through the C entry point); every parsed filter is printed and evaluated over cyclic ref graphs against the empty and the real defs namespace. Held on everything explored.",
  "note": "Non-termination of evaluation is detected through the resolver's call budget (20000 calls), parse loops through fuel ticks in the lexers.",
  "ref": "DESIGN.md section 3 C09; section 9 (what the build added, findings, sensitivity rounds 9.7-9.12 and 9.14, appendix E)",
 },
 "C13": {
  "technique": "model-based property testing (proptest) of generated taxonomies against an adjacency-set/closure model, plus exhaustive enumeration over the real Project Haystack defs (all symbols, all ordered pairs for fits)",
  "level": "Random acyclic defs grids and records are generated and twelve kinds of namespace queries compared with the subtype-graph model as sets; the shipped defs are enumerated completely for unary queries and the 714x714 fits table. Held on everything explored.",
  "note": "Answers are compared as sets of def names (plus a no-duplicates check); the defs grid of the real namespace is read with libhaystack's own Zinc decoder.",
  "ref": "DESIGN.md section 3 C13; section 9 (what the build added, findings, sensitivity rounds 9.7-9.12 and 9.14, appendix E)",
 },
 "C14": {
  "technique": "stateful property testing (proptest): generated query histories against the stateless model, and generated multi-thread schedules steered through schedule-point hooks (biased schedule sampling)",
  "level": "Histories are deterministic: each generated query sequence is replayed on fresh namespaces in four orders and every answer must equal the model. Schedules: 2-16 threads on one cold namespace with generated delay plans at the caches' critical points; every answer must equal the model, no panic, completion (a stuck schedule is confirmed in a child process before being called a deadlock). Held on everything explored.",
  "note": "Weakest property for this technique: the OS schedule is biased, not owned (DashMap's locks cannot be replaced by a controllable scheduler). Evidence reports how many schedules had two threads inside the same cache-miss window.",
  "ref": "DESIGN.md section 3 C14; section 9 (what the build added, findings, sensitivity rounds 9.7-9.12 and 9.14, appendix E)",
 },
 "C17": {
  "technique": "stateful model-based property testing (proptest): generated C API call sequences interpreted against the extern \"C\" functions and against a model of plain Rust operations, in child processes",
  "level": "Generated sequences of 1-40 calls over a pool of handles; after every call the result, the failure sentinel + single error message, and a deep snapshot of every pooled handle are compared with the model. Aborts are attributed to the sequence in flight, confirmed alone and shrunk. Held on everything explored.",
  "note": "Handles are chosen mostly kind-aware by the interpreter (a pure function of the op list and the state). Calls aliasing one handle as container and entry/result are skipped. make_tz_datetime may read its fields as UTC or local wall clock.",
  "ref": "DESIGN.md section 3 C17; section 9 (what the build added, findings, sensitivity rounds 9.7-9.12 and 9.14, appendix E)",
 },
 "C18": {
  "technique": "the C17 sequence generator executed under AddressSanitizer + LeakSanitizer in child processes (fault attribution by re-run, shrinking by call deletion), plus an exhaustive null-pointer sweep",
  "level": "Any ASan report, any leak after the protocol-following teardown (LeakSanitizer check every 64 sequences, attributed by re-running the window) and any abort is a violation; every pointer parameter of every non-destroy function is tried as null (finite, exhaustive). Held on everything explored.",
  "note": "Needs the nightly toolchain's -Zsanitizer=address (pre-installed); build adds ~1.5 min cold to setup. Filter handles have no destroy function in the API and are dropped by the harness.",
  "ref": "DESIGN.md section 3 C18; section 9 (what the build added, findings, sensitivity rounds 9.7-9.12 and 9.14, appendix E)",
 },
 "C20": {
  "technique": "model-based property testing (proptest) against a hand-written macro scanner and the documented precedence chain",
  "level": "Generated records over the eight display tags, macro patterns over $ { } < > identifiers/spaces/non-ASCII and a partial localisation function; dis_macro, dict_to_dis and Dict::dis must equal the model; no panics. Held on everything explored.",
  "note": "One-letter names after $ and Null-valued display tags are only checked for absence of panics (left open by the documentation / data model).",
  "ref": "DESIGN.md section 3 C20; section 9 (what the build added, findings, sensitivity rounds 9.7-9.12 and 9.14, appendix E)",
 },
}
