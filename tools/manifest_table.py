NOTES = "Property-based testing / fuzzing family only. Every check is ./check <id> <tier>; exit 0/1/2 as described in DESIGN.md appendix D."
NOT_APPLICABLE = {}
CHECKS = {
 "C01": {
  "technique": "property-based round-trip testing (proptest structured generation + shrinking) against a strict projection oracle",
  "level": "Generated-input search: well-formed values of all 18 kinds are encoded to Zinc and decoded again; the result must be strictly equal (field-by-field projection, not libhaystack's ==). Held on everything explored; no absence claim.",
  "note": "Trusts chrono/chrono-tz for zone rules and Rust's f64 formatting/parsing; values are built through public constructors.",
  "ref": "DESIGN.md section 3 C01",
 },
}
