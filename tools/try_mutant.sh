#!/bin/bash
# usage: tools/try_mutant.sh <patch.diff> <tier> <Cxx> [Cyy ...]
# Applies a seeded change to /repo, runs the given checks, and ALWAYS reverts /repo afterwards.
patch="$1"; tier="$2"; shift 2
cd /repo || exit 2
if [ -n "$(git status --porcelain)" ]; then echo "/repo is not clean" >&2; exit 2; fi
if ! git apply --check "$patch" 2>/dev/null; then
  if ! git apply --3way --check "$patch" 2>/dev/null; then echo "PATCH DOES NOT APPLY: $patch"; exit 3; fi
fi
git apply "$patch" 2>/dev/null || git apply --3way "$patch"
trap 'cd /repo && git reset -q --hard HEAD && git clean -fdq -- src tests 2>/dev/null' EXIT
cd /verif
for p in "$@"; do
  start=$(date +%s)
  out=$(VERIF_SEED=${VERIF_SEED:-1} timeout 1800 ./check $p $tier 2>&1); rc=$?
  end=$(date +%s)
  if echo "$out" | grep -q "^VIOLATION"; then verdict="CAUGHT"; elif [ $rc -eq 2 ]; then verdict="INFRA(rc=2)"; else verdict="MISSED"; fi
  echo "== $p $tier: $verdict rc=$rc $((end-start))s"
  echo "$out" | grep -E "^VIOLATION|^  kind|BUILD|INCONCL" | head -4 | cut -c1-260
  echo "$out" | grep -A1 "^  kind" | grep -v "^  kind" | grep -v "^--" | head -2 | cut -c1-300
done
