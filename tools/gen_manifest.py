#!/usr/bin/env python3
"""Regenerates /verif/MANIFEST.json from the table below (kept in one place so it stays valid)."""
import json, os, subprocess
ROOT = os.path.dirname(os.path.dirname(os.path.abspath(__file__)))

# property -> (technique, level text, level note, design ref)
CHECKS = {
}
exec(open(os.path.join(ROOT, "tools", "manifest_table.py")).read())

props = [json.loads(l)["id"] for l in open(os.path.join(ROOT, "properties.jsonl"))]
checks = []
for pid in props:
    if pid not in CHECKS:
        continue
    c = CHECKS[pid]
    checks.append({
        "property_id": pid,
        "quick_cmd": f"./check {pid} quick",
        "thorough_cmd": f"./check {pid} thorough",
        "evidence_file": f"/verif/evidence/{pid}.json",
        "replay_cmd_template": f"./check {pid} --replay {{path}}",
        "engine": "hv",
        "level_claimed": {"category": "exploration", "text": c["level"], "design_ref": c["ref"]},
        "level_note": c["note"],
        "technique": c["technique"],
    })
na = [{"property_id": p, "reason": NOT_APPLICABLE.get(p, "check not built yet in this revision of /verif (work in progress; see DESIGN.md section 8)")} for p in props if p not in CHECKS]
try:
    hooks = subprocess.check_output(["git", "-C", "/repo", "log", "--format=%H", "--grep=verif-hooks"], text=True).split()
except Exception:
    hooks = []
m = {
    "version": 1,
    "setup_cmd": "./setup.sh",
    "hooks": {
        "guard": "cargo feature `verif-hooks` of libhaystack (off by default)",
        "enable": "the harness crate depends on libhaystack by path with features=[\"verif-hooks\"]; `./check` rebuilds it from /repo's working tree",
        "baseline_off_cmd": "cd /repo && cargo test --workspace --no-fail-fast --offline",
        "source_commits": hooks,
        "add_only": True,
    },
    "engines": [
        {"name": "hv", "path": "/verif/harness", "serves_properties": sorted(CHECKS.keys()),
         "kind_free_text": "proptest-driven property harness (seeded, 16 fixed shards, integrated shrinking, replay files), exhaustive enumerators for finite sub-domains, child-process isolation for aborts"},
    ],
    "checks": checks,
    "not_applicable": na,
    "notes": NOTES,
}
json.dump(m, open(os.path.join(ROOT, "MANIFEST.json"), "w"), indent=1)
print("MANIFEST.json:", len(checks), "checks,", len(na), "not claimed")
