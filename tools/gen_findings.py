#!/usr/bin/env python3
"""Regenerates known_findings.json from tools/findings_table.py (commit hashes looked up by subject)."""
import json, subprocess, os
ROOT = os.path.dirname(os.path.dirname(os.path.abspath(__file__)))
def sha(grep):
    out = subprocess.check_output(["git","-C","/repo","log","--format=%h","-F","--grep",grep], text=True).split()
    assert len(out)==1, (grep,out)
    return out[0]
F=[]
def fixed(fid, prop, grep, what, replay, sig):
    c=sha(grep)
    assert os.path.exists(os.path.join(ROOT, replay)), replay
    F.append({"id":fid,"property":prop,"status":"fixed","commit":c,"signature":sig,
              "what":f"fixed: property={prop} {c} {what}","replay":replay})
def open_(fid, prop, what, replay, sig):
    assert replay is None or os.path.exists(os.path.join(ROOT, replay)), replay
    F.append({"id":fid,"property":prop,"status":"open","signature":sig,"what":what,"replay":replay})
exec(open(os.path.join(ROOT,"tools","findings_table.py")).read())
json.dump({"findings":F}, open(os.path.join(ROOT,"known_findings.json"),"w"), indent=1, ensure_ascii=False)
print(len(F), "findings:", sum(1 for f in F if f["status"]=="open"), "open")
