#!/usr/bin/env python3
"""Prints the DESIGN 9.5 table from the evidence files of the last run."""
import json, glob, os
ROOT = os.path.dirname(os.path.dirname(os.path.abspath(__file__)))
print("| check | evaluations | distinct non-trivial | wall |\n|---|---|---|---|")
for f in sorted(glob.glob(os.path.join(ROOT, "evidence", "C*.json"))):
    d = json.load(open(f)); c = d["coverage"]
    print(f"| {d['property_id']} | {c['evaluations']:,} | {c['distinct_nontrivial']:,} | {d['wall_s']:.0f} s |".replace(",", " "))
