#!/bin/bash
# usage: tools/confirm_mutant.sh <dir with patch.diff and demo.rs> [scratch worktree]
# Confirms in a scratch worktree of /repo (outside /repo and /verif) that the seeded change
#  (1) compiles and passes the existing suite, (2) makes the demonstration fail, and that
#  (3) the demonstration passes on the unchanged tree. Prints one summary line.
d="$(cd "$1" && pwd)"; wt="${2:-/tmp/confirm-wt}"
export CARGO_NET_OFFLINE=true CARGO_TARGET_DIR="${wt}-target"
if [ ! -d "$wt" ]; then git -C /repo worktree add -q --detach "$wt" HEAD || exit 2; fi
cd "$wt" || exit 2
git checkout -q --detach "$(git -C /repo rev-parse HEAD)" 2>/dev/null; git reset -q --hard HEAD; rm -f tests/mutant_demo.rs
if ! git apply --check "$d/patch.diff" 2>/dev/null && ! git apply --3way --check "$d/patch.diff" 2>/dev/null; then echo "RESULT $d: patch does not apply to current HEAD"; exit 3; fi
git apply "$d/patch.diff" 2>/dev/null || git apply --3way "$d/patch.diff"
suite=$(cargo test --workspace --offline --no-fail-fast 2>&1 | grep -E "^test result" | awk '{p+=$4; f+=$6} END {print p "/" f}')
cp "$d/demo.rs" tests/mutant_demo.rs
cargo test --offline --test mutant_demo >/tmp/confirm-demo-with.log 2>&1; with=$?
git reset -q --hard HEAD
cp "$d/demo.rs" tests/mutant_demo.rs
cargo test --offline --test mutant_demo >/tmp/confirm-demo-without.log 2>&1; without=$?
rm -f tests/mutant_demo.rs
ok="NO"; if [ "${suite#*/}" = "0" ] && [ $with -ne 0 ] && [ $without -eq 0 ]; then ok="YES"; fi
echo "RESULT $d: confirmed=$ok suite(pass/fail)=$suite demo_with_change_rc=$with demo_without_rc=$without"
