#!/bin/bash
# Runs every check's quick (or $1) tier for each seed in $SEEDS; prints one line per run and all alarm lines.
tier="${1:-quick}"
SEEDS="${SEEDS:-1 2 3}"
cd "$(dirname "$0")/.."
props=$(python3 -c "import json; print(' '.join(c['property_id'] for c in json.load(open('MANIFEST.json'))['checks']))")
bad=0
for seed in $SEEDS; do
  for p in $props; do
    out=$(VERIF_SEED=$seed ./check $p $tier 2>&1); rc=$?
    echo "$out" | tail -1 | sed "s/^/rc=$rc seed=$seed /"
    if [ $rc -ne 0 ] || echo "$out" | grep -q "^VIOLATION"; then
      bad=$((bad+1)); echo "$out" | grep -E "^VIOLATION|^  |INCONCLUSIVE|BUILD" | head -12
    fi
  done
done
echo "runs with alarms or non-zero exit: $bad"
