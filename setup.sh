#!/bin/bash
# Offline build of the harness (MANIFEST.setup_cmd).
set -eu
cd "$(dirname "$0")"
export CARGO_NET_OFFLINE=true
mkdir -p work evidence violations
( cd harness && cargo build --offline --profile verif )
echo "setup ok"
