#!/bin/bash
# Offline build of the harness (MANIFEST.setup_cmd).
set -eu
cd "$(dirname "$0")"
export CARGO_NET_OFFLINE=true
mkdir -p work evidence violations
( cd harness && cargo build --offline --profile verif )
( cd harness && RUSTFLAGS="-Zsanitizer=address --cfg hv_asan" cargo +nightly build --offline --profile verif --target x86_64-unknown-linux-gnu --target-dir target-asan )
# unoptimised build: its children probe the C03 nesting ladder with debug-build stack frames
( cd harness && cargo build --offline --target-dir target-dev )
echo "setup ok"
