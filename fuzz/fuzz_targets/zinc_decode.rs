#![no_main]
//! C03 / C11 oracle inside a coverage-guided target: every Zinc entry point must return Ok or Err
//! (panic / fuel exhaustion = violation), and accepted text must reach a re-encoding fixed point.
use hvlib::gen::readers::ReaderPlan;
use hvlib::props::c03;
use hvlib::runner::{install_quiet_panic_hook, Rec, Verdict};
use libfuzzer_sys::fuzz_target;
use std::sync::Once;

static INIT: Once = Once::new();

fuzz_target!(|data: &[u8]| {
    INIT.call_once(install_quiet_panic_hook);
    if data.len() > 4096 {
        return;
    }
    let mut rec = Rec::new();
    rec.on = false;
    // first byte picks the reader plan so that chunked / interrupted reads are reached as well
    let (plan, body) = match data.split_first() {
        Some((b, rest)) => (
            ReaderPlan { chunks: if b & 1 == 1 { vec![1 + (b >> 4)] } else { vec![] }, interrupt_every: (b >> 1) & 3, fail_at: None, fail_forever: false },
            rest,
        ),
        None => (ReaderPlan::default(), data),
    };
    if let Verdict::Fail { sig, msg } = c03::check_bytes(body, &plan, &mut rec, false) {
        panic!("VIOLATION {sig}: {msg}");
    }
    if let Ok(text) = std::str::from_utf8(body) {
        if let Verdict::Fail { sig, msg } = hvlib::props::c11::zinc_fixed_point_pub(text, &mut rec) {
            panic!("VIOLATION {sig}: {msg}");
        }
    }
});
