#![no_main]
//! C03 / C11 oracle inside a coverage-guided target: every Zinc entry point must return Ok or Err
//! (panic / fuel exhaustion = violation), and accepted text must reach a re-encoding fixed point
//! and decode the same from a chunked reader. HV_FUZZ_PROP selects one property's oracle.
use hvlib::props::{c03, c11};
use hvlib::runner::{install_quiet_panic_hook, Rec, Verdict};
use libfuzzer_sys::fuzz_target;
use std::sync::OnceLock;

static PROP: OnceLock<String> = OnceLock::new();

fuzz_target!(|data: &[u8]| {
    let prop = PROP.get_or_init(|| {
        install_quiet_panic_hook();
        std::env::var("HV_FUZZ_PROP").unwrap_or_default()
    });
    if data.len() > 4096 {
        return;
    }
    let mut rec = Rec::new();
    rec.on = false;
    let (plan, body) = c03::split_fuzz_input(data);
    if prop.is_empty() || prop == "C03" {
        if let Verdict::Fail { sig, msg } = c03::check_bytes(body, &plan, &mut rec, false) {
            panic!("VIOLATION {sig}: {msg}");
        }
    }
    if prop.is_empty() || prop == "C11" {
        let d = c03::Doc { bytes: body.to_vec(), plan, origin: "zinc-libfuzzer".into() };
        if let Verdict::Fail { sig, msg } = c11::check_fixpoint_pub(&d, &mut rec) {
            panic!("VIOLATION {sig}: {msg}");
        }
    }
});
