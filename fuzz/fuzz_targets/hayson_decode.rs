#![no_main]
//! C03 / C10 / C11 oracle: Hayson decoding is total, its image can be offered to the Zinc encoder
//! and to display text, and accepted documents reach a re-encoding fixed point.
use hvlib::props::{c03, c10, c11};
use hvlib::runner::{install_quiet_panic_hook, Rec, Verdict};
use libfuzzer_sys::fuzz_target;
use std::sync::OnceLock;

static PROP: OnceLock<String> = OnceLock::new();

fuzz_target!(|data: &[u8]| {
    let prop = PROP.get_or_init(|| {
        install_quiet_panic_hook();
        std::env::var("HV_FUZZ_PROP").unwrap_or_default()
    });
    if data.len() > 4096 {
        return;
    }
    let mut rec = Rec::new();
    rec.on = false;
    if prop.is_empty() || prop == "C03" {
        if let Err(Verdict::Fail { sig, msg }) = c03::json_decode(data) {
            panic!("VIOLATION {sig}: {msg}");
        }
    }
    if let Ok(text) = std::str::from_utf8(data) {
        if prop.is_empty() || prop == "C10" {
            if let Verdict::Fail { sig, msg } = c10::check_foreign_pub(text, &mut rec) {
                panic!("VIOLATION {sig}: {msg}");
            }
        }
        if prop.is_empty() || prop == "C11" {
            let d = c03::Doc { bytes: data.to_vec(), plan: Default::default(), origin: "hayson-libfuzzer".into() };
            if let Verdict::Fail { sig, msg } = c11::check_fixpoint_pub(&d, &mut rec) {
                panic!("VIOLATION {sig}: {msg}");
            }
        }
    }
});
