#![no_main]
//! C03 / C10 / C11 oracle: Hayson decoding is total, its image can be offered to both encoders,
//! and accepted documents reach a re-encoding fixed point.
use hvlib::props::{c03, c11};
use hvlib::runner::{guarded, install_quiet_panic_hook, Rec, Verdict};
use libfuzzer_sys::fuzz_target;
use libhaystack::val::Value;
use std::sync::Once;

static INIT: Once = Once::new();

fuzz_target!(|data: &[u8]| {
    INIT.call_once(install_quiet_panic_hook);
    if data.len() > 4096 {
        return;
    }
    let mut rec = Rec::new();
    rec.on = false;
    if let Err(Verdict::Fail { sig, msg }) = c03::json_decode(data) {
        panic!("VIOLATION {sig}: {msg}");
    }
    if let Ok(text) = std::str::from_utf8(data) {
        if let Ok(Ok(v)) = guarded(|| serde_json::from_str::<Value>(text)) {
            // the image of the decoder offered to the other encoder (C10)
            if let Err(p) = guarded(|| {
                let _ = libhaystack::encoding::zinc::encode::to_zinc_string(&v);
                let _ = format!("{v}");
            }) {
                panic!("VIOLATION C10:zinc-encode-of-hayson-image: {} at {}", p.msg, p.location);
            }
        }
        if let Verdict::Fail { sig, msg } = c11::hayson_fixed_point_pub(text, &mut rec) {
            panic!("VIOLATION {sig}: {msg}");
        }
    }
});
