#![no_main]
//! C09 oracle: the filter parser is total and every parsed filter prints and evaluates (cyclic refs).
use hvlib::props::c09;
use hvlib::runner::{install_quiet_panic_hook, Rec, Verdict};
use libfuzzer_sys::fuzz_target;
use std::sync::Once;

static INIT: Once = Once::new();

fuzz_target!(|data: &[u8]| {
    INIT.call_once(install_quiet_panic_hook);
    if data.len() > 512 {
        return;
    }
    // deep parenthesis nesting is the business of the child-process ladder
    if data.iter().filter(|b| **b == b'(').count() > 300 {
        return;
    }
    let mut rec = Rec::new();
    rec.on = false;
    let case = c09::ftext_from_fuzz(data);
    if let Verdict::Fail { sig, msg } = c09::check_text_pub(&case, &mut rec) {
        panic!("VIOLATION {sig}: {msg}");
    }
});
