#![no_main]
//! C01 / C02 / C04 oracle over structured values: the fuzzer's bytes are decoded into a
//! well-formed value (hvlib::gen::arb over arbitrary::Unstructured) and the round-trip /
//! conformance oracles run inside the target. HV_FUZZ_PROP selects one property's oracle.
use hvlib::props::{c01, c02, c04};
use hvlib::runner::{install_quiet_panic_hook, Rec, Verdict};
use libfuzzer_sys::fuzz_target;
use std::sync::OnceLock;

static PROP: OnceLock<String> = OnceLock::new();

fuzz_target!(|data: &[u8]| {
    let prop = PROP.get_or_init(|| {
        install_quiet_panic_hook();
        std::env::var("HV_FUZZ_PROP").unwrap_or_default()
    });
    let Some((v, choices)) = hvlib::gen::arb::value_and_choices(data) else { return };
    let mut rec = Rec::new();
    rec.on = false;
    let mut results = vec![];
    if prop.is_empty() || prop == "C01" {
        results.push(c01::check_value(&v, &mut rec));
    }
    if prop.is_empty() || prop == "C02" {
        results.push(c02::check_value(&v, &mut rec));
    }
    if prop.is_empty() || prop == "C04" {
        results.push(c04::check_a(&v, &mut rec));
        results.push(c04::check_b(&c04::Spelled { v: v.clone(), choices }, &mut rec));
    }
    for r in results {
        if let Verdict::Fail { sig, msg } = r {
            panic!("VIOLATION {sig}: {msg}");
        }
    }
});
